#!/bin/sh
# Offline setup: nothing is fetched. Sanity-check the tools and pre-parse the specifications.
set -e
cd "$(dirname "$0")"
command -v java >/dev/null
test -f /opt/veriftools/tla/tla2tools.jar
/venv/bin/python -c "import sys; sys.path.insert(0, '/repo'); import cassandra"
mkdir -p evidence/replays
cd spec
CP=/opt/veriftools/tla/tla2tools.jar:/opt/veriftools/tla/CommunityModules-deps.jar
# parse every module in one JVM (SANY exits non-zero if any module fails); on failure name the culprits
if ! java -cp "$CP" -DTLA-Library=. tla2sany.SANY *.tla >/dev/null 2>&1; then
  fails=$(ls *.tla | xargs -P 8 -I{} sh -c 'java -cp "'"$CP"'" -DTLA-Library=. tla2sany.SANY "{}" >/dev/null 2>&1 || echo "{}"' | tr '\n' ' ')
  echo "SANY failed on: $fails"
  exit 1
fi
exit 0
