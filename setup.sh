#!/bin/sh
# Offline setup: nothing is fetched. Sanity-check the tools and pre-parse the specifications.
set -e
cd "$(dirname "$0")"
command -v java >/dev/null
test -f /opt/veriftools/tla/tla2tools.jar
/venv/bin/python -c "import sys; sys.path.insert(0, '/repo'); import cassandra"
mkdir -p evidence/replays
cd spec
CP=/opt/veriftools/tla/tla2tools.jar:/opt/veriftools/tla/CommunityModules-deps.jar
rc=0
fails=""
for f in *.tla; do
  # Trace_* modules read IOEnv.TRACE_FILE at evaluation time only; parsing them is fine too
  if ! java -cp "$CP" -DTLA-Library=. tla2sany.SANY "$f" >/dev/null 2>&1; then
    fails="$fails $f"; rc=1
  fi
done
[ -z "$fails" ] || echo "SANY failed on:$fails"
exit $rc
