#!/bin/sh
# Offline setup: nothing is fetched. Sanity-check the tools and pre-parse the specifications.
set -e
cd "$(dirname "$0")"
command -v java >/dev/null
test -f /opt/veriftools/tla/tla2tools.jar
/venv/bin/python -c "import sys; sys.path.insert(0, '/repo'); import cassandra"
mkdir -p evidence/replays
rc=0
for f in spec/*.tla; do
  case "$f" in spec/Trace*) continue;; esac
  if ! java -cp /opt/veriftools/tla/tla2tools.jar tla2sany.SANY "$f" >/dev/null 2>&1; then
    echo "SANY failed on $f"; rc=1
  fi
done
exit $rc
