"""Run TLC (model checking, simulation, batched trace validation) and parse what it says."""
import json
import os
import re
import shutil
import subprocess
import tempfile
import time

from . import tlaval

VERIF = os.path.dirname(os.path.dirname(os.path.abspath(__file__)))
SPEC_DIR = os.path.join(VERIF, "spec")
JAR = "/opt/veriftools/tla/tla2tools.jar"


class MachineryError(Exception):
    """Something in the checking machinery (not the code under test) failed -> exit 2."""


def scratch_root():
    root = os.environ.get("VERIF_SCRATCH") or "/var/tmp"
    os.makedirs(root, exist_ok=True)
    return root


class Scratch:
    """Scratch directory outside /repo and /verif, removed on exit."""

    def __init__(self, tag="verif"):
        self.tag = tag

    def __enter__(self):
        self.path = tempfile.mkdtemp(prefix="%s." % self.tag, dir=scratch_root())
        return self.path

    def __exit__(self, *a):
        shutil.rmtree(self.path, ignore_errors=True)


class TLCResult:
    def __init__(self, rc, out, wall):
        self.rc = rc
        self.out = out
        self.wall = wall
        m = re.search(r'(\d+) states generated, (\d+) distinct states found, (\d+) states left on queue', out)
        self.generated = int(m.group(1)) if m else 0
        self.distinct = int(m.group(2)) if m else 0
        self.left = int(m.group(3)) if m else 0
        m = re.search(r'The depth of the complete state graph search is (\d+)', out)
        self.depth = int(m.group(1)) if m else 0
        self.ok = ('Model checking completed. No error has been found.' in out) and rc == 0
        self.invariant = None
        m = re.search(r'Invariant (\S+) is violated', out)
        if m:
            self.invariant = m.group(1)
        m = re.search(r'Action property (\S+) is violated', out)
        if m:
            self.invariant = m.group(1)
        if 'Temporal properties were violated' in out:
            self.invariant = self.invariant or 'temporal'
        self.deadlock = 'Deadlock reached' in out
        self.postcondition_failed = 'POSTCONDITION' in out and 'violated' in out.split('POSTCONDITION')[-1][:200]
        self.violation = bool(self.invariant or self.deadlock)
        self.error = None
        if not self.ok and not self.violation:
            m = re.search(r'(Error: .*|.*Exception.*|.*was violated.*|.*is false.*)', out)
            self.error = m.group(1) if m else ('rc=%d' % rc)

    def trace(self):
        return tlaval.parse_error_trace(self.out)

    def coverage(self):
        """action name -> (distinct, total) from `-coverage` output (last report)."""
        cov = {}
        for m in re.finditer(r'^<(\w+) line \d+, col \d+ to line \d+, col \d+ of module (\w+)>: (\d+):(\d+)', self.out, re.M):
            cov[m.group(1)] = (int(m.group(3)), int(m.group(4)))
        return cov

    def printed(self, marker=None):
        """Values printed with PrintT (possibly wrapped over several lines) that parse as TLA+ values.
        With `marker`, only tuples printed as <<"marker", ...>> are returned."""
        vals = []
        out = self.out
        start = re.compile(r'<<\s*"%s"' % re.escape(marker)) if marker else None
        pos = 0
        while True:
            if start:
                m = start.search(out, pos)
                i = m.start() if m else -1
            else:
                m = re.compile(r'^(<<|\[|\{|\()', re.M).search(out, pos)
                i = m.start() if m else -1
            if i < 0:
                break
            j = _balanced_end(out, i)
            if j < 0:
                pos = i + 2
                continue
            try:
                vals.append(tlaval.parse_value(out[i:j]))
            except (ValueError, IndexError):
                pass
            pos = j
        return vals


def _balanced_end(text, i):
    """Index just past the bracketed TLA+ value starting at text[i], or -1."""
    depth = 0
    n = len(text)
    k = i
    instr = False
    while k < n:
        ch = text[k]
        if instr:
            if ch == '\\':
                k += 1
            elif ch == '"':
                instr = False
        elif ch == '"':
            instr = True
        elif text.startswith('<<', k) or text.startswith('>>', k):
            depth += 1 if text[k] == '<' else -1
            k += 1
            if depth == 0:
                return k + 1
        elif ch in '[{(':
            depth += 1
        elif ch in ']})':
            depth -= 1
            if depth == 0:
                return k + 1
        k += 1
    return -1


def run_tlc(module, cfg, workdir, *, workers=16, timeout=600, dump=None, dot=None, simulate=None,
            depth=None, seed=None, coverage=False, env=None, deadlock=None, extra=(), deque=False,
            heap="4g", spec_dir=None):
    """Run TLC on spec/<module>.tla with spec/<cfg> (paths relative to spec dir, or absolute).

    All TLC state goes under `workdir` (a Scratch path)."""
    spec_dir = spec_dir or SPEC_DIR
    tla = module if module.endswith('.tla') else module + '.tla'
    tla_path = tla if os.path.isabs(tla) else os.path.join(spec_dir, tla)
    cfg_path = cfg if os.path.isabs(cfg) else os.path.join(spec_dir, cfg)
    meta = tempfile.mkdtemp(prefix="meta.", dir=workdir)
    libs = os.pathsep.join([spec_dir, os.path.dirname(tla_path)])
    java = ["java", "-XX:+UseParallelGC", "-Xmx%s" % heap, "-DTLA-Library=%s" % libs]
    if deque:
        java.append("-Dtlc2.tool.queue.IStateQueue=StateDeque")
    # `timeout` also bounds the JVM when the Python parent dies (an orphaned TLC once filled the disk)
    cmd = ["timeout", "-k", "10", str(int(timeout) + 120)] + java + ["-cp", JAR + os.pathsep + "/opt/veriftools/tla/CommunityModules-deps.jar", "tlc2.TLC", "-workers", str(workers), "-metadir", meta,
                  "-noGenerateSpecTE", "-config", cfg_path]
    if deadlock is False:
        cmd.append("-deadlock")          # -deadlock = do NOT check for deadlock
    if dump:
        cmd += ["-dump", dump]
    if dot:
        cmd += ["-dump", "dot,actionlabels", dot]
    if simulate:
        cmd += ["-simulate", simulate]
    if depth:
        cmd += ["-depth", str(depth)]
    if seed is not None:
        cmd += ["-seed", str(seed)]
    if coverage:
        cmd += ["-coverage", "1"]
    cmd += list(extra)
    cmd.append(tla_path)
    e = dict(os.environ)
    e.pop("JAVA_TOOL_OPTIONS", None)
    if env:
        e.update(env)
    t0 = time.time()
    try:
        p = subprocess.run(cmd, cwd=workdir, env=e, stdout=subprocess.PIPE, stderr=subprocess.STDOUT,
                           timeout=timeout, text=True, errors="replace")
        out, rc = p.stdout, p.returncode
    except subprocess.TimeoutExpired as ex:
        out = (ex.stdout or b"")
        if isinstance(out, bytes):
            out = out.decode("utf-8", "replace")
        out += "\nTLC TIMEOUT after %ss" % timeout
        rc = 124
    res = TLCResult(rc, out, time.time() - t0)
    shutil.rmtree(meta, ignore_errors=True)
    return res


def check_model(module, cfg, workdir, **kw):
    """Exhaustive check; raises MachineryError unless TLC finished (with or without a violation)."""
    res = run_tlc(module, cfg, workdir, **kw)
    if not res.ok and not res.violation:
        raise MachineryError("TLC failed on %s/%s: %s\n%s" % (module, cfg, res.error, res.out[-3000:]))
    return res


def write_cfg(path, *, init="Init", next="Next", spec=None, constants=None, invariants=(), properties=(),
              constraints=(), action_constraints=(), view=None, postcondition=None, symmetry=None,
              deadlock=None, alias=None):
    lines = []
    if spec:
        lines.append("SPECIFICATION %s" % spec)
    else:
        lines += ["INIT %s" % init, "NEXT %s" % next]
    if constants:
        lines.append("CONSTANTS")
        for k, v in constants.items():
            if isinstance(v, str) and v.startswith("<-"):
                lines.append("  %s %s" % (k, v))
            else:
                lines.append("  %s = %s" % (k, v if isinstance(v, str) else tlaval.to_tla(v)))
    for i in invariants:
        lines.append("INVARIANT %s" % i)
    for p in properties:
        lines.append("PROPERTY %s" % p)
    for c in constraints:
        lines.append("CONSTRAINT %s" % c)
    for c in action_constraints:
        lines.append("ACTION_CONSTRAINT %s" % c)
    if view:
        lines.append("VIEW %s" % view)
    if symmetry:
        lines.append("SYMMETRY %s" % symmetry)
    if postcondition:
        lines.append("POSTCONDITION %s" % postcondition)
    if alias:
        lines.append("ALIAS %s" % alias)
    if deadlock is not None:
        lines.append("CHECK_DEADLOCK %s" % ("TRUE" if deadlock else "FALSE"))
    with open(path, "w") as f:
        f.write("\n".join(lines) + "\n")
    return path


# ------------------------------------------------------------------ behaviours out of TLC

def enumerate_states(module, cfg, workdir, **kw):
    """Run exhaustively, return (TLCResult, list of all distinct states as dicts)."""
    dump = os.path.join(workdir, "states_%d" % int(time.time() * 1000 % 10**9))
    res = check_model(module, cfg, workdir, dump=dump, **kw)
    path = dump if os.path.exists(dump) else dump + ".dump"
    states = tlaval.parse_dump(path)
    os.unlink(path)
    return res, states


def state_graph(module, cfg, workdir, **kw):
    """Run exhaustively, return (TLCResult, nodes, edges, init_ids)."""
    dot = os.path.join(workdir, "graph_%d.dot" % int(time.time() * 1000 % 10**9))
    res = check_model(module, cfg, workdir, dot=dot, **kw)
    nodes, edges, init = tlaval.parse_dot(dot)
    os.unlink(dot)
    return res, nodes, edges, init


def simulate(module, cfg, workdir, *, num, depth, seed=0, timeout=600, **kw):
    """`tlc -simulate`: returns (TLCResult, list of behaviours (each a list of state dicts))."""
    d = tempfile.mkdtemp(prefix="sim.", dir=workdir)
    res = run_tlc(module, cfg, workdir, workers=1, simulate="file=%s/tr,num=%d" % (d, num), depth=depth,
                  seed=seed, timeout=timeout, **kw)
    behs = []
    for fn in sorted(os.listdir(d)):
        try:
            b = tlaval.parse_sim_trace(os.path.join(d, fn))
        except ValueError as ex:
            raise MachineryError("cannot parse simulation trace %s: %s" % (fn, ex))
        if b:
            behs.append(b)
    shutil.rmtree(d, ignore_errors=True)
    if res.violation:
        return res, behs
    if res.rc not in (0,) and 'TIMEOUT' not in res.out and not behs:
        raise MachineryError("TLC -simulate failed on %s/%s: %s\n%s" % (module, cfg, res.error, res.out[-3000:]))
    return res, behs


def graph_walks(nodes, edges, init, *, rng, max_walks, max_len, cover_edges=True, random_walks=None):
    """Paths through a state graph from an initial state. First enough walks to cover every edge
    (greedy, via BFS to the nearest uncovered edge), then random walks. Each walk is a list of node ids."""
    succ = {}
    for s, d, lab in edges:
        succ.setdefault(s, []).append(d)
    walks = []
    if cover_edges:
        # BFS tree from init for shortest prefix to any node
        from collections import deque
        parent = {}
        dq = deque()
        for i in init:
            parent[i] = None
            dq.append(i)
        while dq:
            u = dq.popleft()
            for v in succ.get(u, ()):
                if v not in parent:
                    parent[v] = u
                    dq.append(v)

        def prefix(n):
            p = []
            while n is not None:
                p.append(n)
                n = parent[n]
            return p[::-1]
        uncovered = set((s, d) for s, d, _ in edges if s in parent)
        unc_from = {}
        for s_, d_ in uncovered:
            unc_from.setdefault(s_, set()).add(d_)

        def take(a, b):
            if (a, b) in uncovered:
                uncovered.discard((a, b))
                unc_from[a].discard(b)
                if not unc_from[a]:
                    del unc_from[a]

        def path_to_uncovered(start, budget):
            """Shortest path (list of nodes after `start`) to a node with an uncovered out-edge."""
            if start in unc_from:
                return []
            seen = {start: None}
            dq2 = deque([(start, 0)])
            while dq2:
                u, dist = dq2.popleft()
                if dist >= budget:
                    continue
                for v in succ.get(u, ()):
                    if v not in seen:
                        seen[v] = u
                        if v in unc_from:
                            p = [v]
                            while seen[p[-1]] is not None and seen[p[-1]] != start:
                                p.append(seen[p[-1]])
                            return p[::-1]
                        dq2.append((v, dist + 1))
            return None

        while uncovered and len(walks) < max_walks:
            s, d = next(iter(uncovered))
            w = prefix(s) + [d]
            for a, b in zip(w, w[1:]):
                take(a, b)
            cur = d
            while len(w) < max_len:
                nxt = unc_from.get(cur)
                if nxt:
                    v = next(iter(nxt))
                    take(cur, v)
                    w.append(v)
                    cur = v
                    continue
                p = path_to_uncovered(cur, max_len - len(w) - 1)
                if not p:
                    break
                for v in p:
                    take(cur, v)
                    w.append(v)
                    cur = v
            walks.append(w)
    target = max_walks if random_walks is None else min(max_walks, len(walks) + random_walks)
    while len(walks) < target and init:
        cur = rng.choice(init)
        w = [cur]
        while len(w) < max_len and succ.get(cur):
            cur = rng.choice(succ[cur])
            w.append(cur)
        walks.append(w)
    return walks


# ------------------------------------------------------------------ batched trace validation

def validate_traces(trace_module, cfg, traces, workdir, *, timeout=900, extra_env=None, heap="4g", deque=True):
    """Validate many recorded traces against spec/<trace_module>.tla in one JVM.

    Convention for the trace spec (see spec/TraceLib.tla):
      * reads JSON list of traces from IOEnv.TRACE_FILE; variable `tid` picks the trace, `l` the position;
      * a CONSTRAINT records, per tid, the furthest position reached in TLC register 1 (a function tid -> l);
      * POSTCONDITION prints the register as one TLA+ value on a line starting with `<<"TRACE_PROGRESS",`.
    Returns (TLCResult, progress: list of furthest l per trace (1-based index of the next unconsumed event))."""
    tf = os.path.join(workdir, "traces_%d.json" % int(time.time() * 1000 % 10**9))
    with open(tf, "w") as f:
        json.dump(traces, f)
    env = {"TRACE_FILE": tf}
    if extra_env:
        env.update(extra_env)
    res = run_tlc(trace_module, cfg, workdir, workers=1, timeout=timeout, env=env, deadlock=False,
                  deque=deque, heap=heap)
    os.unlink(tf)
    progress = None
    for v in res.printed("TRACE_PROGRESS"):
        if isinstance(v, tuple) and len(v) == 2 and v[0] == "TRACE_PROGRESS":
            p = v[1]
            if isinstance(p, dict):
                progress = [p.get(i + 1, 0) for i in range(len(traces))]
            else:
                progress = list(p)
    if progress is None and not res.violation:
        raise MachineryError("trace validation produced no progress record: %s\n%s" % (res.error, res.out[-3000:]))
    return res, progress
