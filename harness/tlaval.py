"""Parse TLA+ values / states as printed by TLC, and print Python values as TLA+.

Python representation
  record, function      -> FrozenDict (hashable dict)
  sequence / tuple      -> tuple
  set                   -> frozenset
  string                -> str
  model value / ident   -> MV (str subclass) so that it can be told from a string
  integer / boolean     -> int / bool
A function whose domain is 1..n is printed by TLC as a tuple and comes back as a tuple.
"""
import re


class FrozenDict(dict):
    __slots__ = ("_h",)

    def __hash__(self):
        try:
            return self._h
        except AttributeError:
            self._h = hash(frozenset(self.items()))
            return self._h

    def _ro(self, *a, **k):
        raise TypeError("FrozenDict is read-only")

    __setitem__ = __delitem__ = clear = pop = popitem = setdefault = update = _ro

    def __getattr__(self, k):
        try:
            return self[k]
        except KeyError:
            raise AttributeError(k)


class MV(str):
    """A TLA+ model value / bare identifier."""
    __slots__ = ()

    def __repr__(self):
        return "MV(%s)" % str.__repr__(self)


_TOK = re.compile(r'''
    (?P<ws>\s+)
  | (?P<str>"(?:[^"\\]|\\.)*")
  | (?P<int>-?\d+)
  | (?P<op><<|>>|\|->|:>|@@|\.\.|/\\|==|[\[\]{}(),=])
  | (?P<id>[A-Za-z_][A-Za-z0-9_!]*)
''', re.X)

_UNESC = re.compile(r'\\(.)')
_ESCMAP = {'n': '\n', 't': '\t', 'r': '\r', 'f': '\f', '"': '"', '\\': '\\'}


def tokenize(text):
    out = []
    pos = 0
    n = len(text)
    m = _TOK.match
    while pos < n:
        mo = m(text, pos)
        if mo is None:
            raise ValueError("cannot tokenize TLA+ text at %r" % text[pos:pos + 40])
        kind = mo.lastgroup
        if kind != 'ws':
            out.append((kind, mo.group()))
        pos = mo.end()
    return out


class _P:
    def __init__(self, toks):
        self.t = toks
        self.i = 0

    def peek(self):
        return self.t[self.i] if self.i < len(self.t) else (None, None)

    def next(self):
        tok = self.t[self.i]
        self.i += 1
        return tok

    def expect(self, s):
        k, v = self.next()
        if v != s:
            raise ValueError("expected %r got %r at token %d" % (s, v, self.i))

    def value(self):
        v = self.atom()
        k, s = self.peek()
        if s == '..':
            self.next()
            hi = self.atom()
            return frozenset(range(v, hi + 1))
        return v

    def atom(self):
        k, s = self.next()
        if k == 'int':
            return int(s)
        if k == 'str':
            return _UNESC.sub(lambda m: _ESCMAP.get(m.group(1), m.group(1)), s[1:-1])
        if k == 'id':
            if s == 'TRUE':
                return True
            if s == 'FALSE':
                return False
            return MV(s)
        if s == '<<':
            items = []
            if self.peek()[1] == '>>':
                self.next()
                return ()
            while True:
                items.append(self.value())
                k, s2 = self.next()
                if s2 == '>>':
                    return tuple(items)
                if s2 != ',':
                    raise ValueError("bad tuple near token %d: %r" % (self.i, s2))
        if s == '{':
            items = []
            if self.peek()[1] == '}':
                self.next()
                return frozenset()
            while True:
                items.append(self.value())
                k, s2 = self.next()
                if s2 == '}':
                    return frozenset(items)
                if s2 != ',':
                    raise ValueError("bad set near token %d: %r" % (self.i, s2))
        if s == '[':
            d = {}
            while True:
                k, name = self.next()
                self.expect('|->')
                d[name] = self.value()
                k, s2 = self.next()
                if s2 == ']':
                    return FrozenDict(d)
                if s2 != ',':
                    raise ValueError("bad record near token %d: %r" % (self.i, s2))
        if s == '(':
            d = {}
            while True:
                key = self.value()
                self.expect(':>')
                d[key] = self.value()
                k, s2 = self.next()
                if s2 == ')':
                    return FrozenDict(d)
                if s2 != '@@':
                    raise ValueError("bad function near token %d: %r" % (self.i, s2))
        raise ValueError("unexpected token %r at %d" % (s, self.i))

    def state(self):
        """/\\ v = val /\\ w = val ...  (leading /\\ optional for a single var)"""
        d = {}
        while self.peek()[1] == '/\\' or (self.peek()[0] == 'id' and not d):
            if self.peek()[1] == '/\\':
                self.next()
            k, name = self.next()
            self.expect('=')
            d[name] = self.value()
        return d


def parse_value(text):
    p = _P(tokenize(text))
    v = p.value()
    if p.i != len(p.t):
        raise ValueError("trailing tokens in TLA+ value: %r" % (p.t[p.i:p.i + 5],))
    return v


def parse_state(text):
    p = _P(tokenize(text))
    d = p.state()
    if p.i != len(p.t):
        raise ValueError("trailing tokens in TLA+ state: %r" % (p.t[p.i:p.i + 5],))
    return d


_STATE_HDR = re.compile(r'^State (\d+):\s*$', re.M)


def parse_dump(path):
    """States written by `tlc -dump <file>` -> list of dicts."""
    with open(path) as f:
        text = f.read()
    parts = _STATE_HDR.split(text)
    out = []
    for i in range(2, len(parts), 2):
        body = parts[i].strip()
        if body:
            out.append(parse_state(body))
    return out


_DOT_NODE = re.compile(r'^(-?\d+) \[label="((?:[^"\\]|\\.)*)"', re.M)
_DOT_EDGE = re.compile(r'^(-?\d+) -> (-?\d+) \[label="((?:[^"\\]|\\.)*)"', re.M)


def _dot_unescape(s):
    return s.replace('\\n', '\n').replace('\\"', '"').replace('\\\\', '\\')


def parse_dot(path):
    """`tlc -dump dot,actionlabels` -> (nodes: id->state dict, edges: [(src,dst,label)], init ids)."""
    with open(path) as f:
        text = f.read()
    nodes = {}
    init = []
    for mo in _DOT_NODE.finditer(text):
        nid = mo.group(1)
        if nid not in nodes:
            nodes[nid] = parse_state(_dot_unescape(mo.group(2)))
            line_end = text.find('\n', mo.end())
            if 'style = filled' in text[mo.end():line_end]:
                init.append(nid)
    edges = [(m.group(1), m.group(2), _dot_unescape(m.group(3))) for m in _DOT_EDGE.finditer(text)]
    return nodes, edges, init


_SIM_STATE = re.compile(r'^STATE_(\d+) ==\s*$', re.M)


def parse_sim_trace(path):
    """One behaviour file written by `tlc -simulate file=...` -> list of state dicts."""
    with open(path) as f:
        text = f.read()
    # strip comment lines (\* <Action ...>)
    text = re.sub(r'^\\\*.*$', '', text, flags=re.M)
    parts = _SIM_STATE.split(text)
    out = []
    for i in range(2, len(parts), 2):
        body = parts[i].strip()
        # a trailing "=====" or next definition may follow
        body = re.split(r'^={4,}\s*$', body, flags=re.M)[0].strip()
        if body:
            out.append(parse_state(body))
    return out


def parse_error_trace(output):
    """Counterexample printed by TLC on stdout -> list of (action label, state dict)."""
    out = []
    pat = re.compile(r'^State (\d+): <([^>]*)>\s*\n((?:(?!^State \d+:|^\s*$).*\n?)+)', re.M)
    for mo in pat.finditer(output):
        try:
            out.append((mo.group(2), parse_state(mo.group(3))))
        except ValueError:
            out.append((mo.group(2), {"_unparsed": mo.group(3)}))
    return out


# ---------------------------------------------------------------- printing

def to_tla(v):
    if isinstance(v, bool):
        return "TRUE" if v else "FALSE"
    if isinstance(v, MV):
        return str(v)
    if isinstance(v, int):
        return str(v)
    if isinstance(v, str):
        return '"' + v.replace('\\', '\\\\').replace('"', '\\"').replace('\n', '\\n') + '"'
    if isinstance(v, (bytes, bytearray)):
        return "<<" + ", ".join(str(b) for b in v) + ">>"
    if isinstance(v, (list, tuple)):
        return "<<" + ", ".join(to_tla(x) for x in v) + ">>"
    if isinstance(v, (set, frozenset)):
        return "{" + ", ".join(sorted(to_tla(x) for x in v)) + "}"
    if isinstance(v, dict):
        if not v:
            return "<<>>"
        if all(isinstance(k, str) and not isinstance(k, MV) and re.match(r'^[A-Za-z_][A-Za-z0-9_]*$', k) for k in v):
            return "[" + ", ".join("%s |-> %s" % (k, to_tla(x)) for k, x in v.items()) + "]"
        return "(" + " @@ ".join("%s :> %s" % (to_tla(k), to_tla(x)) for k, x in v.items()) + ")"
    if v is None:
        return '"None"'
    raise TypeError("cannot print %r as TLA+" % (v,))


def to_py(v):
    """FrozenDict/tuple/frozenset -> plain JSON-friendly Python (sets become sorted lists)."""
    if isinstance(v, dict):
        return {str(k) if not isinstance(k, (int, str)) else k: to_py(x) for k, x in v.items()}
    if isinstance(v, tuple):
        return [to_py(x) for x in v]
    if isinstance(v, frozenset):
        try:
            return sorted(to_py(x) for x in v)
        except TypeError:
            return sorted((to_py(x) for x in v), key=repr)
    if isinstance(v, MV):
        return str(v)
    return v


if __name__ == "__main__":
    import sys
    for st in parse_dump(sys.argv[1])[:5]:
        print(st)
