"""Independent native-protocol codec used by the harness side (FakeNode, vector building).

Written from the native protocol v1-v5 documents, NOT from cassandra/protocol.py, and using only
struct/zlib-free arithmetic so that a defect in the driver's codec is not mirrored here.
"""
import struct

# opcodes
ERROR, STARTUP, READY, AUTHENTICATE, CREDENTIALS, OPTIONS, SUPPORTED, QUERY, RESULT, PREPARE, EXECUTE, \
    REGISTER, EVENT, BATCH, AUTH_CHALLENGE, AUTH_RESPONSE, AUTH_SUCCESS = range(0x00, 0x11)
REVISE_REQUEST = 0xFF

OPNAMES = {0: "ERROR", 1: "STARTUP", 2: "READY", 3: "AUTHENTICATE", 4: "CREDENTIALS", 5: "OPTIONS", 6: "SUPPORTED",
           7: "QUERY", 8: "RESULT", 9: "PREPARE", 10: "EXECUTE", 11: "REGISTER", 12: "EVENT", 13: "BATCH",
           14: "AUTH_CHALLENGE", 15: "AUTH_RESPONSE", 16: "AUTH_SUCCESS", 0xFF: "REVISE_REQUEST"}

FLAG_COMPRESSED, FLAG_TRACING, FLAG_PAYLOAD, FLAG_WARNING, FLAG_BETA = 0x01, 0x02, 0x04, 0x08, 0x10


# ------------------------------------------------------------------ primitive writers
def w_byte(v):
    return bytes([v & 0xFF])


def w_short(v):
    return bytes([(v >> 8) & 0xFF, v & 0xFF])


def w_int(v):
    v &= 0xFFFFFFFF
    return bytes([(v >> 24) & 0xFF, (v >> 16) & 0xFF, (v >> 8) & 0xFF, v & 0xFF])


def w_long(v):
    v &= 0xFFFFFFFFFFFFFFFF
    return bytes((v >> (8 * i)) & 0xFF for i in range(7, -1, -1))


def w_string(s):
    b = s.encode("utf-8") if isinstance(s, str) else s
    return w_short(len(b)) + b


def w_longstring(s):
    b = s.encode("utf-8") if isinstance(s, str) else s
    return w_int(len(b)) + b


def w_bytes(b):
    if b is None:
        return w_int(-1)
    return w_int(len(b)) + bytes(b)


def w_shortbytes(b):
    return w_short(len(b)) + bytes(b)


def w_stringlist(l):
    return w_short(len(l)) + b"".join(w_string(s) for s in l)


def w_stringmap(m):
    return w_short(len(m)) + b"".join(w_string(k) + w_string(v) for k, v in m.items())


def w_stringmultimap(m):
    return w_short(len(m)) + b"".join(w_string(k) + w_stringlist(v) for k, v in m.items())


def w_bytesmap(m):
    return w_short(len(m)) + b"".join(w_string(k) + w_bytes(v) for k, v in m.items())


def w_inet(addr, port):
    parts = bytes(int(x) for x in addr.split("."))
    return w_byte(len(parts)) + parts + w_int(port)


def w_inetaddr(addr):
    parts = bytes(int(x) for x in addr.split("."))
    return w_byte(len(parts)) + parts


def w_uuid(u):
    return u.bytes if hasattr(u, "bytes") else bytes(u)


# ------------------------------------------------------------------ reader
class Reader:
    def __init__(self, data, pos=0):
        self.d = bytes(data)
        self.p = pos

    def take(self, n):
        if n < 0 or self.p + n > len(self.d):
            raise ValueError("short read: want %d at %d of %d" % (n, self.p, len(self.d)))
        b = self.d[self.p:self.p + n]
        self.p += n
        return b

    def byte(self):
        return self.take(1)[0]

    def short(self):
        b = self.take(2)
        return (b[0] << 8) | b[1]

    def int(self):
        b = self.take(4)
        v = (b[0] << 24) | (b[1] << 16) | (b[2] << 8) | b[3]
        return v - (1 << 32) if v & 0x80000000 else v

    def uint(self):
        b = self.take(4)
        return (b[0] << 24) | (b[1] << 16) | (b[2] << 8) | b[3]

    def long(self):
        b = self.take(8)
        v = 0
        for x in b:
            v = (v << 8) | x
        return v - (1 << 64) if v & (1 << 63) else v

    def string(self):
        return self.take(self.short()).decode("utf-8")

    def longstring(self):
        return self.take(self.int()).decode("utf-8")

    def bytes(self):
        n = self.int()
        if n < 0:
            return None if n == -1 else ("UNSET" if n == -2 else ValueError("bad length"))
        return self.take(n)

    def shortbytes(self):
        return self.take(self.short())

    def stringlist(self):
        return [self.string() for _ in range(self.short())]

    def stringmap(self):
        return {self.string(): self.string() for _ in range(self.short())}

    def bytesmap(self):
        out = {}
        for _ in range(self.short()):
            k = self.string()
            out[k] = self.bytes()
        return out

    def done(self):
        return self.p == len(self.d)

    def rest(self):
        return self.d[self.p:]


# ------------------------------------------------------------------ frames
def header_len(version):
    return 9 if (version & 0x7F) >= 3 else 8


def encode_frame(version, flags, stream, opcode, body, response=True):
    v = (version & 0x7F) | (0x80 if response else 0)
    if (version & 0x7F) >= 3:
        return bytes([v, flags]) + w_short(stream) + bytes([opcode]) + w_int(len(body)) + body
    return bytes([v, flags, stream & 0xFF, opcode]) + w_int(len(body)) + body


class Frame:
    __slots__ = ("version", "response", "flags", "stream", "opcode", "body")

    def __init__(self, version, response, flags, stream, opcode, body):
        self.version, self.response, self.flags, self.stream, self.opcode, self.body = \
            version, response, flags, stream, opcode, body

    def __repr__(self):
        return "Frame(v%d %s flags=%#x stream=%d %s len=%d)" % (
            self.version, "resp" if self.response else "req", self.flags, self.stream,
            OPNAMES.get(self.opcode, self.opcode), len(self.body))


def parse_frames(data):
    """Parse a byte string holding zero or more complete frames; returns (frames, leftover bytes)."""
    out = []
    p = 0
    n = len(data)
    while p < n:
        ver = data[p] & 0x7F
        hl = header_len(ver)
        if n - p < hl:
            break
        if ver >= 3:
            flags = data[p + 1]
            stream = (data[p + 2] << 8) | data[p + 3]
            if stream & 0x8000:
                stream -= 1 << 16
            op = data[p + 4]
            blen = Reader(data, p + 5).int()
        else:
            flags = data[p + 1]
            stream = data[p + 2]
            if stream & 0x80:
                stream -= 256
            op = data[p + 3]
            blen = Reader(data, p + 4).int()
        if n - p < hl + blen:
            break
        out.append(Frame(ver, bool(data[p] & 0x80), flags, stream, op, bytes(data[p + hl:p + hl + blen])))
        p += hl + blen
    return out, bytes(data[p:])


# ------------------------------------------------------------------ v5 segments (own CRCs)
MAX_PAYLOAD = 131071
_CRC24_INIT = 0x875060
_CRC24_POLY = 0x1974F0B


def crc24(data):
    crc = _CRC24_INIT
    for b in data:
        crc ^= b << 16
        for _ in range(8):
            crc <<= 1
            if crc & 0x1000000:
                crc ^= _CRC24_POLY
    return crc & 0xFFFFFF


_CRC32_TABLE = []
for _i in range(256):
    _c = _i
    for _ in range(8):
        _c = (_c >> 1) ^ 0xEDB88320 if _c & 1 else _c >> 1
    _CRC32_TABLE.append(_c)
_CRC32_INITIAL = bytes([0xFA, 0x2D, 0x55, 0xCA])


def crc32(data, seed=b""):
    c = 0xFFFFFFFF
    for b in seed + bytes(data):
        c = _CRC32_TABLE[(c ^ b) & 0xFF] ^ (c >> 8)
    return c ^ 0xFFFFFFFF


def payload_crc(payload):
    return crc32(payload, _CRC32_INITIAL)


def le(v, n):
    return bytes((v >> (8 * i)) & 0xFF for i in range(n))


def from_le(b):
    v = 0
    for i, x in enumerate(b):
        v |= x << (8 * i)
    return v


def encode_segment(payload, self_contained, compression=False, uncompressed_len=0):
    """One segment. With compression negotiated the header is 5 bytes (17 bit compressed length,
    17 bit uncompressed length, self-contained flag); uncompressed_len = 0 means 'payload not compressed'."""
    n = len(payload)
    assert n <= MAX_PAYLOAD
    if compression:
        h = n | (uncompressed_len << 17)
        if self_contained:
            h |= 1 << 34
        hb = le(h, 5)
    else:
        h = n
        if self_contained:
            h |= 1 << 17
        hb = le(h, 3)
    return hb + le(crc24(hb), 3) + bytes(payload) + le(payload_crc(payload), 4)


def encode_segments(frame_bytes, compression=False, compress=None, max_payload=MAX_PAYLOAD, choose_compress=None):
    """Cut one or more whole frames into segments as a server would: a frame that fits is self-contained,
    a larger one is split into non-self-contained segments. Returns list of segment byte strings."""
    segs = []
    data = bytes(frame_bytes)
    if len(data) <= max_payload:
        chunks = [(data, True)]
    else:
        chunks = [(data[i:i + max_payload], False) for i in range(0, len(data), max_payload)]
    for idx, (c, sc) in enumerate(chunks):
        if compression and compress is not None and (choose_compress is None or choose_compress(idx)):
            comp = compress(c)
            segs.append(encode_segment(comp, sc, True, len(c)))
        else:
            segs.append(encode_segment(c, sc, compression, 0))
    return segs


def decode_segments(data, compression=False, decompress=None):
    """Node side: split bytes sent by the driver into segment payloads. Returns (list of (payload, self_contained)), rest)."""
    out = []
    p = 0
    hl = 5 if compression else 3
    while len(data) - p >= hl + 3:
        hb = data[p:p + hl]
        if crc24(hb) != from_le(data[p + hl:p + hl + 3]):
            raise ValueError("node: bad header crc")
        h = from_le(hb)
        if compression:
            n = h & 0x1FFFF
            un = (h >> 17) & 0x1FFFF
            sc = bool(h & (1 << 34))
        else:
            n = h & 0x1FFFF
            un = 0
            sc = bool(h & (1 << 17))
        if len(data) - p < hl + 3 + n + 4:
            break
        payload = data[p + hl + 3:p + hl + 3 + n]
        if payload_crc(payload) != from_le(data[p + hl + 3 + n:p + hl + 3 + n + 4]):
            raise ValueError("node: bad payload crc")
        if compression and un:
            payload = decompress(payload, un)
        out.append((payload, sc))
        p += hl + 3 + n + 4
    return out, data[p:]


# ------------------------------------------------------------------ response bodies
def body_ready():
    return b""


def body_supported(options):
    return w_stringmultimap(options)


def body_authenticate(cls="org.apache.cassandra.auth.PasswordAuthenticator"):
    return w_string(cls)


def body_auth_challenge(token=b"challenge"):
    return w_bytes(token)


def body_auth_success(token=None):
    return w_bytes(token)


ERR_SERVER, ERR_PROTOCOL, ERR_BAD_CREDENTIALS = 0x0000, 0x000A, 0x0100
ERR_UNAVAILABLE, ERR_OVERLOADED, ERR_BOOTSTRAPPING, ERR_TRUNCATE = 0x1000, 0x1001, 0x1002, 0x1003
ERR_WRITE_TIMEOUT, ERR_READ_TIMEOUT, ERR_READ_FAILURE, ERR_FUNCTION_FAILURE, ERR_WRITE_FAILURE = \
    0x1100, 0x1200, 0x1300, 0x1400, 0x1500
ERR_SYNTAX, ERR_UNAUTHORIZED, ERR_INVALID, ERR_CONFIG, ERR_ALREADY_EXISTS, ERR_UNPREPARED = \
    0x2000, 0x2100, 0x2200, 0x2300, 0x2400, 0x2500


def body_error(code, message="err", tail=b""):
    return w_int(code) + w_string(message) + tail


def tail_unavailable(cl, required, alive):
    return w_short(cl) + w_int(required) + w_int(alive)


def tail_write_timeout(cl, received, blockfor, write_type):
    return w_short(cl) + w_int(received) + w_int(blockfor) + w_string(write_type)


def tail_read_timeout(cl, received, blockfor, data_present):
    return w_short(cl) + w_int(received) + w_int(blockfor) + w_byte(1 if data_present else 0)


def tail_unprepared(qid):
    return w_shortbytes(qid)


RESULT_VOID, RESULT_ROWS, RESULT_SET_KEYSPACE, RESULT_PREPARED, RESULT_SCHEMA_CHANGE = 1, 2, 3, 4, 5

# type option ids
T_CUSTOM, T_ASCII, T_BIGINT, T_BLOB, T_BOOLEAN, T_COUNTER, T_DECIMAL, T_DOUBLE, T_FLOAT, T_INT, T_TEXT, \
    T_TIMESTAMP, T_UUID, T_VARCHAR, T_VARINT, T_TIMEUUID, T_INET = range(0x0000, 0x0011)
T_DATE, T_TIME, T_SMALLINT, T_TINYINT, T_DURATION = 0x0011, 0x0012, 0x0013, 0x0014, 0x0015
T_LIST, T_MAP, T_SET, T_UDT, T_TUPLE = 0x0020, 0x0021, 0x0022, 0x0030, 0x0031


def w_type(t):
    """t: int option id, or ('list', t) / ('set', t) / ('map', k, v) / ('tuple', [t..]) /
    ('udt', ks, name, [(fname, t)..]) / ('custom', classname)"""
    if isinstance(t, int):
        return w_short(t)
    k = t[0]
    if k == "list":
        return w_short(T_LIST) + w_type(t[1])
    if k == "set":
        return w_short(T_SET) + w_type(t[1])
    if k == "map":
        return w_short(T_MAP) + w_type(t[1]) + w_type(t[2])
    if k == "tuple":
        return w_short(T_TUPLE) + w_short(len(t[1])) + b"".join(w_type(x) for x in t[1])
    if k == "udt":
        return w_short(T_UDT) + w_string(t[1]) + w_string(t[2]) + w_short(len(t[3])) + \
            b"".join(w_string(n) + w_type(x) for n, x in t[3])
    if k == "custom":
        return w_short(T_CUSTOM) + w_string(t[1])
    raise ValueError(t)


def rows_metadata(columns, ks="ks", table="t", paging_state=None, global_spec=True, no_metadata=False,
                  new_metadata_id=None, cp_seq=None, cp_last=False):
    """columns: list of (name, type) or (ks, table, name, type)."""
    flags = 0
    if global_spec:
        flags |= 0x0001
    if paging_state is not None:
        flags |= 0x0002
    if no_metadata:
        flags |= 0x0004
    if new_metadata_id is not None:
        flags |= 0x0008
    if cp_seq is not None:                 # DSE continuous paging: sequence number, "last page" flag
        flags |= 0x40000000
        if cp_last:
            flags |= 0x80000000
    out = w_int(flags) + w_int(len(columns))
    if paging_state is not None:
        out += w_bytes(paging_state)
    if no_metadata:
        return out
    if cp_seq is not None:
        out += w_int(cp_seq)
    if new_metadata_id is not None:
        out += w_shortbytes(new_metadata_id)
    if global_spec:
        out += w_string(ks) + w_string(table)
    for c in columns:
        if len(c) == 2:
            name, t = c
            cks, ctab = ks, table
        else:
            cks, ctab, name, t = c
        if not global_spec:
            out += w_string(cks) + w_string(ctab)
        out += w_string(name) + w_type(t)
    return out


def body_rows(columns, rows, **kw):
    """rows: list of lists of bytes/None (already serialized cells)."""
    out = w_int(RESULT_ROWS) + rows_metadata(columns, **kw) + w_int(len(rows))
    for r in rows:
        for cell in r:
            out += w_bytes(cell)
    return out


def body_void():
    return w_int(RESULT_VOID)


def body_set_keyspace(ks):
    return w_int(RESULT_SET_KEYSPACE) + w_string(ks)


def body_prepared(qid, bind_columns, pk_indexes, result_columns, version, ks="ks", table="t", result_metadata_id=None):
    out = w_int(RESULT_PREPARED) + w_shortbytes(qid)
    if version >= 5 and result_metadata_id is not None:
        out += w_shortbytes(result_metadata_id)
    # bind metadata
    flags = 0x0001
    out += w_int(flags) + w_int(len(bind_columns))
    if version >= 4:
        out += w_int(len(pk_indexes)) + b"".join(w_short(i) for i in pk_indexes)
    out += w_string(ks) + w_string(table)
    for name, t in bind_columns:
        out += w_string(name) + w_type(t)
    if version >= 2:
        out += rows_metadata(result_columns, ks=ks, table=table)
    return out


def body_schema_change(version, change, target, ks, name=None, args=None):
    out = w_int(RESULT_SCHEMA_CHANGE)
    return out + schema_change_fields(version, change, target, ks, name, args)


def schema_change_fields(version, change, target, ks, name=None, args=None):
    if version >= 3:
        out = w_string(change) + w_string(target) + w_string(ks)
        if target != "KEYSPACE":
            out += w_string(name)
        if target in ("FUNCTION", "AGGREGATE"):
            out += w_stringlist(args or [])
        return out
    return w_string(change) + w_string(ks) + w_string(name or "")


def body_event_status(change, addr, port):
    return w_string("STATUS_CHANGE") + w_string(change) + w_inet(addr, port)


def body_event_topology(change, addr, port):
    return w_string("TOPOLOGY_CHANGE") + w_string(change) + w_inet(addr, port)


def body_event_schema(version, change, target, ks, name=None, args=None):
    return w_string("SCHEMA_CHANGE") + schema_change_fields(version, change, target, ks, name, args)


# ------------------------------------------------------------------ request bodies (node side decode)
def parse_query_params(r, version):
    """After the query string / id: <consistency><flags>[values][page_size][paging_state][serial][timestamp][keyspace]"""
    out = {"consistency": r.short()}
    if version >= 5:
        flags = r.uint()
    else:
        flags = r.byte()
    out["flags"] = flags
    if flags & 0x01:
        n = r.short()
        vals = []
        names = []
        for _ in range(n):
            if flags & 0x40:
                names.append(r.string())
            vals.append(r.bytes())
        out["values"] = vals
        if names:
            out["names"] = names
    out["skip_meta"] = bool(flags & 0x02)
    if flags & 0x04:
        out["page_size"] = r.int()
    if flags & 0x08:
        out["paging_state"] = r.bytes()
    if flags & 0x10:
        out["serial_consistency"] = r.short()
    if flags & 0x20:
        out["timestamp"] = r.long()
    if flags & 0x80 and version >= 5:
        out["keyspace"] = r.string()
    return out


def parse_request(frame):
    """Decode a request frame body into a dict (best effort for the kinds FakeNode needs)."""
    r = Reader(frame.body)
    v = frame.version
    op = frame.opcode
    d = {"op": OPNAMES.get(op, op), "stream": frame.stream, "version": v, "flags": frame.flags}
    if frame.flags & FLAG_PAYLOAD and v >= 4:
        d["custom_payload"] = r.bytesmap()
    if op == STARTUP:
        d["options"] = r.stringmap()
    elif op == OPTIONS:
        pass
    elif op == QUERY:
        d["query"] = r.longstring()
        d.update(parse_query_params(r, v) if v >= 2 else {"consistency": r.short()})
    elif op == PREPARE:
        d["query"] = r.longstring()
        if v >= 5:
            fl = r.uint()
            d["prepare_flags"] = fl
            if fl & 0x01:
                d["keyspace"] = r.string()
    elif op == EXECUTE:
        d["id"] = r.shortbytes()
        if v >= 5:
            d["result_metadata_id"] = r.shortbytes()
        if v >= 2:
            d.update(parse_query_params(r, v))
        else:
            n = r.short()
            d["values"] = [r.bytes() for _ in range(n)]
            d["consistency"] = r.short()
    elif op == REGISTER:
        d["events"] = r.stringlist()
    elif op == AUTH_RESPONSE:
        d["token"] = r.bytes()
    elif op == CREDENTIALS:
        d["creds"] = r.stringmap()
    elif op == BATCH:
        d["batch_type"] = r.byte()
        n = r.short()
        qs = []
        for _ in range(n):
            kind = r.byte()
            q = r.longstring() if kind == 0 else r.shortbytes()
            nv = r.short()
            qs.append((kind, q, [r.bytes() for _ in range(nv)]))
        d["queries"] = qs
        d["consistency"] = r.short()
        if v >= 3:
            fl = r.uint() if v >= 5 else r.byte()
            d["batch_flags"] = fl
            if fl & 0x10:
                d["serial_consistency"] = r.short()
            if fl & 0x20:
                d["timestamp"] = r.long()
            if fl & 0x80 and v >= 5:
                d["keyspace"] = r.string()
    d["_consumed_all"] = r.done()
    return d


# ------------------------------------------------------------------ cell encoders for system tables etc.
def c_text(s):
    return None if s is None else s.encode("utf-8")


def c_int(v):
    return None if v is None else w_int(v)


def c_uuid(u):
    return None if u is None else u.bytes


def c_inet(a):
    return None if a is None else bytes(int(x) for x in a.split("."))


def c_set_text(items, version=4):
    if items is None:
        return None
    out = w_int(len(items))
    for s in items:
        out += w_bytes(s.encode("utf-8"))
    return out
