"""Check context: tier/seed, scratch, evidence accumulation, violation / known-finding reporting."""
import json
import os
import random
import sys
import time

from . import tlc as tlcmod
from .tlaval import to_py

VERIF = tlcmod.VERIF
EVID_DIR = os.environ.get("VERIF_EVIDENCE_DIR") or os.path.join(VERIF, "evidence")
REPLAY_DIR = os.path.join(EVID_DIR, "replays")
KNOWN = os.path.join(VERIF, "known_findings.json")


def load_known():
    try:
        with open(KNOWN) as f:
            return json.load(f)
    except FileNotFoundError:
        return {"findings": [], "fixed": []}


class Ctx:
    def __init__(self, pid, tier, seed, scratch):
        self.pid = pid
        self.tier = tier
        self.quick = tier == "quick"
        self.seed = seed
        self.rng = random.Random(seed)
        self.scratch = scratch
        self.t0 = time.time()
        self.level = "model_checking"
        self.states = 0
        self.transitions = 0
        self.traces_validated = 0
        self.evaluations = 0
        self.samples = []
        self.extra = {}
        self.assumptions = []
        self.violations = 0
        self.known_hits = []
        self._nontrivial = set()
        self._known = [f for f in load_known().get("findings", []) if f.get("property") == pid]
        self.violation_lines = []

    # ---- evidence accumulation
    def add_tlc(self, res, label=None):
        self.states += res.distinct
        self.transitions += res.generated
        runs = self.extra.setdefault("tlc_runs", [])
        runs.append({"label": label, "distinct": res.distinct, "generated": res.generated,
                     "depth": res.depth, "wall_s": round(res.wall, 2)})

    def sample(self, obj, limit=5):
        if len(self.samples) < limit:
            self.samples.append(to_py(obj))

    def nontrivial(self, key):
        """Register one distinct non-trivial case (key must be hashable / repr-able)."""
        self._nontrivial.add(key if isinstance(key, (str, int, tuple)) else repr(key))

    def note(self, k, v):
        self.extra[k] = v

    def count(self, k, n=1):
        self.extra[k] = self.extra.get(k, 0) + n

    # ---- reporting
    def violation(self, what, replay=None, signature=None):
        """Report a property violation. `signature` identifies the failing input/schedule class; if it
        matches an entry of known_findings.json the violation is reported as KNOWN-FINDING instead."""
        for f in self._known:
            if signature is not None and signature == f.get("signature"):
                if signature not in self.known_hits:
                    self.known_hits.append(signature)
                    print("KNOWN-FINDING: property=%s %s" % (self.pid, f.get("what", signature)))
                return False
        self.violations += 1
        os.makedirs(REPLAY_DIR, exist_ok=True)
        path = os.path.join(REPLAY_DIR, "%s_%s_%d_%d.json" % (self.pid, self.tier, self.seed, self.violations))
        with open(path, "w") as f:
            json.dump({"property": self.pid, "what": what, "signature": signature, "seed": self.seed,
                       "tier": self.tier, "replay": to_py(replay)}, f, indent=1, default=repr)
        line = "VIOLATION property=%s replay=%s" % (self.pid, path)
        if self.violations <= 20:
            print(line)
            print("  " + str(what)[:2000])
        self.violation_lines.append(line)
        sys.stdout.flush()
        return True

    def write_evidence(self):
        cov = {
            "states": self.states,
            "transitions": self.transitions,
            "traces_validated_against_impl": self.traces_validated,
            "samples": self.samples[:8] or ["(no sample recorded)"],
            "evaluations": max(self.evaluations, self.traces_validated, 1),
            "distinct_nontrivial": len(self._nontrivial),
        }
        cov.update(self.extra)
        if self.known_hits:
            cov["known_findings_reported"] = self.known_hits
        ev = {
            "property_id": self.pid,
            "tier": self.tier,
            "seed": self.seed,
            "level": self.level,
            "coverage": cov,
            "assumptions": self.assumptions,
            "wall_s": round(time.time() - self.t0, 2),
            "violations": self.violations,
        }
        os.makedirs(EVID_DIR, exist_ok=True)
        path = os.path.join(EVID_DIR, "%s.json" % self.pid)
        tmp = path + ".tmp"
        with open(tmp, "w") as f:
            json.dump(ev, f, indent=1, default=repr)
        os.replace(tmp, path)
        return path
