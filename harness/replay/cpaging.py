"""Binding between spec/ContinuousPaging.tla and the real ContinuousPagingSession / Connection /
ResponseFuture / ResultSet.

One FakeNode, one simulated Cluster/Session speaking DSE_V2 (max_queue_size back-pressure) or DSE_V1
(MQS = 0: no ContinuousPagingState), one continuous-paging query.  The node side of the protocol (paging
window, REVISE_REQUEST handling, what it still sends after a cancel) is a small model kept here; its frames
wait in `wire` until the spec / the recorder delivers them (Connection.process_msg, loop thread, atomic).
The application is two DetSched logical threads: "C" iterates the ResultSet (yield points: our own "next"
before every next() call, "acq:cp" / "wait:cp" from the session's condition, which is replaced by a
DCondition over a re-entrant DRLock), "X" calls ResultSet.cancel_continuous_paging() (yield point "acq:cp"
between its two critical sections).  A logical thread is never left suspended while it owns the condition.
"""
import socket

import greenlet

from harness.sim.simcluster import SimWorld, FakeNode, make_cluster
from harness.sim.detsched import DetSched, DRLock, DCondition, yield_point
from harness import wire

import cassandra
from cassandra.connection import ConnectionShutdown, ConnectionBusy
from cassandra.protocol import ErrorMessage
from cassandra.policies import FallthroughRetryPolicy, RoundRobinPolicy, ConvictionPolicy
from cassandra.cluster import ExecutionProfile, EXEC_PROFILE_DEFAULT, ContinuousPagingOptions
from cassandra.query import SimpleStatement

DSE_V1, DSE_V2 = 0x41, 0x42
E_SRV, E_CONN, E_SHUT, E_REFUSED, E_BUSY = -1, -2, -3, -4, -5
REVISE_CANCEL, REVISE_MORE = 1, 2


class NeverConvict(ConvictionPolicy):
    def add_failure(self, connection_exc):
        return False

    def reset(self):
        pass


def _row_factory(names, rows):
    h = CPHarness.current
    if h is not None:
        h.on_row_factory(names, rows)
    return [tuple(r) for r in rows]


def classify(exc):
    """Exception seen by the application / stored in the page queue -> the spec's error code."""
    if isinstance(exc, ConnectionShutdown):
        return E_SHUT
    if isinstance(exc, ConnectionBusy):
        return E_BUSY
    if isinstance(exc, cassandra.InvalidRequest):
        return E_REFUSED
    if isinstance(exc, ErrorMessage):
        return E_SRV
    if isinstance(exc, (socket.error, OSError)):
        return E_CONN
    return "exc:%s" % type(exc).__name__


class CPHarness:
    VARS = ("nsent", "nstate", "window", "wire", "out", "defunct", "closed", "writable", "sess", "idback", "hmore", "hcancel",
            "queue", "stop", "released", "requested", "received", "cons", "notified", "cur", "got", "raisedWith", "xst", "cmsgs")
    current = None

    def __init__(self, consts):
        self.c = consts
        self.mqs = consts["MQS"]
        self.max_pages = consts["MaxPages"]
        self.nrows = consts["NRows"]
        self.empty = set(consts.get("EmptyPages", ()))
        CPHarness.current = self
        version = DSE_V2 if self.mqs else DSE_V1
        self.world = SimWorld()
        self.node = self.world.add_node(FakeNode("10.0.0.1", versions=(3, 4, DSE_V1, DSE_V2)))
        profile = ExecutionProfile(load_balancing_policy=RoundRobinPolicy(), retry_policy=FallthroughRetryPolicy(),
                                   request_timeout=10.0)
        cp_profile = ExecutionProfile(load_balancing_policy=RoundRobinPolicy(), retry_policy=FallthroughRetryPolicy(),
                                      request_timeout=10.0, row_factory=_row_factory,
                                      continuous_paging_options=ContinuousPagingOptions(max_queue_size=self.mqs or 4))
        self.cluster = make_cluster(self.world, ["10.0.0.1"], protocol_version=version,
                                    execution_profiles={EXEC_PROFILE_DEFAULT: profile, "cp": cp_profile},
                                    conviction_policy_factory=NeverConvict)
        self.session = self.cluster.connect()
        self.cluster.executor.inline = False
        self.sched = DetSched()
        self.future = self.session.execute_async(SimpleStatement("SELECT 1"), execution_profile="cp")
        qs = [p for p in self.node.pending if p.req.get("op") == "QUERY"]
        assert len(qs) == 1, self.node.pending
        self.qp = qs[0]
        self.conn = self.qp.conn
        self.sid = self.qp.frame.stream
        self.version = self.qp.frame.version
        # the node's side of the paging protocol
        self.nsent, self.nstate, self.window = 0, "active", self.mqs
        self.wire = []                   # (spec message, stream, opcode, body)
        # application side
        self.sess = None
        self.cond = None
        self.cthread = None
        self.xthread = None
        self.got = []
        self.cur_page = 0
        self.outcome = None
        self.raised = None
        self.after = None
        self.xresult = None
        self.xsent_before = 0

    # ------------------------------------------------------------ the node
    def rows_of(self, k):
        return 0 if k in self.empty else self.nrows

    def _cancel_frames(self):
        n = 0
        for sim_id, req in self.node.received:
            if sim_id == self.conn.sim_id and req.get("op") == "REVISE_REQUEST":
                n += 1 if self._revise_of_req(req)[0] == REVISE_CANCEL else 0
        return n

    def _revise_of_req(self, req):
        return req.get("_revise") or (None, None, None)

    @staticmethod
    def parse_revise(body):
        r = wire.Reader(body)
        typ, op_id = r.int(), r.int()
        n = r.int() if typ == REVISE_MORE else 0
        return typ, op_id, n

    def _revise_pending(self):
        out = []
        for p in self.node.pending:
            if p.conn is self.conn and p.req.get("op") == "REVISE_REQUEST":
                if "_revise" not in p.req:
                    try:
                        p.req["_revise"] = self.parse_revise(p.frame.body)
                    except Exception:
                        p.req["_revise"] = (-1, -1, -1)
                out.append(p)
        return out

    def node_can_send(self):
        return self.nstate == "active" and self.nsent < self.max_pages and (self.mqs == 0 or self.nsent < self.window)

    def act_NodeSendPage(self, k, last):
        assert self.node_can_send() and not self.dead(), "node may not send a page"
        assert k == self.nsent + 1, (k, self.nsent)
        last = bool(last)
        n = self.rows_of(k)
        body = wire.body_rows([("p%d" % k, wire.T_INT)], [[wire.w_int(k * 10 + j)] for j in range(1, n + 1)],
                              cp_seq=k, cp_last=last)
        self.wire.append(({"t": "page", "k": k, "last": last}, self.sid, wire.RESULT, body))
        self.nsent = k
        if last:
            self.nstate = "finished"
            self.node.take(self.qp)

    def act_NodeSendError(self, a=0, b=0):
        assert self.nstate == "active" and self.nsent >= 1 and not self.dead()
        self.wire.append(({"t": "err", "k": 0, "last": False}, self.sid, wire.ERROR, wire.body_error(wire.ERR_SERVER, "stream failed")))
        self.nstate = "finished"
        self.node.take(self.qp)

    def act_NodeRecv(self, order, b=0):
        pend = self._revise_pending()
        assert pend and not self.dead(), "the node has no REVISE_REQUEST to read"
        p = pend[0]
        typ, op_id, n = p.req["_revise"]
        self.node.take(p)
        st = p.frame.stream
        ok = (st, wire.RESULT, wire.body_void())
        if typ == REVISE_MORE:
            assert order == 0
            if self.nstate == "active":
                self.window += n
                self.wire.append(({"t": "moreok", "k": 0, "last": False},) + ok)
            elif self.c.get("RefuseLate"):
                self.wire.append(({"t": "moreerr", "k": 0, "last": False}, st, wire.ERROR,
                                  wire.body_error(wire.ERR_INVALID, "no such paging session")))
            else:
                self.wire.append(({"t": "moreok", "k": 0, "last": False},) + ok)
        else:
            ack = ({"t": "cancelok", "k": 0, "last": False},) + ok
            if self.nstate == "active":
                self.nstate = "cancelled"
                self.node.take(self.qp)
                if self.c.get("CancelTerminal"):
                    term = ({"t": "err", "k": 0, "last": False}, self.sid, wire.ERROR,
                            wire.body_error(wire.ERR_SERVER, "paging session cancelled"))
                    self.wire += [term, ack] if order == 1 else [ack, term]
                else:
                    assert order == 0
                    self.wire.append(ack)
            else:
                assert order == 0
                self.wire.append(ack)

    # ------------------------------------------------------------ the loop thread
    def dead(self):
        return bool(self.conn.is_closed or self.conn.is_defunct)

    def act_Deliver(self, a=0, b=0):
        assert self.wire and not self.dead(), "nothing to deliver"
        m, stream, opcode, body = self.wire.pop(0)
        self.node.send(self.conn, self.version, stream, opcode, body)
        if self.sess is None and self.future._continuous_paging_session is not None:
            self._session_created()

    def _session_created(self):
        self.sess = self.future._continuous_paging_session
        self.cond = DCondition(lock=DRLock("cp"), name="cp")
        self.sess._condition = self.cond
        self.cthread = self.sched.spawn("C", self._consumer)
        lab = self.sched.step("C")
        assert lab == "next", lab

    def act_SocketError(self, a=0, b=0):
        self.conn.socket_error()
        self.wire = []

    def act_Close(self, a=0, b=0):
        self.conn.close()
        self.wire = []

    def act_SocketBusy(self, a=0, b=0):
        self.conn._socket_writable = False

    def act_SocketWritable(self, a=0, b=0):
        self.conn._socket_writable = True

    # ------------------------------------------------------------ the application threads
    def on_row_factory(self, names, rows):
        try:
            self.cur_page = int(names[0][1:])
        except Exception:
            self.cur_page = -1

    def _consumer(self):
        rs = self.future.result()
        it = iter(rs)
        self.resultset = rs
        while True:
            yield_point("next")
            try:
                row = next(it)
            except StopIteration:
                self.outcome = "ended"
                break
            except Exception as e:          # noqa
                self.outcome = "raised"
                self.raised = e
                break
            v = row[0]
            self.got.append((v // 10, v % 10))
        # a finished iteration stays finished
        try:
            next(it)
            self.after = "row"
        except StopIteration:
            self.after = "stop"
        except Exception as e:              # noqa
            self.after = "exc:%s" % type(e).__name__

    def _canceller(self):
        try:
            self.resultset_for_cancel().cancel_continuous_paging()
            self.xresult = "done"
        except ConnectionBusy:
            self.xresult = "failed"
        except Exception as e:              # noqa
            self.xresult = "exc:%s" % type(e).__name__

    def resultset_for_cancel(self):
        return getattr(self, "resultset", None) or self.future.result()

    def _run(self, t):
        """Run logical thread t to its next stop: a yield point reached while it does not own the condition."""
        stops = ("next", "wait:cp", "acq:cp")
        n = 0
        while True:
            lab = self.sched.step(t.name)
            n += 1
            if t.done:
                return "end"
            if self.cond.lock.owner is t:
                if lab == "wait:cp":
                    raise AssertionError("waiting while owning the condition")
                if n > 1000:
                    raise AssertionError("thread %s does not leave its critical section" % t.name)
                continue
            if lab in stops:
                return lab
            if n > 1000:
                raise AssertionError("thread %s does not reach a stop" % t.name)

    def _consumer_at(self):
        t = self.cthread
        if t is None:
            return None
        return "end" if t.done else t.at

    def act_Row(self, a=0, b=0):
        assert self._consumer_at() == "next", "consumer is not between two next() calls"
        self._run(self.cthread)

    act_Call = act_Row

    def act_Enter(self, a=0, b=0):
        assert self._consumer_at() == "acq:cp", "consumer is not about to acquire the condition"
        self._run(self.cthread)

    def act_Wake(self, by_timeout, b=0):
        assert self._consumer_at() == "wait:cp", "consumer is not waiting"
        t = self.cthread
        if by_timeout:
            assert t not in self.cond.notified, "consumer was notified"
            self.cond.timeout(t)
        else:
            assert t in self.cond.notified, "consumer was not notified"
        self._run(t)

    def act_CancelSend(self, a=0, b=0):
        assert self.sess is not None and self.xthread is None
        self.xsent_before = self._cancel_frames()
        self.xthread = self.sched.spawn("X", self._canceller)
        self._run(self.xthread)

    def act_CancelStop(self, a=0, b=0):
        t = self.xthread
        assert t is not None and not t.done and t.at == "acq:cp", "cancel() is not between its two critical sections"
        self._run(t)
        assert t.done, "cancel() did not finish"

    def do(self, act):
        getattr(self, "act_" + act["name"])(act.get("a", 0), act.get("b", 0))

    # ------------------------------------------------------------ projection
    def _queue_entry(self, item):
        try:
            names, rows, err = item
        except Exception:
            return "bad-entry"
        if err is not None:
            return classify(err)
        try:
            return int(names[0][1:])
        except Exception:
            return "bad-page"

    def project(self):
        c = self.conn
        sess = self.future._continuous_paging_session
        state = sess._state if sess is not None else self.future._continuous_paging_state
        hmore = hcancel = 0
        for cb, _, _ in list(c._requests.values()):
            name = getattr(cb, "__name__", "")
            if name == "_on_backpressure_response":
                hmore += 1
            elif name == "_on_cancel_response":
                hcancel += 1
        out = []
        for p in self._revise_pending():
            typ, op_id, n = p.req["_revise"]
            kind = {REVISE_MORE: "more", REVISE_CANCEL: "cancel"}.get(typ, "type%s" % typ)
            if op_id != self.sid:
                kind += "@%s" % op_id
            out.append({"t": kind, "n": n})
        at = self._consumer_at()
        if at is None or at == "next":
            cons = "next"
        elif at == "acq:cp":
            cons = "acq"
        elif at == "wait:cp":
            cons = "waiting"
        elif at == "end":
            cons = self.outcome if self.after == "stop" else "%s+%s" % (self.outcome, self.after)
        else:
            cons = "at:%s" % at
        x = self.xthread
        if x is None:
            xst = "idle"
        elif x.done:
            xst = self.xresult
        elif x.at == "acq:cp":
            xst = "sent" if self._cancel_frames() > self.xsent_before else "unsent"
        else:
            xst = "at:%s" % x.at
        cur_r = sum(1 for (p, r) in self.got if p == self.cur_page)
        return {
            "nsent": self.nsent, "nstate": self.nstate, "window": self.window,
            "wire": [dict(m[0]) for m in self.wire], "out": out,
            "defunct": bool(c.is_defunct), "closed": bool(c.is_closed), "writable": bool(c._socket_writable),
            "sess": "none" if sess is None else ("open" if c._continuous_paging_sessions.get(self.sid) is sess else "removed"),
            "idback": list(c.request_ids).count(self.sid),
            "hmore": hmore, "hcancel": hcancel,
            "queue": [self._queue_entry(it) for it in reversed(sess._page_queue)] if sess is not None else [],
            "stop": bool(sess._stop) if sess is not None else False,
            "released": bool(sess.released) if sess is not None else False,
            "requested": state.num_pages_requested if state is not None else 0,
            "received": state.num_pages_received if state is not None else 0,
            "cons": cons,
            "notified": bool(self.cthread is not None and self.cond is not None and self.cthread in self.cond.notified),
            "cur": {"p": self.cur_page, "r": cur_r},
            "got": [list(g) for g in self.got],
            "raisedWith": classify(self.raised) if self.raised is not None else 0,
            "xst": xst, "cmsgs": self._cancel_frames(),
        }

    def shutdown(self):
        for t in (self.cthread, self.xthread):
            if t is not None and not t.done:
                try:
                    t.g.throw(greenlet.GreenletExit)
                except BaseException:       # noqa
                    pass
        try:
            self.cluster.shutdown()
        except Exception:
            pass
        if CPHarness.current is self:
            CPHarness.current = None


# the FakeNode records decoded requests in node.received; REVISE_REQUEST bodies are not decoded by harness/wire.py,
# so the frames are decoded here when they arrive (wrapping on_frame keeps harness/sim untouched)
def _install_revise_decoder():
    if getattr(FakeNode, "_xcpage_revise", False):
        return
    orig = FakeNode.on_frame

    def on_frame(self, conn, f):
        orig(self, conn, f)
        if f.opcode == wire.REVISE_REQUEST and self.received:
            req = self.received[-1][1]
            if "_revise" not in req:
                try:
                    req["_revise"] = CPHarness.parse_revise(f.body)
                except Exception:
                    req["_revise"] = (-1, -1, -1)
    FakeNode.on_frame = on_frame
    FakeNode._xcpage_revise = True


_install_revise_decoder()


def spec_view(state):
    """Spec state -> the same shape as CPHarness.project()."""
    v = {}
    for k in CPHarness.VARS:
        x = state[k]
        if k in ("wire", "out"):
            x = [dict(m) for m in x]
        elif k == "queue":
            x = list(x)
        elif k == "got":
            x = [list(g) for g in x]
        elif k == "cur":
            x = dict(x)
        v[k] = x
    return v


def diff(spec, real):
    out = {}
    for k in CPHarness.VARS:
        if spec[k] != real[k]:
            out[k] = {"spec": spec[k], "code": real[k]}
    return out


def replay(constants, states):
    """Replay one behaviour (list of spec states, first = Init). Returns None or a divergence dict."""
    h = CPHarness(constants)
    try:
        d = diff(spec_view(states[0]), h.project())
        if d:
            return {"step": 0, "action": "Init", "diff": d}
        for i, s in enumerate(states[1:], 1):
            act = dict(s["act"])
            try:
                h.do(act)
            except AssertionError as ex:
                return {"step": i, "action": act, "diff": {"_refused": {"spec": "enabled", "code": "harness could not perform: %s" % ex}}}
            except Exception as ex:          # the code under test left the envelope
                return {"step": i, "action": act, "diff": {"_crash": {"spec": "enabled", "code": "%s: %s" % (type(ex).__name__, ex)}}}
            d = diff(spec_view(s), h.project())
            if d:
                return {"step": i, "action": act, "diff": d}
        return None
    finally:
        h.shutdown()


def replay_actions(constants, actions, verbose=False):
    """Re-execute a list of action records on a fresh harness; returns the list of projections."""
    h = CPHarness(constants)
    outp = []
    try:
        for a in actions:
            h.do(a)
            p = h.project()
            outp.append(p)
            if verbose:
                print("->", a)
                print("   ", p)
        return outp
    finally:
        h.shutdown()


# ---------------------------------------------------------------------- recording (code -> spec)
_CONS = {"next", "acq", "waiting", "ended", "raised"}
_XST = {"idle", "sent", "unsent", "failed", "done"}


def nonconforming(p):
    """Fields of a projection whose values lie outside the specification's vocabulary (TLC cannot compare them)."""
    bad = {}
    if not all(isinstance(x, int) for x in p["queue"]):
        bad["queue"] = p["queue"]
    if not isinstance(p["raisedWith"], int):
        bad["raisedWith"] = p["raisedWith"]
    if p["cons"] not in _CONS:
        bad["cons"] = p["cons"]
    if p["xst"] not in _XST:
        bad["xst"] = p["xst"]
    if not all(m["t"] in ("more", "cancel") for m in p["out"]):
        bad["out"] = p["out"]
    for k in ("requested", "received", "idback", "hmore", "hcancel", "cmsgs"):
        if not isinstance(p[k], int) or isinstance(p[k], bool):
            bad[k] = p[k]
    return bad


def record(constants, rng, max_events=60, p_fault=0.03, p_cancel=0.05, p_node_error=0.04):
    """Drive the real objects with random enabled operations; return the list of events
    {"e": action, "a": .., "b": .., "post": projection}."""
    h = CPHarness(constants)
    events = []
    faults = sorted(constants.get("Faults", ()))
    try:
        while len(events) < max_events:
            dead = h.dead()
            ops = []
            if not dead:
                if h.node_can_send():
                    if h.nsent + 1 < h.max_pages:
                        ops += [("NodeSendPage", h.nsent + 1, 0)] * 3
                    ops += [("NodeSendPage", h.nsent + 1, 1)] * (3 if h.nsent + 1 == h.max_pages else 1)
                if constants.get("NodeErrors") and h.nstate == "active" and h.nsent >= 1 and rng.random() < p_node_error:
                    ops.append(("NodeSendError", 0, 0))
                pend = h._revise_pending()
                if pend:
                    typ = pend[0].req["_revise"][0]
                    both = typ == REVISE_CANCEL and h.nstate == "active" and constants.get("CancelTerminal")
                    ops += [("NodeRecv", rng.choice([0, 1]) if both else 0, 0)] * 2
                if h.wire:
                    ops += [("Deliver", 0, 0)] * 3
                if constants.get("Busy") and rng.random() < (0.03 if h.conn._socket_writable else 0.3):
                    ops.append(("SocketWritable" if not h.conn._socket_writable else "SocketBusy", 0, 0))
            at = h._consumer_at()
            if at == "next":
                remaining = h.cur_page > 0 and sum(1 for (p, r) in h.got if p == h.cur_page) < h.rows_of(h.cur_page)
                ops += [("Row" if remaining else "Call", 0, 0)] * 3
            elif at == "acq:cp":
                ops += [("Enter", 0, 0)] * 3
            elif at == "wait:cp":
                if h.cthread in h.cond.notified:
                    ops += [("Wake", 0, 0)] * 3
                elif constants.get("Timeouts"):
                    ops.append(("Wake", 1, 0))
            if h.sess is not None and constants.get("Cancels") and h.xthread is None and rng.random() < p_cancel:
                ops.append(("CancelSend", 0, 0))
            if h.xthread is not None and not h.xthread.done:
                ops += [("CancelStop", 0, 0)] * 2
            if not dead and faults and rng.random() < p_fault:
                ops = [(rng.choice(faults), 0, 0)]
            if not ops:
                break
            name, a, b = rng.choice(ops)
            ev = {"e": name, "a": a, "b": b}
            try:
                h.do({"name": name, "a": a, "b": b})
                ev["post"] = h.project()
                bad = nonconforming(ev["post"])
                if bad:                      # values outside the spec's vocabulary: not comparable by TLC, rejected as such
                    events.append({"e": "Anomaly", "during": {"e": name, "a": a, "b": b}, "what": "projection outside the model: %s" % bad})
                    break
            except Exception as ex:          # the real objects left the envelope the harness can drive
                events.append({"e": "Anomaly", "during": dict(ev), "what": "%s: %s" % (type(ex).__name__, ex)})
                break
            events.append(ev)
        return events
    finally:
        h.shutdown()
