"""Binding between spec/Request.tla and the real Session / HostConnection / ResponseFuture.

A real Session over a simulated cluster of NHosts FakeNodes (protocol v4, one HostConnection pool per
host), a load-balancing policy returning the fixed host order 1..NHosts, a ScriptedRetryPolicy whose
answers come from the behaviour being replayed (and which records every consultation), the shipped
ConstantSpeculativeExecutionPolicy, a SimpleStatement with the behaviour's is_idempotent flag.  Pool
conditions are produced on the real pool objects.  Retry tasks wait in cluster.executor.queue
(inline=False), timers in world.timers; answers are frames written by harness/wire.py.

Spec -> code: replay() performs each action of a behaviour and compares project() with the spec state.
Code -> spec: record() drives the real objects with random enabled operations and logs action, arguments
and projected post-state for Trace_Request.tla.
"""
from harness.sim import simcluster                      # noqa: F401  (installs the reactor shim)
from harness.sim.simcluster import SimWorld, FakeNode, make_cluster
from harness.sim.simconn import SimCondition
from harness import wire

import cassandra
import cassandra.cluster as ccluster
from cassandra.cluster import ExecutionProfile, EXEC_PROFILE_DEFAULT
from cassandra.policies import (LoadBalancingPolicy, HostDistance, RetryPolicy, ConvictionPolicy,
                                ConstantSpeculativeExecutionPolicy)
from cassandra.query import SimpleStatement

TIMEOUT = 1000.0          # request_timeout (virtual seconds): far beyond anything the actions themselves consume
SPEC_DELAY = 1.0          # ConstantSpeculativeExecutionPolicy delay
INIT_CL = 10              # LOCAL_ONE, ExecutionProfile default
NO_CL = 99                # the scripted policy returns None as consistency (0 is ConsistencyLevel.ANY)
SLACK = 0.031             # _on_timeout's documented 3 x 10 ms re-arm (DESIGN 13, C15)
BORROW_WAIT = 2.0         # _query: pool.borrow_connection(timeout=2.0) blocks that long on a busy connection

ERR_WIRE = {
    "ReadTimeout": (wire.ERR_READ_TIMEOUT, lambda: wire.tail_read_timeout(1, 0, 1, False)),
    "WriteTimeout": (wire.ERR_WRITE_TIMEOUT, lambda: wire.tail_write_timeout(1, 0, 1, "SIMPLE")),
    "Unavailable": (wire.ERR_UNAVAILABLE, lambda: wire.tail_unavailable(1, 2, 1)),
    "OverloadedErrorMessage": (wire.ERR_OVERLOADED, lambda: b""),
    "IsBootstrappingErrorMessage": (wire.ERR_BOOTSTRAPPING, lambda: b""),
    "ServerError": (wire.ERR_SERVER, lambda: b""),
    "SyntaxException": (wire.ERR_SYNTAX, lambda: b""),
    "InvalidRequest": (wire.ERR_INVALID, lambda: b""),
}
DEC = {"RETRY": RetryPolicy.RETRY, "NEXT": RetryPolicy.RETRY_NEXT_HOST, "RETHROW": RetryPolicy.RETHROW,
       "IGNORE": RetryPolicy.IGNORE}

# which property a projected field speaks about
FIELD_OWNER = {
    "cb": "C14", "eb": "C14", "dlv": "C14", "final": "C14", "result": "C14", "refq": "C14",
    "timer": "C15", "deadline": "C15", "now": "C15", "due": "C15", "rechecks": "C15",
    "policyLog": "C16", "sentLog": "C16", "retries": "C16", "cl": "C16", "queue": "C16", "specLeft": "C16",
    "tried": "C17", "errs": "C17", "plan": "C17", "pool": "C17", "nhaErrors": "C17", "lastConn": "C17",
    "att": None, "epoch": None, "paging": None,
}
GROUPS = {
    "C14": ["cb", "eb", "dlv", "final", "result", "refq"],
    "C15": ["timer", "now", "due"],
    "C16": ["policyLog", "sentLog", "retries", "cl", "queue", "specLeft"],
    "C17": ["tried", "errs", "plan", "pool", "nhaErrors", "lastConn"],
    "rest": ["att", "epoch", "paging"],
}


class FixedOrderPolicy(LoadBalancingPolicy):
    """Query plan = the hosts in the given address order (a fresh list per call)."""

    def __init__(self, order):
        self.order = list(order)
        self.by_addr = {}

    def populate(self, cluster, hosts):
        for h in hosts:
            self.by_addr[h.endpoint.address] = h

    def distance(self, host):
        return HostDistance.LOCAL

    def make_query_plan(self, working_keyspace=None, query=None):
        return [self.by_addr[a] for a in self.order if a in self.by_addr]

    def on_up(self, host):
        self.by_addr[host.endpoint.address] = host

    def on_add(self, host):
        self.by_addr[host.endpoint.address] = host

    def on_down(self, host):
        pass

    def on_remove(self, host):
        pass


class NeverConvict(ConvictionPolicy):
    def add_failure(self, connection_exc):
        return False

    def reset(self):
        pass


class ScriptedRetryPolicy(RetryPolicy):
    """The decision oracle: answers with the decision the schedule put in `script`, logs every call."""

    def __init__(self):
        self.script = None            # (decision name, consistency level or NO_CL)
        self.calls = []               # [kind, retry_num, decision, cl]
        self.live = []                # was the future incomplete when consulted
        self.future = None

    def _decide(self, kind, retry_num):
        if self.script is None:
            d, c = "RETHROW", NO_CL
            self.calls.append([kind, retry_num, "UNSCRIPTED", NO_CL])
        else:
            d, c = self.script
            self.script = None
            self.calls.append([kind, retry_num, d, c])
        f = self.future
        self.live.append(bool(f is not None and not f._event.is_set()))
        return DEC[d], (None if c == NO_CL else c)       # 0 is ConsistencyLevel.ANY, a level like any other

    def on_read_timeout(self, query, consistency, required_responses, received_responses, data_retrieved, retry_num):
        return self._decide("ReadTimeout", retry_num)

    def on_write_timeout(self, query, consistency, write_type, required_responses, received_responses, retry_num):
        return self._decide("WriteTimeout", retry_num)

    def on_unavailable(self, query, consistency, required_replicas, alive_replicas, retry_num):
        return self._decide("Unavailable", retry_num)

    def on_request_error(self, query, consistency, error, retry_num):
        return self._decide(type(error).__name__, retry_num)


class HarnessRefusal(Exception):
    """The real objects are not in a state in which the harness can perform the requested action."""


def _on_block(obj, timeout):
    # a blocking wait inside the driver: let virtual time pass (a hair more than asked, so that loops of the form
    # `remaining = timeout - (now - start); if remaining < 0: break` terminate as they do under real time)
    if isinstance(obj, SimCondition):
        SimWorld.current.clock.advance(max(timeout or 0.0, 0.0) + 1e-6)


class ReqHarness:
    VARS = ("pool", "plan", "tried", "errs", "att", "sentLog", "policyLog", "retries", "cl", "specLeft", "timer",
            "final", "result", "paging", "cb", "eb", "dlv", "queue", "epoch", "lastConn", "nhaErrors", "now", "due", "rechecks", "refq")

    def __init__(self, nhosts, pool, idem, spec, target, max_epoch=2, ids="default", tm=(0, 0), prep="none"):
        self.n = nhosts
        self.prep = str(prep)             # "none": SimpleStatement; "yes"/"no": BoundStatement of a PreparedStatement flagged so
        self.ids = str(ids)
        # (request timeout, speculative delay) in virtual seconds; (0, 0) = untimed (a timeout far beyond everything)
        self.timed = tm[0] > 0
        self.timeout = float(tm[0]) if self.timed else TIMEOUT
        self.delay = float(tm[1]) if self.timed else SPEC_DELAY
        self.interleave = 0               # how many queued _retry_task run right after the next submit of one
        self.max_epoch = max_epoch
        self.idem, self.spec, self.target = bool(idem), int(spec), int(target)
        self.world = SimWorld()
        self.world.on_block = _on_block
        self.addrs = ["10.0.0.%d" % i for i in range(1, nhosts + 1)]
        self.nodes = [self.world.add_node(FakeNode(a, tokens=["%02x" % (16 * i)])) for i, a in enumerate(self.addrs)]
        self.retry = ScriptedRetryPolicy()
        profile = ExecutionProfile(load_balancing_policy=FixedOrderPolicy(self.addrs), retry_policy=self.retry,
                                   request_timeout=self.timeout,
                                   speculative_execution_policy=ConstantSpeculativeExecutionPolicy(self.delay, self.spec))
        self.cluster = make_cluster(self.world, self.addrs[:1], execution_profiles={EXEC_PROFILE_DEFAULT: profile},
                                    conviction_policy_factory=NeverConvict, prepare_on_all_hosts=False)
        self.session = self.cluster.connect(wait_for_all_pools=True)
        self.prepared = None
        if self.prep != "none":
            # the real Session.prepare(), answered at once by the node; a statement without bind markers and without
            # result metadata (so that EXECUTE does not skip the metadata)
            def answer(node, p):
                if p.req.get("op") == "PREPARE":
                    node.respond(p, wire.RESULT, wire.body_prepared(b"\x01\x02", [], [], [], 4))
                else:
                    FakeNode.default_answer(node, p)
            for node in self.nodes:
                node.auto, node.auto_answer = True, answer
            self.prepared = self.session.prepare("SELECT v FROM ks.t")
            self.prepared.is_idempotent = (self.prep == "yes")
            for node in self.nodes:
                node.auto, node.auto_answer = False, None
                del node.pending[:]
        self.cluster.executor.inline = False
        self._tap_executor()
        self.hosts = {}
        for h in self.cluster.metadata.all_hosts():
            self.hosts[self.addrs.index(h.endpoint.address) + 1] = h
        if len(self.hosts) != nhosts or any(h not in self.session._pools for h in self.hosts.values()):
            raise RuntimeError("simulated cluster did not come up with %d pools" % nhosts)
        self.conns = {i: self.session._pools[h]._connection for i, h in self.hosts.items()}
        # stream-id space of the (idle) pool connections: as the handshake left it / starting again at 0 / one recycled id
        if self.ids != "default":
            from collections import deque
            k = 1 if self.ids == "one" else 300
            for c in self.conns.values():
                if c.in_flight != 0 or c._requests:
                    raise RuntimeError("pool connection is not idle")
                c.request_ids = deque(range(k))
                c.highest_request_id = k - 1
        self.sent = []                # Pending objects in global send order (attempt a = index + 1)
        for node in self.nodes:
            self._tap(node)
        self.fut = None
        self.epoch = 1
        self.cb = [0] * max_epoch
        self.eb = [0] * max_epoch
        self.dlv = ["none"] * max_epoch
        self.epoch_start = None
        self.busy_hosts = 0
        self.session.add_request_init_listener(self._register)
        for i in range(1, nhosts + 1):
            self._condition(i, pool[i - 1])

    # ------------------------------------------------------------ set-up
    def _tap(self, node):
        orig = node._queue

        def queue(conn, f, req):
            p = orig(conn, f, req)
            self.sent.append(p)
            return p
        node._queue = queue

    def _tap_executor(self):
        """The yield point right after session.submit(self._retry_task, ...): when the schedule says so, queued retry tasks
        (oldest first) run there, i.e. on the executor thread while the loop thread is still inside its callback."""
        ex = self.cluster.executor
        orig = ex.submit

        def submit(fn, *args, **kwargs):
            fut = orig(fn, *args, **kwargs)
            if getattr(fn, "__name__", "") == "_retry_task" and getattr(fn, "__self__", None) is self.fut:
                while self.interleave > 0:
                    self.interleave -= 1
                    ts = self._retry_tasks()
                    if not ts:
                        break
                    ex.run(ts[0])
            return fut
        ex.submit = submit

    def _condition(self, i, cond):
        host = self.hosts[i]
        pool = self.session._pools[host]
        conn = pool._connection
        if cond == "healthy":
            return
        if cond == "missing":
            del self.session._pools[host]
        elif cond == "shutdown":
            pool.shutdown()
        elif cond == "busy":
            conn.in_flight = conn.max_request_id
            self.busy_hosts += 1
        elif cond == "failing":
            conn.close()                    # the peer closed the socket; the pool has not noticed yet
        elif cond == "unwritable":
            conn._socket_writable = False   # the reactor reported a full send buffer: send_msg raises ConnectionBusy
        elif cond == "noconn":
            pool._connection = None
        else:
            raise ValueError(cond)

    def _register(self, future):
        self.fut = future
        self.retry.future = future
        future.add_callbacks(self._cb, self._eb)

    def _slot(self):
        return min(self.epoch, self.max_epoch) - 1

    def _cb(self, result):
        self.cb[self._slot()] += 1
        self.dlv[self._slot()] = "rows" if result else "empty"

    def _eb(self, exc):
        self.eb[self._slot()] += 1
        self.dlv[self._slot()] = type(exc).__name__

    # ------------------------------------------------------------ actions
    def do(self, act):
        name = act["name"]
        fn = getattr(self, "act_" + name, None)
        if fn is None:
            raise HarnessRefusal("unknown action %s" % name)
        fn(act)

    def act_Start(self, act):
        if self.prepared is not None:
            st = self.prepared.bind(())
            st.is_idempotent = self.idem        # the executed statement's own flag (may differ from the prepared one's)
        else:
            st = SimpleStatement("SELECT v FROM ks.t", is_idempotent=self.idem)
        self.epoch_start = self.world.clock.now
        kw = {}
        if self.target:
            kw["host"] = self.hosts[self.target]
        f = self.session.execute_async(st, **kw)
        if f is not self.fut:
            raise HarnessRefusal("request-init listener did not see the future")

    def _attempt(self, a):
        if not (1 <= a <= len(self.sent)):
            raise HarnessRefusal("attempt %s was never sent" % a)
        p = self.sent[a - 1]
        if a not in self._registered():
            raise HarnessRefusal("attempt %s is not registered on its connection any more" % a)
        return p

    def _node_of(self, p):
        return self.world.nodes[p.conn.endpoint.address]

    def act_AnsOk(self, act):
        p = self._attempt(act["a"])
        node = self._node_of(p)
        k = act["k"]
        if k == "void":
            node.respond_void(p)
        else:
            node.respond_rows(p, [("v", wire.T_INT)], [[wire.w_int(act["a"])]],
                              paging_state=(b"page2" if k == "more" else None))

    def act_AnsSchema(self, act):
        p = self._attempt(act["a"])
        self._node_of(p).respond(p, wire.RESULT, wire.body_schema_change(4, "CREATED", "TABLE", "ks", "t2"))

    def _refresh_tasks(self):
        return [t for t in self.cluster.executor.queue
                if t.label == "refresh_schema_and_set_result" and len(t.args) >= 3 and t.args[1] is self.fut]

    def act_RefreshTask(self, act):
        ts = self._refresh_tasks()
        if not ts:
            raise HarnessRefusal("no refresh_schema_and_set_result task queued")
        if act.get("k") == "raises" or act.get("ok") is False:
            ts[0].args[2].close()           # the answering connection dies while the driver polls for schema agreement
        self.cluster.executor.run(ts[0])
        exc = ts[0].future.exception()
        if exc is not None:
            raise exc

    def act_AnsErr(self, act):
        p = self._attempt(act["a"])
        self.retry.script = (act["d"], act["c"])
        self.interleave = int(act.get("_interleave", 0))
        k = act["k"]
        if k == "ConnectionShutdown":
            p.conn.socket_error()
        else:
            code, tail = ERR_WIRE[k]
            self._node_of(p).respond_error(p, code, "scripted " + k, tail())
        self.interleave = 0
        if self.retry.script is not None:
            self.retry.script = None
            # the policy was not consulted: visible in policyLog

    def act_AnsFatal(self, act):
        p = self._attempt(act["a"])
        code, tail = ERR_WIRE[act["k"]]
        self._node_of(p).respond_error(p, code, "scripted " + act["k"], tail())

    def _live_timer(self, kind):
        t = self.fut._timer if self.fut is not None else None
        if self._timer_kind(t) != kind:
            raise HarnessRefusal("no live %s timer (timer is %s)" % (kind, self._timer_kind(t)))
        return t

    def act_SpecFire(self, act):
        self.world.fire(self._live_timer("spec"), advance=True)

    def act_RecheckFire(self, act):
        self.world.fire(self._live_timer("recheck"), advance=True)

    def act_TimeoutFire(self, act):
        self.world.fire(self._live_timer("timeout"), advance=True)

    def _retry_tasks(self):
        out = []
        for t in self.cluster.executor.queue:
            if t.label == "_retry_task" and getattr(t.fn, "__self__", None) is self.fut:
                out.append(t)
        return out

    def act_RetryTask(self, act):
        ts = self._retry_tasks()
        if not ts:
            raise HarnessRefusal("no _retry_task queued")
        self.cluster.executor.run(ts[0])
        exc = ts[0].future.exception()
        if exc is not None:
            raise exc

    def act_StoreErr(self, act):
        pass                                # the loop-thread callback has run to its end inside act_AnsErr

    def act_StartNextPage(self, act):
        self.epoch += 1
        self.epoch_start = self.world.clock.now
        self.fut.start_fetching_next_page()

    # ------------------------------------------------------------ projection
    @staticmethod
    def _timer_kind(t):
        if t is None:
            return "none"
        if t.canceled or getattr(t, "_fired", False):
            return "stale"
        cbk = t.callback
        name = getattr(getattr(cbk, "func", cbk), "__name__", "?")
        if name == "_on_timeout" and (getattr(cbk, "keywords", None) or {}).get("_attempts"):
            return "recheck"            # PYTHON-853: partial(self._on_timeout, _attempts=n)
        return {"_on_speculative_execute": "spec", "_on_timeout": "timeout"}.get(name, "timer:" + name)

    def _host_idx(self, host):
        try:
            return self.addrs.index(host.endpoint.address) + 1
        except (ValueError, AttributeError):
            return -1

    def _registered(self):
        out = set()
        for i, p in enumerate(self.sent, 1):
            c = p.conn
            if c.is_closed or c.is_defunct:
                continue
            ent = c._requests.get(p.frame.stream)
            if ent is None:
                continue
            cbk = ent[0]
            owner = getattr(getattr(cbk, "func", None), "__self__", None)
            # the stream id may have been re-used by a later attempt on the same connection: the newest send wins
            later = [q for q in self.sent[i:] if q.conn is c and q.frame.stream == p.frame.stream]
            if owner is self.fut and not later:
                out.add(i)
        return out

    def _pool_cond(self, i):
        host = self.hosts[i]
        pool = self.session._pools.get(host)
        if pool is None:
            return "missing"
        if pool.is_shutdown:
            return "shutdown"
        conn = pool._connection
        if conn is None:
            return "noconn"
        if conn.is_closed or conn.is_defunct:
            return "failing"
        if conn.in_flight >= conn.max_request_id:
            return "busy"
        if not conn._socket_writable:
            return "unwritable"
        return "healthy"

    def _plan(self):
        f = self.fut
        if f is None:
            return ()
        qp = f.query_plan
        if isinstance(qp, (list, tuple)):
            return None                 # not an iterator: what remains is not observable (see act on re-iteration)
        try:
            red = qp.__reduce__()
            lst = red[1][0]
            idx = red[2] if len(red) > 2 else 0
            return tuple(self._host_idx(h) for h in list(lst)[idx:])
        except Exception:
            return None

    @staticmethod
    def _outcome_of(value_or_exc, is_exc):
        if is_exc:
            return type(value_or_exc).__name__
        return "rows" if value_or_exc else "empty"

    def project(self):
        f = self.fut
        n = self.n
        pool = tuple(self._pool_cond(i) for i in range(1, n + 1))
        if f is None:
            return {"pool": pool, "plan": (), "tried": (), "errs": tuple("none" for _ in range(n)), "att": frozenset(),
                    "sentLog": (), "policyLog": (), "retries": 0, "cl": INIT_CL, "specLeft": self.spec, "timer": "none",
                    "final": "unset", "result": "unset", "paging": False, "cb": tuple(self.cb), "eb": tuple(self.eb),
                    "dlv": tuple(self.dlv), "queue": (), "epoch": 1, "lastConn": 0, "nhaErrors": None, "now": 0, "due": 0, "rechecks": None, "refq": ()}
        has_res = f._final_result is not ccluster._NOT_SET
        has_exc = f._final_exception is not None
        if has_res and has_exc:
            final = "both:%s+%s" % (self._outcome_of(f._final_result, False), type(f._final_exception).__name__)
        elif has_exc:
            final = type(f._final_exception).__name__
        elif has_res:
            final = self._outcome_of(f._final_result, False)
        else:
            final = "unset"
        if f._event.is_set():
            try:
                r = f.result()
                result = "rows" if r.current_rows else "empty"
            except Exception as exc:        # noqa: BLE001 - whatever result() raises is the reported outcome
                result = type(exc).__name__
        else:
            result = "unset"
        errs = ["none"] * n
        for h, e in f._errors.items():
            i = self._host_idx(h)
            if i > 0:
                errs[i - 1] = type(e).__name__
        nha = None
        if isinstance(f._final_exception, ccluster.NoHostAvailable):
            m = f._final_exception.errors or {}
            nha = ["none"] * n
            for h, e in m.items():
                i = self._host_idx(h)
                if i > 0:
                    nha[i - 1] = type(e).__name__
            nha = tuple(nha)
        spec_left = getattr(f._spec_execution_plan, "remaining", 0)
        queue = tuple((bool(t.args[0]), self._host_idx(t.args[1])) for t in self._retry_tasks())
        return {
            "pool": pool,
            "plan": self._plan(),
            "tried": tuple(self._host_idx(h) for h in f.attempted_hosts),
            "errs": tuple(errs),
            "att": frozenset(self._registered()),
            "sentLog": tuple((self._host_idx_addr(p), p.req.get("consistency")) for p in self.sent),
            "policyLog": tuple(tuple(c) for c in self.retry.calls),
            "retries": f._query_retries,
            "cl": f.message.consistency_level,
            "specLeft": spec_left,
            "timer": self._timer_kind(f._timer),
            "final": final,
            "result": result,
            "paging": f._paging_state is not None,
            "cb": tuple(self.cb), "eb": tuple(self.eb), "dlv": tuple(self.dlv),
            "queue": queue,
            "epoch": self.epoch,
            "lastConn": self._conn_host(f._connection),
            "nhaErrors": nha,
            "refq": tuple(self._conn_host(t.args[2]) for t in self._refresh_tasks()),
            "rechecks": (getattr(f._timer.callback, "keywords", None) or {}).get("_attempts") if self._timer_kind(f._timer) == "recheck" else None,
            "now": self._t(self.world.clock.now - self.epoch_start) if self.timed else 0,
            "due": self._t(f._timer.end - self.epoch_start) if self.timed and self._timer_kind(f._timer) in ("spec", "timeout", "recheck") else 0,
        }

    @staticmethod
    def _t(x):
        r = round(x, 1)                 # 10 ms re-checks and the epsilon of blocking waits are below the model's resolution
        return int(r) if r == int(r) else r

    def _host_idx_addr(self, p):
        try:
            return self.addrs.index(p.conn.endpoint.address) + 1
        except ValueError:
            return -1

    def _conn_host(self, conn):
        if conn is None:
            return 0
        try:
            return self.addrs.index(conn.endpoint.address) + 1
        except ValueError:
            return -1

    # ------------------------------------------------------------ C15 under virtual time
    def drain(self):
        """All nodes stay silent from now on: advance the virtual clock to the deadline of the current execution /
        page fetch, firing this future's timers as they fall due.  Returns None, or what is wrong."""
        f = self.fut
        if f is None or f._event.is_set():
            return None
        deadline = self.epoch_start + self.timeout + SLACK + BORROW_WAIT * self.busy_hosts
        for _ in range(64):
            if f._event.is_set():
                break
            t = f._timer
            if self._timer_kind(t) not in ("spec", "timeout", "recheck"):
                return {"timer": {"spec": "live timer while incomplete", "code": self._timer_kind(t)}}
            if t.end > deadline:
                return {"deadline": {"spec": "timer due by start+timeout", "code": "due %.3fs after the start" % (t.end - self.epoch_start)}}
            self.world.fire(t, advance=True)
        if not f._event.is_set():
            return {"deadline": {"spec": "complete", "code": "still incomplete after 64 timer firings"}}
        if self.world.clock.now > deadline + 1e-3:
            return {"deadline": {"spec": "<= %.3f" % (self.timeout + SLACK), "code": "completed %.3fs after the start" % (self.world.clock.now - self.epoch_start)}}
        if not isinstance(f._final_exception, cassandra.OperationTimedOut) or f._final_result is not ccluster._NOT_SET:
            return {"final": {"spec": "OperationTimedOut", "code": self.project()["final"]}}
        return None

    def shutdown(self):
        try:
            self.cluster.executor.queue[:] = []
            self.cluster.shutdown()
        except Exception:       # noqa: BLE001
            pass


# ---------------------------------------------------------------------------------------------------------
def _seq(v):
    return tuple(v)


def spec_view(s):
    """Spec state -> the shape of ReqHarness.project() (fields the code cannot show are dropped)."""
    def fn(v):
        return tuple(v) if isinstance(v, tuple) else tuple(v[k] for k in sorted(v))
    return {
        "pool": fn(s["pool"]),
        "plan": tuple(s["plan"]),
        "tried": tuple(s["tried"]),
        "errs": fn(s["errs"]),
        "att": frozenset(s["att"]),
        "sentLog": tuple((e["host"], e["cl"]) for e in s["sentLog"]),
        "policyLog": tuple((e["kind"], e["rn"], e["dec"], e["cl"]) for e in s["policyLog"]),
        "retries": s["retries"],
        "cl": s["cl"],
        "specLeft": s["specLeft"],
        "timer": str(s["timer"]),
        "final": str(s["final"]),
        "result": str(s["final"]),
        "paging": bool(s["paging"]),
        "cb": fn(s["cb"]), "eb": fn(s["eb"]), "dlv": tuple(str(x) for x in fn(s["dlv"])),
        "queue": tuple((bool(t["reuse"]), t["host"]) for t in s["queue"]),
        "epoch": s["epoch"],
        "lastConn": s["lastConn"],
        "nhaErrors": "n/a",
        "now": s.get("now", 0), "due": s.get("due", 0), "rechecks": s.get("rechecks", 0), "refq": tuple(s.get("refq", ())),
        "_pend": s["pend"]["host"] if "pend" in s else 0,
        "_nhaCls": fn(s["nhaCls"]) if "nhaCls" in s else None,
    }


def diff(spec, real, started=True):
    out = {}
    for k in ReqHarness.VARS:
        sv, rv = spec[k], real[k]
        if k == "nhaErrors":
            # NoHostAvailable.errors must carry what _errors held when it was raised: compare with errs of the
            # spec state in which final became NoHostAvailable; later states only require it not to shrink
            continue
        if k == "rechecks" and spec["timer"] != "recheck" and rv is None:
            continue                    # the counter only lives in a pending re-check timer
        if k == "plan" and rv is None:
            continue                    # a non-iterator plan (explicit host): remaining part not observable
        if k == "specLeft" and not started:
            continue
        if k in ("retries",) and spec["epoch"] > 1:
            continue                    # DESIGN 13: retry_num is compared within the first epoch only
        if k == "policyLog" and spec["epoch"] > 1:
            sv = tuple((a, None, c, d) for a, _, c, d in sv)
            rv = tuple((a, None, c, d) for a, _, c, d in rv)
        if sv != rv:
            out[k] = {"spec": sv, "code": rv}
    return out


C14_FIELDS = set(GROUPS["C14"])
SEND_FIELDS = set(GROUPS["C16"]) | set(GROUPS["C17"]) | {"att"}


def owners_of(fields, late):
    """Properties a set of diverging fields speaks about. `late`: the action was an answer / task that arrived
    after the future had completed (then a callback/outcome difference is C14's alone: everything else is fallout)."""
    own = set(FIELD_OWNER.get(f) for f in fields)
    own.discard(None)
    if late and "C14" in own:
        return {"C14"}
    if not own:
        own = {"C14"}            # att / epoch / paging alone: delivery bookkeeping
    return own


def attribute(name, fields, late, target, idem=True, code=None):
    """(signature, owners) of a divergence: one stable signature per class of failure.
    `code`: the real objects' values of the diverging fields, where known."""
    f = set(fields)
    code = code or {}
    if late and f & C14_FIELDS:
        # an answer / retry task after completion completed the future again
        return "late-answer:completed-again", {"C14"}
    if not idem and "timer" in f and code.get("timer") == "spec":
        return "non-idempotent:speculative-timer-armed", {"C16"}
    if name == "StartNextPage" and f and f <= {"timer", "specLeft"}:
        return "StartNextPage:no-fresh-timer", {"C15"}
    if target and name in ("SpecFire", "RetryTask") and f & {"sentLog", "tried", "errs", "att"}:
        # send_request re-entered with an explicit target host: the one-host plan is iterated again
        return "explicit-host:plan-reiterated", {"C17"}
    if name == "Drain":
        return "drain:" + ",".join(sorted(f)), {"C15"}
    if not f:
        own = {"AnsOk": {"C14"}, "AnsFatal": {"C14"}, "AnsErr": {"C16"}, "RetryTask": {"C16"}, "SpecFire": {"C15"},
               "TimeoutFire": {"C15"}, "StartNextPage": {"C15"}, "Start": {"C17"}}.get(name, {"C14", "C15", "C16", "C17"})
        return "replay:%s:not-performed" % name, own
    own = owners_of(f, late)
    if name == "AnsErr" and not late and f & C14_FIELDS:
        own = own | {"C16"}          # the outcome of a policy decision (RETHROW / IGNORE) is C16's statement as well
    return "replay:%s:%s" % (name, ",".join(sorted(f))), own


def signature_for(pid, div):
    """The signature under which property `pid` reports divergence `div` (only its own fields for generic ones)."""
    sig = div["signature"]
    if not sig.startswith("replay:") or sig.endswith(":not-performed"):
        return sig
    mine = sorted(k for k in div["diff"] if FIELD_OWNER.get(k) == pid) or sorted(k for k in div["diff"] if not k.startswith("_"))
    return "replay:%s:%s" % (div["action"].get("name"), ",".join(mine))


def _is_late(name, prev_final):
    return prev_final != "unset" and name in ("AnsOk", "AnsErr", "AnsFatal", "RetryTask")


def config_of(state):
    pool = state["pool"]
    pool = tuple(pool) if isinstance(pool, tuple) else tuple(pool[k] for k in sorted(pool))
    tm = tuple(state["tm"]) if "tm" in state else (0, 0)
    return {"prep": str(state.get("prep", "none")), "pool": [str(x) for x in pool], "idem": bool(state["idem"]), "spec": int(state["specLeft"]),
            "target": int(state["target"]), "ids": str(state.get("ids", "default")), "tm": [int(tm[0]), int(tm[1])]}


def _repair_page_timer(h):
    """Give the live future what the proposed fix of start_fetching_next_page would have given it (a fresh timer and a
    fresh start time), so that the rest of the behaviour can still be compared."""
    f = h.fut
    done = f._event.is_set()
    f._timer = None
    f._start_time = h.epoch_start
    f._start_timer()
    if done:
        f._cancel_timer()


def replay(nhosts, states, max_epoch=2, drain=True, log=None, resync=True):
    """Replay one behaviour (list of spec states, first = an initial state) on fresh real objects.
    Returns the list of divergences [{step, action, diff, late, owners, signature, resynced}] (empty = conforms).
    A divergence with resynced=True was repaired on the live objects (known class) and the replay went on; any other
    divergence ends the replay."""
    cfg = config_of(states[0])
    target = (cfg["target"], cfg["idem"])
    out = []
    h = ReqHarness(nhosts, cfg["pool"], cfg["idem"], cfg["spec"], cfg["target"], max_epoch=max_epoch, ids=cfg["ids"],
                   tm=cfg["tm"], prep=cfg["prep"])
    try:
        d = diff(spec_view(states[0]), h.project(), started=False)
        if d:
            return [_div(0, {"name": "Init"}, d, False, target)]
        prev_final = "unset"
        folded = 0            # actions that the real objects already performed inside the preceding AnsErr
        for i, s in enumerate(states[1:], 1):
            act = {k: (str(v) if isinstance(v, str) else v) for k, v in dict(s["act"]).items()}
            late = _is_late(act["name"], prev_final)
            if folded:
                # a _retry_task that ran at the yield point after session.submit / the end of that callback (StoreErr)
                folded -= 1
                if s["pend"]["host"] != 0:
                    prev_final = str(s["final"])
                    continue            # still inside the loop-thread callback: nothing observable yet
            elif s.get("pend", {"host": 0})["host"] != 0 and act["name"] == "AnsErr":
                # the retry task is submitted and self._errors[host] not yet stored: the executor tasks the behaviour runs
                # before StoreErr run at that yield point; the state is compared when the callback is through
                k = 0
                while i + 1 + k < len(states) and str(states[i + 1 + k]["act"]["name"]) == "RetryTask":
                    k += 1
                act["_interleave"] = k
                folded = k + (1 if i + 1 + k < len(states) and str(states[i + 1 + k]["act"]["name"]) == "StoreErr" else 0)
                try:
                    h.do(act)
                except Exception as ex:            # noqa: BLE001
                    d = {"_raised": {"spec": "no exception", "code": "%s: %s" % (type(ex).__name__, ex)}}
                    return out + [_div(i, act, d, late, target)]
                prev_final = str(s["final"])
                if i + folded >= len(states):
                    return out          # the behaviour ends inside the callback: the real objects are already beyond it
                continue
            try:
                if not (act["name"] in ("RetryTask", "StoreErr") and i > 1 and states[i - 1]["pend"]["host"] != 0):
                    h.do(act)
            except HarnessRefusal as ex:
                d = {"_refused": {"spec": "enabled", "code": str(ex)}}
                d.update(diff(spec_view(states[i - 1]), h.project()))
                return out + [_div(i, act, d, late, target)]
            except Exception as ex:            # noqa: BLE001 - the code under test blew up inside the action
                d = {"_raised": {"spec": "no exception", "code": "%s: %s" % (type(ex).__name__, ex)}}
                try:
                    d.update(diff(spec_view(s), h.project()))
                except Exception:              # noqa: BLE001
                    pass
                return out + [_div(i, act, d, late, target)]
            real = h.project()
            sv = spec_view(s)
            d = diff(sv, real)
            if sv["final"] == "NoHostAvailable" and sv["_pend"] == 0 and real["nhaErrors"] is not None and sv["_nhaCls"]:
                # NoHostAvailable.errors lists every host it had to list when it was raised, with the class the entry had
                # then or has now (the live map moves on with later answers)
                bad = [j for j, c in enumerate(sv["_nhaCls"]) if c != "none" and real["nhaErrors"][j] not in (c, sv["errs"][j])]
                if bad:
                    d["nhaErrors"] = {"spec": tuple(sv["_nhaCls"]), "code": real["nhaErrors"]}
            if log is not None:
                log.append((act, real))
            if d:
                dv = _div(i, act, d, late, target)
                if resync and dv["signature"] == "StartNextPage:no-fresh-timer":
                    try:
                        _repair_page_timer(h)
                        again = diff(sv, h.project())
                    except Exception as ex:    # noqa: BLE001
                        again = {"_raised": {"spec": "-", "code": repr(ex)}}
                    if not again:
                        dv["resynced"] = True
                        out.append(dv)
                        prev_final = sv["final"]
                        continue
                return out + [dv]
            prev_final = sv["final"]
        if drain and states[-1]["started"] and str(states[-1]["final"]) == "unset":
            d = h.drain()
            if d:
                out.append(_div(len(states), {"name": "Drain"}, d, False, target))
        return out
    finally:
        h.shutdown()


def _div(step, act, d, late, cfg):
    target, idem = cfg
    fields = [k for k in d if not k.startswith("_")]
    sig, own = attribute(act.get("name"), fields, late, target, idem, {k: d[k].get("code") for k in fields})
    return {"step": step, "action": act, "diff": d, "late": late, "owners": sorted(own), "signature": sig,
            "resynced": False}


# ---------------------------------------------------------------------- recording (code -> spec)
def post_of(p):
    """Projection -> JSON post-state for Trace_Request.tla."""
    out = {
        "pool": list(p["pool"]), "tried": list(p["tried"]), "errs": list(p["errs"]), "att": sorted(p["att"]),
        "sentLog": [list(x) for x in p["sentLog"]], "policyLog": [list(x) for x in p["policyLog"]],
        "retries": p["retries"], "cl": p["cl"], "specLeft": p["specLeft"], "timer": p["timer"], "final": p["final"],
        "result": p["result"], "paging": p["paging"], "cb": list(p["cb"]), "eb": list(p["eb"]), "dlv": list(p["dlv"]),
        "queue": [list(x) for x in p["queue"]], "epoch": p["epoch"], "lastConn": p["lastConn"],
        "now": p["now"], "due": p["due"], "refq": list(p["refq"]),
    }
    if p["plan"] is not None:
        out["plan"] = list(p["plan"])
    if p["nhaErrors"] is not None:
        out["nhaErrors"] = list(p["nhaErrors"])
    return out


TIME_CHOICES = ((0, 0), (0, 0), (5, 2), (4, 2), (1, 2))     # (timeout, speculative delay); (0, 0) = untimed
ALL_CONDS = ("missing", "shutdown", "busy", "failing", "unwritable")
RETRYABLE = ("ReadTimeout", "WriteTimeout", "Unavailable", "OverloadedErrorMessage", "IsBootstrappingErrorMessage",
             "ServerError", "ConnectionShutdown")


def record(rng, nhosts=3, max_events=14, max_retries=3, max_epoch=2, p_bad=0.25, cls=(NO_CL, 0, 1, 4)):
    """Drive the real objects with random enabled operations; returns the event list (first event = configuration)."""
    pool = [rng.choice(ALL_CONDS) if rng.random() < p_bad else "healthy" for _ in range(nhosts)]
    idem = rng.random() < 0.75
    spec = rng.choice((0, 1, 2))
    target = rng.choice(range(1, nhosts + 1)) if rng.random() < 0.15 else 0
    ids = rng.choice(("default", "zero", "one"))
    tm = rng.choice(TIME_CHOICES) if "busy" not in pool else (0, 0)
    if tm[0] > 0:
        spec = rng.choice((0, 1, 2, 3))
    prep = rng.choice(("none", "none", "yes", "no"))
    h = ReqHarness(nhosts, pool, idem, spec, target, max_epoch=max_epoch, ids=ids, tm=tm, prep=prep)
    events = [{"e": "Config", "pool": pool, "idem": idem, "spec": spec, "target": target, "ids": ids,
               "budget": tm[0], "delay": tm[1], "prep": prep}]
    try:
        ev = {"e": "Start"}
        try:
            h.act_Start({})
            ev["post"] = post_of(h.project())
        except Exception as ex:          # noqa: BLE001
            events.append({"e": "Anomaly", "during": ev, "what": "%s: %s" % (type(ex).__name__, ex)})
            return events
        events.append(ev)
        while len(events) < max_events:
            f = h.fut
            ops = []
            for a in sorted(h._registered()):
                ops += [("Ans", a)] * 3
            tk = h._timer_kind(f._timer)
            if tk == "spec":
                ops += [("SpecFire", None)] * 2
            if tk == "timeout":
                ops.append(("TimeoutFire", None))
            if tk == "recheck":
                ops.append(("RecheckFire", None))
            if h._retry_tasks():
                ops += [("RetryTask", None)] * 3
            if h._refresh_tasks():
                ops += [("RefreshTask", None)] * 3
            if (h.epoch < max_epoch and f._paging_state is not None and f._final_exception is None
                    and f._final_result is not ccluster._NOT_SET and f._final_result
                    and not h._registered() and not h._retry_tasks() and not h._refresh_tasks()):
                ops += [("StartNextPage", None)] * 3
            if not ops:
                break
            op, arg = rng.choice(ops)
            ev = {"e": op}
            try:
                if op == "Ans":
                    r = rng.random()
                    if r < 0.06:
                        ev = {"e": "AnsSchema", "a": arg}
                        h.act_AnsSchema(ev)
                    elif r < 0.34:
                        ev = {"e": "AnsOk", "a": arg, "k": rng.choice(("rows", "more", "void"))}
                        h.act_AnsOk(ev)
                    elif r < 0.42:
                        ev = {"e": "AnsFatal", "a": arg, "k": rng.choice(("SyntaxException", "InvalidRequest"))}
                        h.act_AnsFatal(ev)
                    else:
                        ds = ["RETHROW", "IGNORE"]
                        if f._query_retries < max_retries:
                            ds += ["RETRY", "NEXT", "RETRY", "NEXT"]
                        d = rng.choice(ds)
                        c = rng.choice(cls) if d in ("RETRY", "NEXT") else NO_CL
                        ev = {"e": "AnsErr", "a": arg, "k": rng.choice(RETRYABLE), "d": d, "c": c}
                        if d in ("RETRY", "NEXT") and f._final_exception is None:
                            # the retry task is submitted before self._errors[host] is stored: let 0..n queued retry
                            # tasks run at that point (executor thread), then the callback ends (StoreErr)
                            n = rng.choice((0, 0, 1, 1, 2)) if h.ids != "one" else 0
                            n = min(n, len(h._retry_tasks()) + 1)
                            h.act_AnsErr(dict(ev, _interleave=n))
                            events.append(ev)
                            events.extend({"e": "RetryTask"} for _ in range(n))
                            ev = {"e": "StoreErr"}
                        else:
                            h.act_AnsErr(ev)
                elif op == "RefreshTask":
                    ev["ok"] = rng.random() < 0.5
                    h.act_RefreshTask(ev)
                else:
                    getattr(h, "act_" + op)(ev)
                ev["post"] = post_of(h.project())
            except Exception as ex:          # noqa: BLE001 - the real objects left the envelope the harness can drive
                events.append({"e": "Anomaly", "during": {k: v for k, v in ev.items() if k != "post"},
                               "what": "%s: %s" % (type(ex).__name__, ex)})
                break
            events.append(ev)
        return events
    finally:
        h.shutdown()
