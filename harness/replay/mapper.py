"""spec/MapperStmt.tla, spec/MapperRow.tla <-> the real cqlengine mapper (C37, C35).

The seam is the one harness/replay/bind.py introduced: a duck-typed session registered through the public
cassandra.cqlengine.connection.register_connection(name, session=...).  Everything the mapper sends arrives at
MapperSession.execute as (SimpleStatement | str, parameter dict); nothing of cqlengine is patched.

C37  StmtEnv.run_case(case)   builds the request of a MapperStmt case through the public API (query-set chains,
                              Model.create, instance save / update / delete, BatchQuery) and returns what was sent
     compare_case(...)        the fragments / placeholders / bindings of what was sent against the spec's `out`
C35  RowHarness               model classes R / RC, the in-memory CQL interpreter (harness/replay/cql_interp.py) behind
                              the session, one method per MapperRow action, project() of interpreter + instance
"""
import datetime
import itertools
import warnings

from harness import tlc
from harness.pyenv import repo_import
from harness.replay import bind as B
from harness.replay import cql_interp as CI

KS = "ks"


class Result(list):
    """What cqlengine reads of a ResultSet (dict_factory rows)."""
    column_names = []
    has_more_pages = False

    def one(self):
        return self[0] if self else None

    def all(self):
        return list(self)

    @property
    def current_rows(self):
        return list(self)

    @property
    def was_applied(self):
        # cassandra.cluster.ResultSet.was_applied: only defined for the single-row answer of a conditional statement
        if len(self) != 1 or "[applied]" not in self[0]:
            raise RuntimeError("was_applied: not the answer of a conditional statement")
        return bool(self[0]["[applied]"])


class MapperSession(B.RecordingSession):
    """The recording session of bind.py with an answer hook that sees statement and parameters."""

    def __init__(self, protocol_version=4):
        super(MapperSession, self).__init__(protocol_version)
        self.handler = None          # fn(query string, params) -> rows

    def execute(self, query, parameters=None, timeout=None, **kw):
        text = getattr(query, "query_string", query)
        self.executed.append((text, parameters))
        rows = self.handler(text, parameters) if self.handler else []
        return Result(rows)


class Env(object):
    """A MapperSession registered with cqlengine under a private connection name."""
    _serial = itertools.count(1)

    def __init__(self, protocol_version=4):
        self.CONN = "verif_mapper_%d" % next(Env._serial)       # one connection per environment: several may be alive
        repo_import("cassandra.cluster")            # installs the reactor shim cassandra.cluster needs to be importable
        self.connection = repo_import("cassandra.cqlengine.connection")
        self.columns = repo_import("cassandra.cqlengine.columns")
        self.models = repo_import("cassandra.cqlengine.models")
        self.query = repo_import("cassandra.cqlengine.query")
        self.functions = repo_import("cassandra.cqlengine.functions")
        self.engine = repo_import("cassandra.cqlengine")
        self.session = MapperSession(protocol_version)
        self.connection.register_connection(self.CONN, session=self.session)

    def close(self):
        try:
            self.connection.unregister_connection(self.CONN)
        except Exception:            # noqa
            self.connection._connections.pop(self.CONN, None)

    def model(self, name, table, attrs):
        d = {"__keyspace__": KS, "__table_name__": table, "__connection__": self.CONN}
        d.update(attrs)
        return type(name, (self.models.Model,), d)


def pyval(v):
    """Python value of a tagged spec value [k |-> kind, v |-> ...]."""
    k, x = v["k"], v["v"]
    if k in ("int", "text"):
        return x
    if k == "none":
        return None
    if k == "set":
        return set(x)
    if k in ("list", "tuple"):
        return list(x)
    if k == "map":
        return dict((a, b) for a, b in x)
    raise KeyError(k)


def canon_value(v):
    """Comparable, JSON-able form of a bound value (a set and a SortedSet, a list and a tuple are the same value)."""
    name = type(v).__name__
    if name == "InQuoter":
        return ["in"] + [canon_value(x) for x in v.value]
    if name == "ValueQuoter":
        return canon_value(v.value)
    if v is None or isinstance(v, (bool, int, str)):
        return v
    if isinstance(v, (set, frozenset)) or name == "SortedSet":
        return ["set"] + sorted(canon_value(x) for x in v)
    if isinstance(v, (list, tuple)):
        return ["list"] + [canon_value(x) for x in v]
    if isinstance(v, dict):
        return ["map"] + sorted([canon_value(a), canon_value(b)] for a, b in v.items())
    return ["other", repr(v)]


# ====================================================================== C37

BASE_ROW = {"p": 1, "q": 2, "c": 3, "vv": 4, "w": 5, "t": "x", "Seq": 7, "order": 8, "z": 6, "s": {1, 2}, "l": [1, 2], "m": {1: 1, 2: 2}}
COUNTER_ROW = {"p": 1, "c": 3, "n": 10}


class Refused(Exception):
    """The mapper refused to build the request (QueryException / ValidationError ...)."""


class StmtEnv(Env):
    """Model S of MapperStmt.tla (+ the counter model SC)."""

    def __init__(self):
        super(StmtEnv, self).__init__()
        c = self.columns
        self.S = self.model("S", "st", {
            "p": c.Integer(partition_key=True), "q": c.Integer(partition_key=True), "c": c.Integer(primary_key=True),
            "v": c.Integer(index=True, db_field="vv"), "w": c.Integer(), "t": c.Text(),
            "x": c.Integer(db_field="Seq"), "y": c.Integer(db_field="order"), "z": c.Integer(static=True),
            "s": c.Set(c.Integer), "l": c.List(c.Integer), "m": c.Map(c.Integer, c.Integer)})
        self.SC = self.model("SC", "sc", {
            "p": c.Integer(partition_key=True), "c": c.Integer(primary_key=True), "n": c.Counter()})
        self.session.handler = self._answer
        self._canned = None

    def _answer(self, text, params):
        head = text.lstrip().upper()
        if head.startswith("SELECT"):
            if "COUNT(" in head.split("FROM")[0]:
                return [{"count": 0}]
            if self._canned is not None:
                cols = CI.parse(text)["statements"][0]["columns"]
                row = dict(self._canned)
                return [row if cols is None else {c: row[c] for c in cols}]
        return []

    def load(self, model):
        """An instance as the application gets it: read through the query set from a canned row."""
        self._canned = dict(BASE_ROW) if model is self.S else dict(COUNTER_ROW)
        try:
            if model is self.S:
                inst = model.objects(p=1, q=2, c=3).get()
            else:
                inst = model.objects(p=1, c=3).get()
        finally:
            self._canned = None
        return inst

    # ---- one case

    def _profile(self, target, prof, batch, is_delete=False):
        """iff / if_exists / ttl / timestamp / batch on a query set or an instance (same method names)."""
        if batch is not None:
            target = target.batch(batch)
        if prof["conds"]:
            target = target.iff(**{cond["kw"]: pyval(cond["vals"][0]) for cond in prof["conds"]})
        if prof["ifx"]:
            target = target.if_exists()
        if prof["ttl"] and not is_delete:
            target = target.ttl(prof["ttl"])
        if prof["ts"]:
            target = target.timestamp(datetime.timedelta(seconds=3))
        return target

    def run_member(self, case, batch=None):
        kind = case["kind"]
        S = self.S
        if kind == "select":
            qs = S.objects
            kwargs = {}
            for f in case["filters"]:
                if f["shape"] == "token":
                    val = self.functions.Token(*[pyval(x) for x in f["vals"]])
                else:
                    val = pyval(f["vals"][0])
                if case.get("single"):
                    kwargs[f["kw"]] = val               # keyword order = filter order
                else:
                    qs = qs.filter(**{f["kw"]: val})
            if kwargs:
                qs = qs.filter(**kwargs)
            o = case["opt"]
            if o["order"] != "none":
                qs = qs.order_by(o["order"])
            if o["limit"] == 0:
                qs = qs.limit(None)
            elif o["limit"] > 0:
                qs = qs.limit(o["limit"])
            if o["fields"] == "only":
                qs = qs.only(["c", "w", "z"])
            elif o["fields"] == "defer":
                qs = qs.defer(["t"])
            if o["allow"]:
                qs = qs.allow_filtering()
            if o["distinct"]:
                qs = qs.distinct()
            if o["how"] == "list":
                list(qs)
            elif o["how"] == "count":
                qs.count()
            else:
                try:
                    qs.get()
                except S.DoesNotExist:
                    pass
        elif kind == "qsupdate":
            qs = self._profile(S.objects(p=1, q=2, c=3), case["prof"], batch)
            kwargs = {}
            for a in case["assigns"]:
                kwargs[a["kw"]] = pyval(a["vals"][0])
            qs.update(**kwargs)
        elif kind == "qsdelete":
            qs = S.objects(p=1, q=2, c=3) if case["full"] else S.objects(p=1, q=2)
            self._profile(qs, case["prof"], batch, is_delete=True).delete()
        elif kind == "create":
            qs = S.objects
            if batch is not None:
                qs = qs.batch(batch)
            prof = case["prof"]
            if prof["ttl"]:
                qs = qs.ttl(prof["ttl"])
            if prof["ts"]:
                qs = qs.timestamp(datetime.timedelta(seconds=3))
            if prof["inx"]:
                qs = qs.if_not_exists()
            vals = {"p": 1, "q": 2, "c": 3}
            for a in case["values"]:
                vals[a["attr"]] = pyval(a["vals"][0])
            qs.create(**vals)
        elif kind == "instsave":
            inst = self.load(S)
            self.session.executed = [e for e in self.session.executed if not e[0].lstrip().upper().startswith("SELECT")]
            for mu in case["muts"]:
                attr, shape = mu["attr"], mu["shape"]
                if shape in ("assign", "field"):
                    setattr(inst, attr, pyval(mu["vals"][0]))
                elif shape == "setdiff":
                    for x in sorted(mu["add"]):
                        inst.s.add(x)
                    for x in sorted(mu["rem"]):
                        inst.s.remove(x)
                elif shape == "listdiff":
                    for x in reversed(mu["pre"]):
                        inst.l.insert(0, x)
                    for x in mu["app"]:
                        inst.l.append(x)
                elif shape == "puts":
                    for k, v in mu["pairs"]:
                        inst.m[k] = v
                    for k in mu["delkeys"]:
                        del inst.m[k]
                else:
                    raise tlc.MachineryError("unknown mutation shape %s" % shape)
            inst = self._profile(inst, case["prof"], batch)
            if case["how"] == "save":
                inst.save()
            else:
                inst.update()
        elif kind == "instdelete":
            inst = self.load(S)
            self.session.executed = [e for e in self.session.executed if not e[0].lstrip().upper().startswith("SELECT")]
            self._profile(inst, case["prof"], batch, is_delete=True).delete()
        elif kind == "counter":
            with warnings.catch_warnings():
                warnings.simplefilter("ignore")
                if case["how"] == "qs":
                    qs = self.SC.objects(p=1, c=3)
                    if batch is not None:
                        qs = qs.batch(batch)
                    qs.update(n=case["delta"])
                else:
                    inst = self.load(self.SC)
                    self.session.executed = [e for e in self.session.executed if not e[0].lstrip().upper().startswith("SELECT")]
                    inst.n += case["delta"]
                    if batch is not None:
                        inst = inst.batch(batch)
                    inst.save()
        else:
            raise tlc.MachineryError("unknown case kind %s" % kind)

    def run_case(self, case):
        """-> {"sent": [(text, params)], "refused": None | str, "raised": None | str}"""
        self.session.executed = []
        out = {"sent": [], "refused": None, "raised": None}
        refusals = (self.query.QueryException, self.engine.ValidationError)
        try:
            if case["kind"] == "batch":
                bt = {"": None, "UNLOGGED": self.query.BatchType.Unlogged, "COUNTER": self.query.BatchType.Counter}[case["btype"]]
                # docs/cqlengine/connections.rst: "With a BatchQuery, you can select the connection with the context manager"
                with self.query.BatchQuery(batch_type=bt, connection=self.CONN) as b:
                    for m in case["members"]:
                        self.run_member(m, b)
            else:
                self.run_member(case)
        except tlc.MachineryError:
            raise
        except refusals as ex:
            out["refused"] = "%s: %s" % (type(ex).__name__, str(ex)[:160])
        except Exception as ex:          # noqa: a mutated mapper may raise anything
            out["raised"] = "%s: %s" % (type(ex).__name__, str(ex)[:200])
        out["sent"] = [(t, p) for t, p in self.session.executed]
        return out

    # ---- comparison

    def _spec_value(self, model, frag, v):
        """The requested value as the column's own to_database gives it (where the value is one of the column)."""
        py = pyval(v)
        col = None
        for tok in frag:
            if tok.startswith("i:"):
                col = model._get_column_by_db_name(tok[2:])
                break
        if v["k"] == "tuple":
            return ["in"] + [canon_value(col.to_database(x) if col is not None else x) for x in py]
        if col is not None:
            try:
                return canon_value(col.to_database(py))
            except Exception:            # noqa: element values (map key / value, CONTAINS) are not values of the column
                pass
        return canon_value(py)

    def _spec_sections(self, model, st):
        first = st["first"]
        sec = {}
        for name in ("where", "set", "del", "ins", "iff"):
            frags = []
            for frag in st[name]:
                toks = []
                for tok in frag:
                    if tok.startswith("%"):
                        toks.append(["V", self._spec_value(model, frag, st["vals"][int(tok[1:]) - first])])
                    else:
                        toks.append(tok)
                frags.append(toks)
            sec[name] = sorted(frags, key=repr)
        return sec

    @staticmethod
    def _real_sections(st, params):
        def subst(toks):
            out = []
            for tok in toks:
                if tok.startswith("%"):
                    name = tok[1:]
                    out.append(["V", canon_value(params[name])] if name in params else ["UNBOUND", name])
                else:
                    out.append(tok)
            return out
        sec = {"where": [subst(r["toks"]) for r in st.get("where", ())],
               "iff": [subst(r["toks"]) for r in st.get("conditions", ())],
               "set": [subst(a["toks"]) for a in st.get("assignments", ())],
               "del": [subst(t["toks"]) for t in st.get("targets", ())],
               "ins": [subst(p["toks"]) for p in st.get("pairs", ())]}
        return {k: sorted(v, key=repr) for k, v in sec.items()}

    def compare_group(self, group, text, params):
        """One expected string (a statement or a batch) against one sent string.  -> list of (what, signature part)"""
        problems = []
        params = params or {}
        try:
            names = CI.placeholders(text)
            script = CI.parse(text)
        except CI.CqlUnsupported as ex:
            return [("statement outside the CQL subset cqlengine is known to emit: %s" % ex, "unparsable")]
        except CI.CqlInvalid as ex:
            return [("malformed statement: %s" % ex, "malformed")]
        dup = sorted(set(n for n in names if names.count(n) > 1))
        if dup:
            problems.append(("placeholder(s) %s appear more than once in %r" % (dup, text), "placeholder-shared"))
        if set(names) != set(params):
            problems.append(("placeholders %s but parameters %s in %r" % (sorted(set(names)), sorted(params), text),
                             "placeholders-differ-from-parameters"))
        if (script["batch"] is not None) != group["batch"]:
            problems.append(("batch expected: %s, sent: %r" % (group["batch"], text), "batchness"))
            return problems
        if len(script["statements"]) != len(group["stmts"]):
            problems.append(("%d statements expected, %d sent: %r" % (len(group["stmts"]), len(script["statements"]), text),
                             "statement-count"))
            return problems
        for exp, st in zip(group["stmts"], script["statements"]):
            model = self.SC if exp["table"] == "sc" else self.S
            if st["kind"] != exp["kind"] or st["table"] != "%s.%s" % (KS, exp["table"]):
                problems.append(("expected %s on %s, sent %s on %s" % (exp["kind"], exp["table"], st["kind"], st["table"]),
                                 "%s:kind" % exp["kind"]))
                continue
            if bool(st.get("if_exists")) != exp["ifx"] or bool(st.get("if_not_exists")) != exp["inx"]:
                problems.append(("IF EXISTS / IF NOT EXISTS differ from the request in %r" % text, "%s:existence-flag" % exp["kind"]))
            want = self._spec_sections(model, exp)
            have = self._real_sections(st, params)
            for name, label in (("where", "WHERE"), ("iff", "IF"), ("set", "SET"), ("del", "DELETE columns"), ("ins", "INSERT columns/values")):
                if want[name] != have[name]:
                    problems.append(("%s part of the %s: requested %s, rendered and bound %s   [%s  <- %s]" % (
                        label, exp["kind"].upper(), want[name], have[name], " ".join(text.split()), _show_params(params)),
                        "%s:%s:%s" % (exp["kind"], name, _difference(want[name], have[name]))))
        return problems

    def compare_case(self, case, out, obs):
        """-> list of (what, signature)"""
        head = case["kind"]
        if obs["raised"]:
            return [("the mapper raised %s" % obs["raised"], "%s:raised" % head)]
        if obs["refused"]:
            if out["mayrefuse"]:
                return []
            return [("the mapper refused a request the documentation allows: %s" % obs["refused"], "%s:refused" % head)]
        groups = list(out["sent"])
        sent = obs["sent"]
        if len(groups) != len(sent):
            return [("%d statement(s) expected, %d sent: %s" % (len(groups), len(sent), [" ".join(t.split()) for t, _ in sent]),
                     "%s:statements-sent" % head)]
        best = None
        for perm in itertools.permutations(range(len(sent))):
            problems = []
            for g, i in zip(groups, perm):
                problems += self.compare_group(g, sent[i][0], sent[i][1])
            if not problems:
                return []
            if best is None or len(problems) < len(best):
                best = problems
            if len(sent) > 3:
                break
        return best


def _difference(want, have):
    """A stable word for how two fragment lists differ (part of the signature)."""
    w = [repr(f) for f in want]
    h = [repr(f) for f in have]
    missing = [f for f in want if repr(f) not in h]
    extra = [f for f in have if repr(f) not in w]

    def cols(fs):
        return "+".join(sorted(set(t[2:] for f in fs for t in f[:1] if isinstance(t, str) and t.startswith("i:")))) or "x"
    if missing and not extra:
        return "missing-" + cols(missing)
    if extra and not missing:
        return "extra-" + cols(extra)
    if any(t[0] == "UNBOUND" for f in have for t in f if isinstance(t, list)):
        return "unbound"
    if [[t if isinstance(t, str) else "V" for t in f] for f in want] == [[t if isinstance(t, str) else "V" for t in f] for f in have]:
        return "bound-values"
    return "fragments-" + cols(missing)


def _show_params(params):
    return {k: canon_value(v) for k, v in sorted(params.items(), key=lambda kv: (len(kv[0]), kv[0]))}


# ====================================================================== C35

# Element types of the collection columns of model R (MapperRow.tla ElemTypes): timestamps - their database form (epoch
# milliseconds) differs from their Python form (datetime), so every place where cqlengine must convert shows.
ELEMS = {"s": "timestamp", "l": "timestamp", "mk": "int", "mv": "timestamp"}
# abstract element i of the specification <-> Python value (millisecond precision: exact round trip)
ELEM_VALUES = {1: datetime.datetime(2001, 1, 1, 0, 0, 0), 2: datetime.datetime(2002, 2, 2, 3, 4, 5, 678000)}


def _ms(d):
    delta = d - datetime.datetime(1970, 1, 1)
    return (delta.days * 86400 + delta.seconds) * 1000 + delta.microseconds // 1000


_ABSTRACT = dict([(v, k) for k, v in ELEM_VALUES.items()] + [(_ms(v), k) for k, v in ELEM_VALUES.items()])


def elem(i):
    return ELEM_VALUES[i]


def abstract(x):
    """Python datetime / stored milliseconds -> the specification's element."""
    try:
        return _ABSTRACT[x]
    except (KeyError, TypeError):
        return "foreign:%r" % (x,)


def _row_tables(plain_elements=False):
    r = CI.Table("%s.r" % KS, ["k"], ["ck"], {"k": "int", "ck": "int", "aa": "int", "b": "int", "st": "int",
                                             "s": "set", "l": "list", "m": "map"}, static=["st"],
                 elems=None if plain_elements else {"s": ELEMS["s"], "l": ELEMS["l"], "m": (ELEMS["mk"], ELEMS["mv"])})
    rc = CI.Table("%s.rc" % KS, ["k"], ["ck"], {"k": "int", "ck": "int", "n": "counter"})
    return r, rc


class Outcome(object):
    """What happened when an operation was run on the real mapper."""

    def __init__(self):
        self.refused = False         # LWTException
        self.invalid = None          # the interpreter answered InvalidRequest
        self.raised = None           # anything else

    def __repr__(self):
        return "Outcome(refused=%s, invalid=%r, raised=%r)" % (self.refused, self.invalid, self.raised)


class RowHarness(Env):
    """Model R / RC of MapperRow.tla on the real mapper; the CQL it emits is executed by cql_interp.Interp."""

    FIELDS = ("a", "b", "st", "s", "l", "m")

    def __init__(self, mode, plain_elements=False):
        """plain_elements: collections of Integer whose elements are the specification's numbers themselves (used by the
        reproductions in /verif/findings); default: the specification's ElemTypes (timestamps)."""
        super(RowHarness, self).__init__()
        self.mode = mode
        self.elem = (lambda i: i) if plain_elements else elem
        self.abstract = (lambda x: x) if plain_elements else abstract
        c = self.columns
        self.R = self.model("R", "r", {
            "k": c.Integer(partition_key=True), "ck": c.Integer(primary_key=True),
            "a": c.Integer(db_field="aa"), "b": c.Integer(), "st": c.Integer(static=True),
            "s": c.Set(c.Integer if plain_elements else c.DateTime), "l": c.List(c.Integer if plain_elements else c.DateTime),
            "m": c.Map(c.Integer, c.Integer if plain_elements else c.DateTime)})
        self.RC = self.model("RC", "rc", {
            "k": c.Integer(partition_key=True), "ck": c.Integer(primary_key=True), "n": c.Counter()})
        self.tr, self.trc = _row_tables(plain_elements)
        self.interp = CI.Interp([self.tr, self.trc])
        self.session.handler = self.interp.execute
        self.inst = None
        self.ops_run = 0

    def reset(self):
        self.interp.clear()
        self.session.executed = []
        self.inst = None

    # ---- spec values <-> Python values

    def py_field(self, f, x, none=False):
        """Spec value of field f (0 / {} / <<>> / <<0,0>> = null) -> what the application passes."""
        if f in ("a", "b", "st"):
            return None if x == 0 else x
        if f == "s":
            return None if none else set(self.elem(i) for i in x)
        if f == "l":
            return None if none else [self.elem(i) for i in x]
        if f == "m":
            return None if none else {i + 1: self.elem(v) for i, v in enumerate(x) if v != 0}
        raise KeyError(f)

    def spec_field(self, f, v):
        """A Python attribute / cell value -> the spec's representation."""
        if f in ("a", "b", "st"):
            return 0 if v is None else v
        if f == "s":
            return frozenset(self.abstract(x) for x in (v or ()))
        if f == "l":
            return tuple(self.abstract(x) for x in (v or ()))
        if f == "m":
            d = dict(v or {})
            extra = set(d) - {1, 2}
            if extra:
                return ("foreign-keys", repr(sorted(d.items(), key=repr)))
            return tuple(self.abstract(d[k]) if d.get(k) is not None else 0 for k in (1, 2))
        raise KeyError(f)

    # ---- operations

    def _kwargs(self, sets):
        kw = {}
        for k in sets:
            name, x = k["kw"], k["x"]
            if k["none"]:
                kw[name] = None
            elif name in ("a", "b", "st"):
                kw[name] = x
            elif name == "m__remove":
                kw[name] = set(x)
            elif name in ("s", "s__add", "s__remove"):
                kw[name] = set(self.elem(i) for i in x)
            elif name in ("l", "l__append", "l__prepend"):
                kw[name] = [self.elem(i) for i in x]
            elif name in ("m", "m__update"):
                kw[name] = {i + 1: self.elem(v) for i, v in enumerate(x) if v != 0}
            else:
                raise tlc.MachineryError("unknown update keyword %s" % name)
        return kw

    def _mutate(self, inst, mu):
        f, op, x = mu["f"], mu["op"], mu["x"]
        if op == "set":
            setattr(inst, f, self.py_field(f, x))
        elif op == "none":
            setattr(inst, f, None)
        else:
            if getattr(inst, f) is None:          # the application set the collection to None before
                setattr(inst, f, {"s": set(), "l": [], "m": {}}[f])
            cur = getattr(inst, f)
            if op == "add":
                cur.add(self.elem(x))
            elif op == "discard":
                cur.remove(self.elem(x))
            elif op == "append":
                cur.append(self.elem(x))
            elif op == "prepend":
                cur.insert(0, self.elem(x))
            elif op == "poplast":
                cur.pop()
            elif op == "put":
                cur[x[0]] = self.elem(x[1])
            elif op == "delkey":
                del cur[x]
            else:
                raise tlc.MachineryError("unknown mutation %s" % op)

    def _run(self, op, batch=None):
        name = op["name"]
        R = self.R
        if name == "create":
            qs = R.objects
            if batch is not None:
                qs = qs.batch(batch)
            if op["lwt"]:
                qs = qs.if_not_exists()
            vals = {f: self.py_field(f, op["vals"][f]) for f in self.FIELDS if f in op["has"]}
            self.inst = qs.create(k=1, ck=op["ck"], **vals)
        elif name == "load":
            try:
                self.inst = R.objects(k=1, ck=op["ck"]).get()
            except R.DoesNotExist:
                pass
        elif name == "isave":
            inst = self.inst
            for mu in op["muts"]:
                self._mutate(inst, mu)
            if batch is not None:
                inst.batch(batch)
            try:
                if op["how"] == "save":
                    inst.save()
                else:
                    inst.update()
            finally:
                if batch is not None:
                    inst.batch(None)
        elif name == "isaveas":
            self.inst.ck = 3 - self.inst.ck
            self.inst.save()
        elif name == "idelete":
            inst, self.inst = self.inst, None
            inst.delete()
        elif name == "qsupdate":
            qs = R.objects(k=1) if op["ck"] == 0 else R.objects(k=1, ck=op["ck"])
            if batch is not None:
                qs = qs.batch(batch)
            if op["lwt"] == "ifexists":
                qs = qs.if_exists()
            elif op["lwt"] == "iff_a1":
                qs = qs.iff(a=1)
            qs.update(**self._kwargs(op["sets"]))
        elif name == "qsdelete":
            qs = R.objects(k=1) if op["ck"] == 0 else R.objects(k=1, ck=op["ck"])
            if batch is not None:
                qs = qs.batch(batch)
            if op["lwt"] == "ifexists":
                qs = qs.if_exists()
            qs.delete()
        elif name == "batch":
            try:
                with self.query.BatchQuery(connection=self.CONN) as b:
                    for m in op["members"]:
                        self._run(m, b)
            finally:
                # an instance made by create() inside the batch keeps pointing at it; the application detaches it
                # (instance.batch(None)), otherwise later saves would be queued on the finished batch
                if self.inst is not None:
                    self.inst.batch(None)
        # ---- counter model
        elif name == "cqs":
            self.RC.objects(k=1, ck=1).update(n=op["d"])
        elif name == "cbatch":
            with self.query.BatchQuery(batch_type=self.query.BatchType.Counter, connection=self.CONN) as b:
                for d in op["ds"]:
                    self.RC.objects(k=1, ck=1).batch(b).update(n=d)
        elif name == "ccreate":
            self.inst = self.RC.create(k=1, ck=1, n=op["d"]) if op["d"] else self.RC.create(k=1, ck=1)
        elif name == "cload":
            try:
                self.inst = self.RC.objects(k=1, ck=1).get()
            except self.RC.DoesNotExist:
                pass
        elif name == "cisave":
            self.inst.n += op["d"]
            if op["how"] == "save":
                self.inst.save()
            else:
                self.inst.update()
        elif name == "cidelete":
            inst, self.inst = self.inst, None
            inst.delete()
        elif name == "cqsdelete":
            self.RC.objects(k=1, ck=1).delete()
        else:
            raise tlc.MachineryError("unknown operation %s" % name)

    def apply(self, op):
        out = Outcome()
        self.ops_run += 1
        self.session.executed = []
        try:
            with warnings.catch_warnings():
                warnings.simplefilter("ignore")
                self._run(op)
        except tlc.MachineryError:
            raise
        except self.query.LWTException:
            out.refused = True
        except CI.CqlInvalid as ex:
            out.invalid = str(ex)
        except Exception as ex:          # noqa: a mutated mapper may raise anything
            out.raised = "%s: %s" % (type(ex).__name__, str(ex)[:200])
        return out

    # ---- projection

    def project(self):
        """The interpreter's table and the instance in the shape of a MapperRow state (plain Python)."""
        if self.mode == "counter":
            snap = self.trc.snapshot()
            row = snap.get((1,), {"rows": {}})["rows"].get((1,))
            foreign = [k for k in snap if k != (1,)] + [k for k in snap.get((1,), {"rows": {}})["rows"] if k != (1,)]
            db = {"live": row is not None and "n" in row, "v": (row or {}).get("n", 0) or 0}
            if foreign:
                db["foreign"] = repr(foreign)
            inst = {"has": self.inst is not None, "n": 0}
            if self.inst is not None:
                inst["n"] = self.inst.n
            return {"db": db, "inst": inst}
        snap = self.tr.snapshot()
        part = snap.get((1,), {"static": {}, "rows": {}})
        rows = []
        for ck in (1, 2):
            r = part["rows"].get((ck,), {"marker": False})
            row = {"mk": bool(r.get("marker")), "a": self.spec_field("a", r.get("aa")), "b": self.spec_field("b", r.get("b"))}
            for f in ("s", "l", "m"):
                row[f] = self.spec_field(f, r.get(f))
            rows.append(row)
        db = {"st": self.spec_field("st", part["static"].get("st")), "rows": rows}
        foreign = [k for k in snap if k != (1,)] + [k for k in part["rows"] if k not in ((1,), (2,))]
        if foreign:
            db["foreign"] = repr(foreign)
        inst = {"has": self.inst is not None, "ck": 0, "cur": {f: self.spec_field(f, None) for f in self.FIELDS}}
        if self.inst is not None:
            inst["ck"] = self.inst.ck
            inst["cur"] = {f: self.spec_field(f, getattr(self.inst, f)) for f in self.FIELDS}
        return {"db": db, "inst": inst}

    @staticmethod
    def spec_projection(mode, node):
        """The same shape from a spec state."""
        if mode == "counter":
            return {"db": {"live": node["db"]["live"], "v": node["db"]["v"]},
                    "inst": {"has": node["inst"]["has"], "n": node["inst"]["n"]}}
        rows = []
        for r in node["db"]["rows"]:
            rows.append({"mk": r["mk"], "a": r["a"], "b": r["b"], "s": frozenset(r["s"]), "l": tuple(r["l"]), "m": tuple(r["m"])})
        cur = node["inst"]["cur"]
        return {"db": {"st": node["db"]["st"], "rows": rows},
                "inst": {"has": node["inst"]["has"], "ck": node["inst"]["ck"],
                         "cur": {"a": cur["a"], "b": cur["b"], "st": cur["st"], "s": frozenset(cur["s"]),
                                 "l": tuple(cur["l"]), "m": tuple(cur["m"])}}}

    @staticmethod
    def in_sync(mode, spec):
        """InSync / CInSync of MapperRow.tla on a projected spec state."""
        inst, db = spec["inst"], spec["db"]
        if not inst["has"]:
            return False
        if mode == "counter":
            return db["live"] and inst["n"] == db["v"]
        r = db["rows"][inst["ck"] - 1]
        visible = r["mk"] or r["a"] or r["b"] or r["s"] or r["l"] or any(r["m"])
        view = {"a": r["a"], "b": r["b"], "st": db["st"], "s": r["s"], "l": r["l"], "m": r["m"]}
        return bool(visible) and view == inst["cur"]

    def readback(self):
        """Read the instance's row again through the query set; -> None | description of the difference."""
        if self.inst is None:
            return None
        try:
            if self.mode == "counter":
                fresh = self.RC.objects(k=1, ck=1).get()
                if fresh.n != self.inst.n:
                    return "n: row %r, instance %r" % (fresh.n, self.inst.n)
                return None
            fresh = self.R.objects(k=1, ck=self.inst.ck).get()
        except self.models.Model.DoesNotExist:
            return "the row does not exist"
        except Exception as ex:          # noqa
            return "reading raised %s: %s" % (type(ex).__name__, ex)
        diffs = []
        for f in self.FIELDS:
            a, b = self.spec_field(f, getattr(fresh, f)), self.spec_field(f, getattr(self.inst, f))
            if a != b:
                diffs.append("%s: row %r, instance %r" % (f, getattr(fresh, f), getattr(self.inst, f)))
        return "; ".join(diffs) or None

    def statements(self):
        return [(" ".join(t.split()), _show_params(p or {})) for t, p in self.session.executed]


def diff_projection(spec, code, prefix=""):
    """Paths at which two projections differ."""
    out = []
    if isinstance(spec, dict) and isinstance(code, dict):
        for k in sorted(set(spec) | set(code)):
            if k not in spec or k not in code:
                out.append(prefix + k)
            else:
                out += diff_projection(spec[k], code[k], prefix + k + ".")
    elif isinstance(spec, list) and isinstance(code, list) and len(spec) == len(code):
        for i, (a, b) in enumerate(zip(spec, code)):
            out += diff_projection(a, b, prefix + "%d." % (i + 1))
    elif spec != code:
        out.append(prefix.rstrip("."))
    return out
