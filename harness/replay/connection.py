"""Binding between spec/Connection.tla and the real Connection / HostConnection / ResponseFuture.

One FakeNode, one simulated Cluster/Session (protocol v4), hence one HostConnection pool with one
SimConnection whose id space is shrunk to the spec's constants.  Client calls (execute_async) run as
DetSched logical threads so that Borrow and Send are separate steps; loop-thread callbacks
(process_msg, _on_timeout, socket error) are invoked atomically, as every shipped reactor does.
"""
from collections import deque

from harness.sim import simcluster
from harness.sim.simcluster import SimWorld, FakeNode, make_cluster
from harness.sim.detsched import DetSched, DRLock
from harness import wire

import cassandra
from cassandra.connection import ConnectionShutdown
from cassandra.policies import FallthroughRetryPolicy, RoundRobinPolicy, ConvictionPolicy
from cassandra.cluster import ExecutionProfile, EXEC_PROFILE_DEFAULT, NoHostAvailable
from cassandra.query import SimpleStatement


class NeverConvict(ConvictionPolicy):
    def add_failure(self, connection_exc):
        return False

    def reset(self):
        pass


class ConnHarness:
    VARS = ("free", "highest", "inflight", "reqs", "orphans", "srv", "st", "rid", "got", "errs", "defunct", "closed")

    def __init__(self, max_id, init_free, reqs):
        self.max_id, self.init_free, self.req_names = max_id, init_free, sorted(reqs)
        self.world = SimWorld()
        self.node = self.world.add_node(FakeNode("10.0.0.1"))
        profile = ExecutionProfile(load_balancing_policy=RoundRobinPolicy(), retry_policy=FallthroughRetryPolicy(),
                                   request_timeout=10.0)
        self.cluster = make_cluster(self.world, ["10.0.0.1"], execution_profiles={EXEC_PROFILE_DEFAULT: profile},
                                    conviction_policy_factory=NeverConvict)
        self.session = self.cluster.connect()
        self.cluster.executor.inline = False
        self.host = list(self.cluster.metadata.all_hosts())[0]
        self.pool = self.session._pools[self.host]
        self.conn = self.pool._connection
        c = self.conn
        assert c.in_flight == 0, "fresh pool connection should have nothing in flight"
        c.max_request_id = max_id
        c.request_ids = deque(range(init_free))
        c.highest_request_id = init_free - 1
        c.lock = DRLock("conn", yield_on_release=True)
        self.sched = DetSched()
        self._rid = {}
        orig_get = c.get_request_id

        def get_request_id():
            i = orig_get()
            t = self.sched.current_thread()
            if t is not None and t.name.startswith("C"):
                self._rid[int(t.name[1:])] = i
            return i
        c.get_request_id = get_request_id
        self.futures = {}
        self.started = set()
        self.borrowed = set()
        self.errs = {r: 0 for r in self.req_names}
        self.cbs = {r: 0 for r in self.req_names}
        self.late_adds = {r: 0 for r in self.req_names}

    # ------------------------------------------------------------ actions
    def _client(self, r):
        f = self.session.execute_async(SimpleStatement("SELECT %d" % r), timeout=10.0)
        self.futures[r] = f
        return f

    def do(self, act):
        name, r, rid = act["name"], act["r"], act["id"]
        getattr(self, "act_" + name)(r, rid)

    def act_Borrow(self, r, rid):
        self.sched.spawn("C%d" % r, self._client, r)
        self.started.add(r)
        lab = self.sched.step("C%d" % r)
        assert lab == "acq:conn", lab
        lab = self.sched.step("C%d" % r)
        assert lab == "rel:conn", lab
        self.borrowed.add(r)

    def act_Send(self, r, rid):
        self.sched.finish("C%d" % r)
        self.borrowed.discard(r)
        f = self.futures[r]
        f.add_callbacks(lambda res, r=r: self._cb(r, res), lambda exc, r=r: self._eb(r, exc))

    def _cb(self, r, res):
        self.cbs[r] += 1

    def _eb(self, r, exc):
        if isinstance(exc, ConnectionShutdown):
            self.errs[r] += 1

    def _pending(self, rid, q):
        for p in self.node.pending:
            if p.conn is self.conn and p.frame.stream == rid and p.req.get("query") == "SELECT %d" % q:
                return p
        raise AssertionError("node owes no answer for stream %s request %s; pending=%r" % (rid, q, self.node.pending))

    def act_Respond(self, r, rid, q=None):
        # the spec's action is Respond(id, q); act.r is the request that *received* it. The answer carries q's tag.
        cands = [p for p in self.node.pending if p.conn is self.conn and p.frame.stream == rid]
        assert len(cands) == 1, cands
        p = cands[0]
        tag = int(p.req["query"].split()[1])
        self.node.respond_rows(p, [("tag", wire.T_INT)], [[wire.w_int(tag)]])

    act_RespondLate = act_Respond

    def act_Timeout(self, r, rid):
        f = self.futures[r]
        self.world.fire(f._timer, advance=False)

    def act_SocketError(self, r, rid):
        self.conn.socket_error()

    def act_Close(self, r, rid):
        self.conn.close()

    # ------------------------------------------------------------ projection
    def _req_of_cb(self, cb):
        fut = getattr(getattr(cb, "func", None), "__self__", None)
        for r, f in self.futures.items():
            if f is fut:
                return r
        # the client thread has not returned yet: find through greenlet-local pending future
        for r in self.started:
            if r not in self.futures:
                return r
        return None

    def project(self):
        c = self.conn
        st, rid, got = {}, {}, {}
        for r in self.req_names:
            f = self.futures.get(r)
            if r not in self.started:
                st[r], rid[r], got[r] = "new", -1, frozenset()
                continue
            rid[r] = self._rid.get(r, -1)
            if f is None:
                st[r] = "borrowed"
                got[r] = frozenset()
                continue
            got[r] = frozenset()
            if f._final_exception is not None:
                e = f._final_exception
                if isinstance(e, cassandra.OperationTimedOut):
                    st[r] = "timedout"
                elif isinstance(e, ConnectionShutdown):
                    st[r] = "errored"
                elif isinstance(e, NoHostAvailable):
                    st[r] = "refused"
                else:
                    st[r] = "exc:" + type(e).__name__
            elif f._final_result is not cassandra.cluster._NOT_SET:
                st[r] = "done"
                rows = f._final_result or []
                got[r] = frozenset(row[0] for row in rows)
            else:
                st[r] = "sent"
        reqs = {}
        for i, (cb, _, _) in c._requests.items():
            reqs[i] = self._req_of_cb(cb)
        srv = frozenset((p.frame.stream, int(p.req["query"].split()[1])) for p in self.node.pending
                        if p.conn is c and p.req.get("op") == "QUERY")
        return {
            "free": tuple(c.request_ids), "highest": c.highest_request_id, "inflight": c.in_flight,
            "reqs": reqs, "orphans": frozenset(c.orphaned_request_ids), "srv": srv, "st": st, "rid": rid,
            "got": got, "errs": dict(self.errs), "defunct": bool(c.is_defunct), "closed": bool(c.is_closed),
        }

    def shutdown(self):
        try:
            self.cluster.shutdown()
        except Exception:
            pass


def spec_view(state):
    """Spec state -> the same shape as ConnHarness.project()."""
    def fn(v):
        if isinstance(v, tuple):          # function with domain 1..n printed as a tuple
            return {i + 1: x for i, x in enumerate(v)}
        return dict(v)
    return {
        "free": tuple(state["free"]), "highest": state["highest"], "inflight": state["inflight"],
        "reqs": fn(state["reqs"]), "orphans": frozenset(state["orphans"]),
        "srv": frozenset(tuple(m) for m in state["srv"]), "st": fn(state["st"]), "rid": fn(state["rid"]),
        "got": {k: frozenset(v) for k, v in fn(state["got"]).items()}, "errs": fn(state["errs"]),
        "defunct": state["defunct"], "closed": state["closed"],
    }


def diff(spec, real, skip=()):
    out = {}
    for k in ConnHarness.VARS:
        if k in skip:
            continue
        if spec[k] != real[k]:
            out[k] = {"spec": spec[k], "code": real[k]}
    return out


def replay(constants, states):
    """Replay one behaviour (list of spec states, first = Init). Returns None or a divergence dict."""
    h = ConnHarness(constants["MaxId"], constants["InitFree"], constants["Reqs"])
    try:
        d = diff(spec_view(states[0]), h.project())
        if d:
            return {"step": 0, "action": "Init", "diff": d}
        for i, s in enumerate(states[1:], 1):
            act = dict(s["act"])
            try:
                h.do(act)
            except AssertionError as ex:
                return {"step": i, "action": act, "diff": {"_refused": {"spec": "enabled", "code": "harness could not perform: %s" % ex}}}
            real = h.project()
            sv = spec_view(s)
            # rid of a borrowed request is read from the suspended frame; of finished ones from the future
            d = diff(sv, real)
            if d:
                return {"step": i, "action": act, "diff": d}
        return None
    finally:
        h.shutdown()


# ---------------------------------------------------------------------- recording (code -> spec)
def _post(p, reqs):
    return {
        "inflight": p["inflight"], "highest": p["highest"], "free": list(p["free"]),
        "orphans": sorted(p["orphans"]), "reqs": sorted([i, r] for i, r in p["reqs"].items()),
        "srv": sorted(list(m) for m in p["srv"]),
        "st": [p["st"][r] for r in reqs], "rid": [p["rid"][r] for r in reqs],
        "got": [sorted(p["got"][r]) for r in reqs], "errs": [p["errs"][r] for r in reqs],
        "defunct": p["defunct"], "closed": p["closed"],
    }


def record(constants, rng, max_events=40, p_fail=0.04):
    """Drive the real objects with random enabled operations; return the list of events."""
    reqs = sorted(constants["Reqs"])
    h = ConnHarness(constants["MaxId"], constants["InitFree"], reqs)
    events = []
    try:
        while len(events) < max_events:
            c = h.conn
            dead = c.is_closed or c.is_defunct
            ops = []
            for r in reqs:
                if r not in h.started and not dead and c.in_flight < c.max_request_id:
                    ops.append(("Borrow", r))
                if r in h.borrowed:
                    ops.append(("Send", r))
                f = h.futures.get(r)
                if f is not None and not dead and f._final_exception is None and \
                        f._final_result is cassandra.cluster._NOT_SET and f._timer is not None and not f._timer.canceled:
                    ops.append(("Timeout", r))
            if not dead:
                for p in h.node.pending:
                    if p.conn is c:
                        ops.append(("Respond", p))
                        ops.append(("Respond", p))
                if rng.random() < p_fail:
                    ops.append((rng.choice(["SocketError", "Close"]), None))
            if not ops:
                break
            op, arg = rng.choice(ops)
            ev = {"e": op}
            try:
                if op == "Respond":
                    ev["id"] = arg.frame.stream
                    ev["q"] = int(arg.req["query"].split()[1])
                    h.act_Respond(None, ev["id"])
                elif op in ("SocketError", "Close"):
                    getattr(h, "act_" + op)(None, -1)
                else:
                    ev["r"] = arg
                    getattr(h, "act_" + op)(arg, -1)
                ev["post"] = _post(h.project(), reqs)
            except Exception as ex:          # the real objects left the envelope the harness can drive
                ev = {"e": "Anomaly", "during": dict(ev), "what": "%s: %s" % (type(ex).__name__, ex)}
                events.append(ev)
                break
            events.append(ev)
        return events
    finally:
        h.shutdown()
