"""Binding between spec/Connection.tla and the real Connection / HostConnection / ResponseFuture.

One FakeNode, one simulated Cluster/Session (protocol v4), hence one HostConnection pool with one
SimConnection whose id space is shrunk to the spec's constants.  Client calls (execute_async) run as
DetSched logical threads so that Borrow and Send are separate steps; loop-thread callbacks
(process_msg, _on_timeout, socket error) are invoked atomically, as every shipped reactor does.
"""
from collections import deque

from harness.sim import simcluster
from harness.sim.simcluster import SimWorld, FakeNode, make_cluster
from harness.sim.detsched import DetSched, DRLock
from harness import wire

import cassandra
from cassandra.connection import ConnectionShutdown
from cassandra.policies import FallthroughRetryPolicy, RoundRobinPolicy, ConvictionPolicy
from cassandra.cluster import ExecutionProfile, EXEC_PROFILE_DEFAULT, NoHostAvailable
from cassandra.query import SimpleStatement


class NeverConvict(ConvictionPolicy):
    def add_failure(self, connection_exc):
        return False

    def reset(self):
        pass


class HandlerRaises(Exception):
    """Raised by a request handler on purpose (the connection must isolate handler failures)."""


def install_counting_future():
    """Replace cassandra.cluster.ResponseFuture by a subclass that reports every invocation of the
    connection-level handler (_set_result) to the current harness and, for chosen requests, raises
    afterwards when the delivery was a connection error."""
    import cassandra.cluster as cc
    base = getattr(cc, "_verif_orig_ResponseFuture", None) or cc.ResponseFuture
    cc._verif_orig_ResponseFuture = base

    class CountingFuture(base):
        def __init__(self, *a, **k):
            base.__init__(self, *a, **k)
            h = ConnHarness.current
            if h is not None:
                try:
                    h.futures[int(self.query.query_string.split()[1])] = self
                except Exception:
                    pass

        def _set_result(self, host, connection, pool, response):
            h = ConnHarness.current
            r = None
            if h is not None:
                r = h.req_of_future(self)
                # every error delivered to the connection-level handler: a connection error, the decode error of an
                # undecodable answer, a protocol-error frame
                if r is not None and (isinstance(response, Exception) or
                                      getattr(response, "summary", "") == "Protocol error"):
                    h.errs[r] += 1
            base._set_result(self, host, connection, pool, response)
            if h is not None and r in h.raisers and isinstance(response, ConnectionShutdown):
                raise HandlerRaises("handler of request %s raises" % r)
    cc.ResponseFuture = CountingFuture


def yielding_handler():
    """A ProtocolHandler whose encode_message is a DetSched yield point ("encode"): the place inside
    Connection.send_msg between registering the handler and pushing the frame."""
    import cassandra.protocol as cp
    from harness.sim.detsched import yield_point

    class YieldingHandler(cp.ProtocolHandler):
        @classmethod
        def encode_message(cls, msg, stream_id, protocol_version, compressor, allow_beta_protocol_version):
            yield_point("encode")
            return super(YieldingHandler, cls).encode_message(msg, stream_id, protocol_version, compressor,
                                                              allow_beta_protocol_version)
    return YieldingHandler


class ConnHarness:
    VARS = ("dfn", "avail", "dupfree", "inflight", "reqs", "orphans", "srv", "st", "ph", "rid", "got", "errs", "cps", "pages", "cperr",
            "defunct", "closed", "writable")
    current = None
    DSE_V1 = 65

    def __init__(self, max_id, init_free, reqs, cp_reqs=(), raisers=()):
        self.max_id, self.init_free, self.req_names = max_id, init_free, sorted(reqs)
        self.cp_reqs = set(cp_reqs)
        self.raisers = set(raisers)
        ConnHarness.current = self
        install_counting_future()
        self.world = SimWorld()
        self.node = self.world.add_node(FakeNode("10.0.0.1", versions=(3, 4, self.DSE_V1)))
        profile = ExecutionProfile(load_balancing_policy=RoundRobinPolicy(), retry_policy=FallthroughRetryPolicy(),
                                   request_timeout=10.0)
        from cassandra.cluster import ContinuousPagingOptions
        cp_profile = ExecutionProfile(load_balancing_policy=RoundRobinPolicy(), retry_policy=FallthroughRetryPolicy(),
                                      request_timeout=10.0, continuous_paging_options=ContinuousPagingOptions())
        self.cluster = make_cluster(self.world, ["10.0.0.1"], protocol_version=self.DSE_V1,
                                    execution_profiles={EXEC_PROFILE_DEFAULT: profile, "cp": cp_profile},
                                    conviction_policy_factory=NeverConvict)
        self.session = self.cluster.connect()
        self.session.client_protocol_handler = yielding_handler()
        self.cluster.executor.inline = False
        self.host = list(self.cluster.metadata.all_hosts())[0]
        self.pool = self.session._pools[self.host]
        self.conn = self.pool._connection
        c = self.conn
        assert c.in_flight == 0, "fresh pool connection should have nothing in flight"
        c.max_request_id = max_id
        c.request_ids = deque(range(init_free))
        c.highest_request_id = init_free - 1
        c.lock = DRLock("conn", yield_on_release=True)
        self.sched = DetSched()
        self._rid = {}
        # renaming of stream ids, code -> spec (a permutation of 0..max_id): the exhaustive model hands out the least
        # available id, the code whichever it likes; the property does not say which (see Connection.tla, AnyId)
        self.pi = {i: i for i in range(max_id + 1)}
        self._rid_name = {}
        self.dfn = "none"
        orig_get = c.get_request_id

        def get_request_id():
            i = orig_get()
            t = self.sched.current_thread()
            if t is not None and t.name.startswith("C"):
                self._rid[int(t.name[1:])] = i
            return i
        c.get_request_id = get_request_id
        self.futures = {}
        self.started = set()
        self.borrowed = set()
        self.sending = set()
        self.returned = set()
        self.errs = {r: 0 for r in self.req_names}
        self.cbs = {r: 0 for r in self.req_names}
        self.late_adds = {r: 0 for r in self.req_names}

    # ------------------------------------------------------------ actions
    def _client(self, r):
        f = self.session.execute_async(SimpleStatement("SELECT %d" % r), timeout=10.0,
                                       execution_profile="cp" if r in self.cp_reqs else EXEC_PROFILE_DEFAULT)
        self.futures[r] = f
        self.returned.add(r)
        return f

    def req_of_future(self, fut):
        for r, f in self.futures.items():
            if f is fut:
                return r
        try:
            return int(fut.query.query_string.split()[1])
        except Exception:
            return None

    def do(self, act):
        name, r, rid = act["name"], act["r"], act["id"]
        if name == "Borrow":
            before = self.project(raw=True)["avail"]
            self.act_Borrow(r, rid)
            c = self._rid.get(r, -1)
            if c not in self.pi:
                raise AssertionError("get_request_id handed out %r, outside 0..%d" % (c, self.max_id))
            if c not in before:
                raise AssertionError("get_request_id handed out %r, which was not available (available: %s)" % (c, sorted(before)))
            if self.pi[c] != rid:               # the spec calls this id `rid`: swap the names of two available ids
                c2 = next(k for k, v in self.pi.items() if v == rid)
                self.pi[c], self.pi[c2] = rid, self.pi[c]
            self._rid_name[r] = rid              # a request's id keeps the name it had when it was handed out
            return
        inv = {v: k for k, v in self.pi.items()}
        getattr(self, "act_" + name)(r, inv.get(rid, rid))

    def act_Borrow(self, r, rid):
        self.sched.spawn("C%d" % r, self._client, r)
        self.started.add(r)
        lab = self.sched.step("C%d" % r)
        assert lab == "acq:conn", lab
        lab = self.sched.step("C%d" % r)
        assert lab == "rel:conn", lab
        self.borrowed.add(r)

    def act_Send(self, r, rid):
        lab = self.sched.run_until("C%d" % r, "encode")
        self.borrowed.discard(r)
        if lab == "encode":
            self.sending.add(r)
        else:
            self._returned(r)

    def act_Push(self, r, rid):
        self.sched.finish("C%d" % r)
        self.sending.discard(r)
        self._returned(r)

    def _returned(self, r):
        f = self.futures[r]
        f.add_callbacks(lambda res, r=r: self._cb(r, res), lambda exc, r=r: self._eb(r, exc))

    def act_TimeoutStale(self, r, rid):
        self.futures[r]._on_timeout()

    def _cb(self, r, res):
        self.cbs[r] += 1

    def _eb(self, r, exc):
        pass

    def _pending(self, rid, q):
        for p in self.node.pending:
            if p.conn is self.conn and p.frame.stream == rid and p.req.get("query") == "SELECT %d" % q:
                return p
        raise AssertionError("node owes no answer for stream %s request %s; pending=%r" % (rid, q, self.node.pending))

    def act_Respond(self, r, rid, q=None):
        # the spec's action is Respond(id, q); act.r is the request that *received* it. The answer carries q's tag.
        cands = [p for p in self.node.pending if p.conn is self.conn and p.frame.stream == rid]
        assert len(cands) == 1, cands
        p = cands[0]
        tag = int(p.req["query"].split()[1])
        self.node.respond_rows(p, [("tag", wire.T_INT)], [[wire.w_int(tag)]])

    act_RespondLate = act_Respond

    def act_RespondCorrupt(self, r, rid):
        cands = [p for p in self.node.pending if p.conn is self.conn and p.frame.stream == rid]
        assert len(cands) == 1, cands
        # a ROWS result whose metadata is cut short: the decoder raises
        self.node.respond(cands[0], wire.RESULT, wire.w_int(wire.RESULT_ROWS) + wire.w_int(1) + b"\x00")

    def act_RespondProtoError(self, r, rid):
        cands = [p for p in self.node.pending if p.conn is self.conn and p.frame.stream == rid]
        assert len(cands) == 1, cands
        self.node.respond_error(cands[0], 0x000A, "scripted protocol error")

    def _page(self, rid, last):
        cands = [p for p in self.node.pending if p.conn is self.conn and p.frame.stream == rid]
        assert len(cands) == 1, cands
        p = cands[0]
        tag = int(p.req["query"].split()[1])
        seq = getattr(p, "_pages", 0) + 1
        try:
            p._pages = seq
        except AttributeError:
            self._page_counts[id(p)] = seq
        body = wire.body_rows([("tag", wire.T_INT)], [[wire.w_int(tag)]], cp_seq=seq, cp_last=last)
        if last:
            self.node.take(p)
        self.node.send(p.conn, p.frame.version, p.frame.stream, wire.RESULT, body)

    def act_FirstPage(self, r, rid):
        self._page(rid, False)

    def act_Page(self, r, rid):
        self._page(rid, False)

    def act_OnlyPage(self, r, rid):
        self._page(rid, True)

    def act_LastPage(self, r, rid):
        self._page(rid, True)

    def act_Timeout(self, r, rid):
        f = self.futures[r]
        self.world.fire(f._timer, advance=False)

    def act_SocketBusy(self, r, rid):
        self.conn._socket_writable = False          # what the libev reactor does when its write buffer is full

    def act_SocketWritable(self, r, rid):
        self.conn._socket_writable = True

    def act_SocketError(self, r, rid):
        self.conn.socket_error()

    def act_Close(self, r, rid):
        self.conn.close()

    # defunct() called by the heartbeat thread, concurrently with the loop thread's own socket error
    def act_HbDefunctBegin(self, r, rid):
        from cassandra.connection import ConnectionException
        self.sched.spawn("H", self.conn.defunct, ConnectionException("heartbeat failed (scripted)"))
        lab = self.sched.run_until("H", "rel:conn")        # through the guard's critical section
        assert lab == "rel:conn", lab
        self.dfn = "begun"

    def act_SocketErrorDuringDefunct(self, r, rid):
        self.conn.socket_error()
        self.dfn = "begun2"

    def act_HbDefunctFinish(self, r, rid):
        self.sched.finish("H")
        self.dfn = "done"

    # ------------------------------------------------------------ projection
    def _req_of_cb(self, cb):
        fut = getattr(getattr(cb, "func", None), "__self__", None)
        for r, f in self.futures.items():
            if f is fut:
                return r
        # the client thread has not returned yet: find through greenlet-local pending future
        for r in self.started:
            if r not in self.futures:
                return r
        return None

    def project(self, raw=False):
        """Projection of the real objects; stream ids are given their specification names (self.pi) unless raw."""
        c = self.conn
        m = (lambda i: i) if raw else (lambda i: self.pi.get(i, i))
        st, rid, got = {}, {}, {}
        for r in self.req_names:
            f = self.futures.get(r)
            if r not in self.started:
                st[r], rid[r], got[r] = "new", -1, frozenset()
                continue
            rid[r] = self._rid.get(r, -1) if raw else self._rid_name.get(r, m(self._rid.get(r, -1)))
            if f is None or r in self.borrowed:
                st[r] = "borrowed"
                got[r] = frozenset()
                continue
            got[r] = frozenset()
            if f._final_exception is not None:
                e = f._final_exception
                if isinstance(e, cassandra.OperationTimedOut):
                    st[r] = "timedout"
                elif isinstance(e, ConnectionShutdown):
                    st[r] = "errored"
                elif isinstance(e, NoHostAvailable):
                    st[r] = "refused"
                elif self.errs.get(r):
                    st[r] = "failed"          # its own answer was undecodable / a protocol error
                else:
                    st[r] = "exc:" + type(e).__name__
            elif f._final_result is not cassandra.cluster._NOT_SET:
                st[r] = "done"
                if f._continuous_paging_session is not None:
                    sess = f._continuous_paging_session
                    got[r] = frozenset(row[0] for (n, rows, err) in sess._page_queue if err is None for row in rows)
                else:
                    rows = f._final_result or []
                    got[r] = frozenset(row[0] for row in rows)
            else:
                st[r] = "sending" if r in self.sending else "sent"
        reqs = {}
        for i, (cb, _, _) in c._requests.items():
            reqs[m(i)] = self._req_of_cb(cb)
        srv = frozenset((m(p.frame.stream), int(p.req["query"].split()[1])) for p in self.node.pending
                        if p.conn is c and p.req.get("op") == "QUERY")
        cps, pages, cperr = {}, {r: 0 for r in self.req_names}, {r: 0 for r in self.req_names}
        for r, f in self.futures.items():
            sess = f._continuous_paging_session
            if sess is None:
                continue
            for sid, s2 in c._continuous_paging_sessions.items():
                if s2 is sess:
                    cps[m(sid)] = r
            pages[r] = sum(1 for (n, rows, err) in sess._page_queue if err is None)
            cperr[r] = sum(1 for (n, rows, err) in sess._page_queue if err is not None)
        for sid, s2 in c._continuous_paging_sessions.items():
            if m(sid) not in cps:
                cps[m(sid)] = None
        # what get_request_id can still hand out: the deque plus the ids it has not created yet
        pool_ids = list(c.request_ids)
        avail = frozenset(m(i) for i in pool_ids) | frozenset(m(i) for i in range(c.highest_request_id + 1, c.max_request_id + 1))
        return {
            "dfn": self.dfn, "avail": avail, "dupfree": len(set(pool_ids)) != len(pool_ids) or any(i > c.highest_request_id for i in pool_ids),
            "inflight": c.in_flight,
            "reqs": reqs, "orphans": frozenset(m(i) for i in c.orphaned_request_ids), "srv": srv, "st": st,
            "ph": {r: ("encode" if r in self.sending else "none") for r in self.req_names}, "rid": rid,
            "got": got, "errs": dict(self.errs), "cps": cps, "pages": pages, "cperr": cperr,
            "defunct": bool(c.is_defunct), "closed": bool(c.is_closed), "writable": bool(c._socket_writable),
        }

    def shutdown(self):
        try:
            self.cluster.shutdown()
        except Exception:
            pass


def spec_view(state):
    """Spec state -> the same shape as ConnHarness.project()."""
    def fn(v):
        if isinstance(v, tuple):          # function with domain 1..n printed as a tuple
            return {i + 1: x for i, x in enumerate(v)}
        return dict(v)
    return {
        "dfn": str(state["dfn"]), "avail": frozenset(state["avail"]), "dupfree": False, "inflight": state["inflight"],
        "reqs": fn(state["reqs"]), "orphans": frozenset(state["orphans"]),
        "srv": frozenset(tuple(m) for m in state["srv"]), "st": fn(state["st"]), "ph": fn(state["ph"]), "rid": fn(state["rid"]),
        "got": {k: frozenset(v) for k, v in fn(state["got"]).items()}, "errs": fn(state["errs"]),
        "cps": fn(state["cps"]), "pages": fn(state["pages"]), "cperr": fn(state["cperr"]),
        "defunct": state["defunct"], "closed": state["closed"], "writable": state["writable"],
    }


def diff(spec, real, skip=()):
    out = {}
    for k in ConnHarness.VARS:
        if k in skip:
            continue
        if spec[k] != real[k]:
            out[k] = {"spec": spec[k], "code": real[k]}
    return out


def replay(constants, states, raisers=()):
    """Replay one behaviour (list of spec states, first = Init). Returns None or a divergence dict."""
    h = ConnHarness(constants["MaxId"], constants["InitFree"], constants["Reqs"], constants.get("CPReqs", ()), raisers)
    try:
        d = diff(spec_view(states[0]), h.project())
        if d:
            return {"step": 0, "action": "Init", "diff": d}
        for i, s in enumerate(states[1:], 1):
            act = dict(s["act"])
            try:
                h.do(act)
            except AssertionError as ex:
                return {"step": i, "action": act, "diff": {"_refused": {"spec": "enabled", "code": "harness could not perform: %s" % ex}}}
            except Exception as ex:          # noqa: BLE001 - the code under test raised inside a callback / client call
                import traceback
                tb = traceback.extract_tb(ex.__traceback__)
                where = next(("%s:%d" % (f.filename.rsplit("/", 1)[-1], f.lineno) for f in reversed(tb) if "/cassandra/" in f.filename), "?")
                if where == "?":
                    raise                    # not the driver's code: a harness problem, reported as machinery failure
                return {"step": i, "action": act,
                        "diff": {"_raised": {"spec": "completes", "code": "%s: %s (at %s)" % (type(ex).__name__, ex, where)}}}
            real = h.project()
            sv = spec_view(s)
            # rid of a borrowed request is read from the suspended frame; of finished ones from the future
            d = diff(sv, real)
            if d:
                return {"step": i, "action": act, "diff": d}
        return None
    finally:
        h.shutdown()


# ---------------------------------------------------------------------- recording (code -> spec)
def _post(p, reqs):
    return {
        "inflight": p["inflight"], "avail": sorted(p["avail"]),
        "orphans": sorted(p["orphans"]), "reqs": sorted([i, r] for i, r in p["reqs"].items()),
        "srv": sorted(list(m) for m in p["srv"]),
        "st": [p["st"][r] for r in reqs], "ph": [p["ph"][r] for r in reqs], "rid": [p["rid"][r] for r in reqs],
        "got": [sorted(p["got"][r]) for r in reqs], "errs": [p["errs"][r] for r in reqs],
        "cps": sorted([i, r] for i, r in p["cps"].items()), "pages": [p["pages"][r] for r in reqs],
        "cperr": [p["cperr"][r] for r in reqs],
        "defunct": p["defunct"], "closed": p["closed"], "writable": p["writable"],
    }


def record(constants, rng, max_events=40, p_fail=0.04):
    """Drive the real objects with random enabled operations; return the list of events."""
    reqs = sorted(constants["Reqs"])
    raisers = [r for r in reqs if rng.random() < 0.3]
    h = ConnHarness(constants["MaxId"], constants["InitFree"], reqs, constants.get("CPReqs", ()), raisers)
    max_pages = constants.get("MaxPages", 1)
    events = []
    try:
        while len(events) < max_events:
            c = h.conn
            dead = c.is_closed or c.is_defunct
            ops = []
            for r in reqs:
                if r not in h.started and not dead and c.in_flight < c.max_request_id and \
                        (c.request_ids or c.highest_request_id < c.max_request_id):
                    ops.append(("Borrow", r))
                if r in h.borrowed:
                    ops.append(("Send", r))
                if r in h.sending:
                    ops.append(("Push", r))
                fs = h.futures.get(r)
                if fs is not None and r in h.returned and not dead and r not in h.cp_reqs and \
                        fs._final_result is not cassandra.cluster._NOT_SET and fs._req_id is not None and \
                        fs._req_id not in c._requests and fs._req_id not in c._continuous_paging_sessions and rng.random() < 0.1:
                    ops.append(("TimeoutStale", r))
                f = h.futures.get(r)
                if f is not None and r in h.returned and not dead and r not in h.cp_reqs and f._final_exception is None and \
                        f._final_result is cassandra.cluster._NOT_SET and f._timer is not None and not f._timer.canceled:
                    ops.append(("Timeout", r))
            if not dead:
                for p in h.node.pending:
                    if p.conn is c:
                        tag = int(p.req["query"].split()[1])
                        if tag in h.cp_reqs:
                            sent = getattr(p, "_pages", 0)
                            if sent + 1 < max_pages:
                                ops.append(("Page", (p, False)))
                            ops.append(("Page", (p, True)))
                        else:
                            ops.append(("Respond", p))
                            ops.append(("Respond", p))
                            if constants.get("BadAnswers") and rng.random() < 0.12 and len(c._requests) >= 2 and \
                                    p.frame.stream in c._requests:
                                ops.append((rng.choice(["RespondCorrupt", "RespondProtoError"]), p))
                if rng.random() < 0.08:
                    ops.append(("SocketWritable" if not c._socket_writable else "SocketBusy", None))
                npend = len(c._requests)
                if rng.random() < p_fail * (1 + 4 * max(0, npend - 1)):       # fail more often when several are pending
                    ops = [(rng.choice(["SocketError", "Close"]), None)]
            if not ops:
                break
            op, arg = rng.choice(ops)
            ev = {"e": op}
            try:
                if op in ("Respond", "RespondCorrupt", "RespondProtoError"):
                    ev["id"] = arg.frame.stream
                    ev["q"] = int(arg.req["query"].split()[1])
                    getattr(h, "act_" + op)(None, ev["id"])
                elif op == "Page":
                    p, last = arg
                    ev["id"] = p.frame.stream
                    ev["q"] = int(p.req["query"].split()[1])
                    ev["last"] = last
                    h._page(ev["id"], last)
                elif op in ("SocketError", "Close", "SocketBusy", "SocketWritable"):
                    getattr(h, "act_" + op)(None, -1)
                else:
                    ev["r"] = arg
                    getattr(h, "act_" + op)(arg, -1)
                pr = h.project(raw=True)
                if pr["dupfree"]:
                    raise RuntimeError("the id deque holds an id twice, or an id it never created: %s" % list(h.conn.request_ids))
                ev["post"] = _post(pr, reqs)
            except Exception as ex:          # the real objects left the envelope the harness can drive
                ev = {"e": "Anomaly", "during": dict(ev), "what": "%s: %s" % (type(ex).__name__, ex)}
                events.append(ev)
                break
            events.append(ev)
        return events
    finally:
        h.shutdown()
