"""Walks through a TLC state graph that cover every edge (and nothing more).

tlc.graph_walks() tops the covering walks up with random ones until max_walks; the checks that replay
every edge of a (tree-like) graph exactly once want only the covering part."""
from collections import deque


def covering_walks(edges, init, max_len=10 ** 9):
    """List of walks (lists of node ids, each starting in an initial state) such that every edge reachable
    from an initial state is on at least one walk."""
    succ = {}
    for s, d, _ in edges:
        succ.setdefault(s, []).append(d)
    parent = {}
    dq = deque()
    for i in init:
        parent[i] = None
        dq.append(i)
    order = []
    while dq:
        u = dq.popleft()
        order.append(u)
        for v in succ.get(u, ()):
            if v not in parent:
                parent[v] = u
                dq.append(v)

    def prefix(n):
        p = []
        while n is not None:
            p.append(n)
            n = parent[n]
        return p[::-1]

    uncovered = {}
    for s, d, _ in edges:
        if s in parent:
            uncovered.setdefault(s, set()).add(d)
    walks = []
    # deepest sources first: a walk to a deep edge covers the edges of its BFS prefix on the way
    for s in reversed(order):
        while uncovered.get(s):
            d = next(iter(uncovered[s]))
            w = prefix(s) + [d]
            for a, b in zip(w, w[1:]):
                if a in uncovered:
                    uncovered[a].discard(b)
            cur = d
            while len(w) < max_len and uncovered.get(cur):
                v = next(iter(uncovered[cur]))
                uncovered[cur].discard(v)
                w.append(v)
                cur = v
            walks.append(w)
    return walks
