"""Binding between spec/ColumnValues.tla and cassandra.cqlengine.columns / cassandra.cqltypes (C36).

A TLC state of ColumnValues.tla (Codec.tla's variables) is a case: ty (column type tree), val (the abstract Python value:
a leaf is [form, payload]; composites are lists of options as in Codec.tla), norm (the CQL value it denotes), enc (its
bytes), img (all acceptable byte strings: two for a timestamp reading without an exact millisecond), expect
("ok" | "inexact" | "open").

leaf kind    form         Python value
  timestamp  naive        datetime.datetime(y, m, d, h, mi, s, us)
             aware        the same with tzinfo = ReadingZone(at1970, now): utcoffset() is `now` minutes at the reading and
                          `at1970` minutes when asked about 1970-01-01 (a zone whose offset changed / daylight saving time)
             date         datetime.date(y, m, d)
  date       date / Date / text / datetime     datetime.date | cassandra.util.Date(days) | 'yyyy-mm-dd' | datetime(y, m, d, 23, 59, 59)
  time       Time / int / text / time          cassandra.util.Time(ns) | int ns | 'hh:mm:ss.nnnnnnnnn' | datetime.time
  float, double  float / int                   the number the IEEE fields denote | int of it
  varint, bigint, counter   int                +-int.from_bytes(mag)
  decimal    Decimal / int                     decimal.Decimal((sign, digits, -scale)) | int (scale 0)
  uuid, timeuuid  UUID / text                  uuid.UUID | its canonical text
  blob       bytes / bytearray ;  inet  str / ipaddress ;  text, ascii  str ;  boolean  bool ;  duration  util.Duration
  list -> list, set -> set, map -> dict, tuple -> tuple (None for a null field), udt -> instance of a cqlengine UserType

The judgement of a case (judge): for protocol versions 4 and 5
  cqlengine   column.to_database(value) - also column.to_database(column.validate(value)), the path Model.save takes -
              serialised the way a prepared statement would (the core type's serialize) must be the specification's bytes;
  core        the core type's serialize of the ORIGINAL value must be the specification's bytes as well;
sets and maps are compared up to the order of their entries (both byte strings are parsed structurally, canon()).
Every leaf of a composite is also judged on its own, so that a deviation is attributed to the column class that causes it.
"""
import datetime
import decimal
import ipaddress
import math
import uuid

from harness.replay import codec as CD

PVS = (4, 5)
SCALAR_CLASS = dict(CD.SCALAR_CLASS, float="FloatType", double="DoubleType")
COLUMN_CLASS = {"text": "Text", "ascii": "Ascii", "int": "Integer", "bigint": "BigInt", "smallint": "SmallInt", "tinyint": "TinyInt",
                "varint": "VarInt", "boolean": "Boolean", "float": "Float", "double": "Double", "decimal": "Decimal", "uuid": "UUID",
                "timeuuid": "TimeUUID", "blob": "Blob", "inet": "Inet", "date": "Date", "time": "Time", "timestamp": "DateTime",
                "duration": "Duration", "counter": "Counter"}


AROUND_1970 = ((1969, 12, 31), (1970, 1, 1), (1970, 1, 2))


class Machinery(Exception):
    """the harness cannot build what the specification describes (never a verdict about the driver)"""


class ReadingZone(datetime.tzinfo):
    """the time zone of one reading: `now` minutes east of UTC at the reading, `at1970` minutes on 1970-01-01"""

    def __init__(self, at1970, now):
        self.at1970, self.now = at1970, now

    def utcoffset(self, dt):
        if dt is not None and (dt.year, dt.month, dt.day) in AROUND_1970:
            return datetime.timedelta(minutes=self.at1970)
        return datetime.timedelta(minutes=self.now)

    def dst(self, dt):
        return datetime.timedelta(0)

    def tzname(self, dt):
        return "R%+d/%+d" % (self.at1970, self.now)

    def __repr__(self):
        return "ReadingZone(at1970=%+dmin, now=%+dmin)" % (self.at1970, self.now)

    def __deepcopy__(self, memo):
        return self


class SharedZone(datetime.tzinfo):
    """ONE tzinfo object for several readings of a zone (the "calls" family): answers with the offset in force at the
    datetime it is asked about - looked up by wall-clock fields and fold - and with `at1970` for anything else"""

    def __init__(self, at1970, readings):
        self.at1970 = at1970
        self.table = {(tuple(p["ymd"]) + tuple(p["hms"]), p["fold"]): p["zone"][1] for p in readings}

    def utcoffset(self, dt):
        if dt is None:
            return datetime.timedelta(minutes=self.at1970)
        key = ((dt.year, dt.month, dt.day, dt.hour, dt.minute, dt.second), dt.fold)
        return datetime.timedelta(minutes=self.table.get(key, self.at1970))

    def dst(self, dt):
        return datetime.timedelta(0)

    def tzname(self, dt):
        return "S%+d" % self.at1970

    def __repr__(self):
        return "SharedZone(at1970=%+dmin, %d readings)" % (self.at1970, len(self.table))

    def __deepcopy__(self, memo):
        return self


def is_calls(t):
    return t[0] == "calls"


def calls_datetimes(readings):
    """the datetimes of a "calls" case: all carry the SAME tzinfo object"""
    if len({p["zone"][0] for p in readings}) != 1:
        raise Machinery("readings of different zones in one calls case")
    zone = SharedZone(readings[0]["zone"][0], readings)
    out = []
    for p in readings:
        y, m, d = p["ymd"]
        h, mi, s = p["hms"]
        dt = datetime.datetime(y, m, d, h, mi, s, p["us"], tzinfo=zone, fold=p["fold"])
        if dt.utcoffset() != datetime.timedelta(minutes=p["zone"][1]):
            raise Machinery("the shared zone does not answer %r with %+d min" % (dt, p["zone"][1]))
        out.append(dt)
    return out


class Env(object):
    """the driver modules under test + caches of columns / types built from type trees"""

    def __init__(self):
        from harness.pyenv import repo_import
        repo_import("cassandra.cluster")                       # installs the reactor shim cassandra.cluster needs
        self.columns = repo_import("cassandra.cqlengine.columns")
        self.usertype = repo_import("cassandra.cqlengine.usertype")
        self.cqltypes = repo_import("cassandra.cqltypes")
        self.util = repo_import("cassandra.util")
        self._cols, self._types, self._udts = {}, {}, {}

    # ---- the cqlengine column of a type tree
    def column(self, t):
        key = CD.tkey(t)
        if key not in self._cols:
            self._cols[key] = self._make_column(t)
        return self._cols[key]

    def _make_column(self, t):
        C = self.columns
        k = t[0]
        if CD.is_scalar(t):
            return getattr(C, COLUMN_CLASS[k])()
        if k == "list":
            return C.List(self._make_column(t[1]))
        if k == "set":
            return C.Set(self._make_column(t[1]))
        if k == "map":
            return C.Map(self._make_column(t[1]), self._make_column(t[2]))
        if k == "tuple":
            return C.Tuple(*[self._make_column(x) for x in t[1]])
        if k == "udt":
            return C.UserDefinedType(self.udt_class(t))
        raise Machinery("no column for %r" % (t,))

    def udt_class(self, t):
        key = CD.tkey(t)
        if key not in self._udts:
            fields = {n: self._make_column(x) for n, x in zip(CD.field_names(t), t[1])}
            self._udts[key] = type(CD.udt_name(t), (self.usertype.UserType,), fields)
        return self._udts[key]

    # ---- the core type, looked up independently of the column
    def core_type(self, t):
        key = CD.tkey(t)
        if key not in self._types:
            self._types[key] = self.cqltypes.lookup_casstype(cass_name(t))
        return self._types[key]


def cass_name(t, nested=False):
    k = t[0]
    P = CD.PREFIX
    if CD.is_scalar(t):
        return P + SCALAR_CLASS[k]
    if k == "list":
        s = "%sListType(%s)" % (P, cass_name(t[1], True))
    elif k == "set":
        s = "%sSetType(%s)" % (P, cass_name(t[1], True))
    elif k == "map":
        s = "%sMapType(%s,%s)" % (P, cass_name(t[1], True), cass_name(t[2], True))
    elif k == "tuple":
        return "%sTupleType(%s)" % (P, ",".join(cass_name(x, True) for x in t[1]))
    elif k == "udt":
        fields = ",".join("%s:%s" % (n.encode().hex(), cass_name(x, True)) for n, x in zip(CD.field_names(t), t[1]))
        return "%sUserType(ks,%s,%s)" % (P, CD.udt_name(t).encode().hex(), fields)
    else:
        raise Machinery(t)
    return "%sFrozenType(%s)" % (P, s) if nested else s


def cql_name(t):
    k = t[0]
    if k == "calls":
        return "timestamp (conversions one after the other, one zone object)"
    if CD.is_scalar(t):
        return k
    if k in ("list", "set"):
        return "%s<%s>" % (k, cql_name(t[1]))
    if k == "map":
        return "map<%s, %s>" % (cql_name(t[1]), cql_name(t[2]))
    return "%s<%s>" % (k, ", ".join(cql_name(x) for x in t[1]))


# ------------------------------------------------------------------ abstract value -> Python value

def reading_datetime(p):
    y, m, d = p["ymd"]
    h, mi, s = p["hms"]
    dt = datetime.datetime(y, m, d, h, mi, s, p["us"])
    if p["zone"]:
        if (y, m, d) in AROUND_1970 and p["zone"][0] != p["zone"][1]:
            raise Machinery("a reading around 1970-01-01 in a zone whose offset differs from the one of 1970-01-01")
        dt = dt.replace(tzinfo=ReadingZone(p["zone"][0], p["zone"][1]))
    return dt


def ieee_value(k, f):
    if k == "float":
        s, e, m, bias, frac, emax = f["s"], f["e"], f["m"], 127, 23, 255
    else:
        s, e, bias, frac, emax = f["s"], f["e"], 1023, 52, 2047
        m = (f["mh"] << 32) | int.from_bytes(bytes(f["ml"]), "big")
    sign = -1.0 if s else 1.0
    if e == emax:
        return sign * math.inf if m == 0 else math.nan
    if e == 0:
        return sign * math.ldexp(m, 1 - bias - frac)
    return sign * math.ldexp((1 << frac) + m, e - bias - frac)


def py_leaf(env, k, form, p):
    U = env.util
    if k == "timestamp":
        return datetime.date(*p) if form == "date" else reading_datetime(p)
    if k == "date":
        if form == "Date":
            return U.Date(p)
        y, m, d = p
        return {"date": datetime.date(y, m, d), "text": "%04d-%02d-%02d" % (y, m, d), "datetime": datetime.datetime(y, m, d, 23, 59, 59)}[form]
    if k == "time":
        n = p["secs"] * 10 ** 9 + p["ns"]
        h, mi, s = p["secs"] // 3600, p["secs"] // 60 % 60, p["secs"] % 60
        if form == "Time":
            return U.Time(n)
        if form == "int":
            return n
        if form == "text":
            return "%02d:%02d:%02d.%09d" % (h, mi, s, p["ns"])
        return datetime.time(h, mi, s, p["ns"] // 1000)
    if k in ("float", "double"):
        v = ieee_value(k, p)
        return int(v) if form == "int" else v
    if k in ("varint", "bigint", "counter"):
        return CD.number(p)
    if k == "decimal":
        u = CD.number(p[1])
        if form == "int":
            return u
        return decimal.Decimal((1 if u < 0 else 0, tuple(int(c) for c in str(abs(u))), -p[0]))
    if k in ("uuid", "timeuuid"):
        u = uuid.UUID(bytes=bytes(p))
        return str(u) if form == "text" else u
    if k == "blob":
        return bytes(p) if form == "bytes" else bytearray(p)
    if k == "inet":
        return CD.inet_text(p) if form == "str" else ipaddress.ip_address(bytes(p))
    if k in ("text", "ascii"):
        return bytes(p).decode("utf8")
    if k == "boolean":
        return bool(p)
    if k == "duration":
        return U.Duration(p[0], p[1], p[2])
    if k in ("tinyint", "smallint", "int"):
        return p
    raise Machinery("no Python value for %s / %s" % (k, form))


def py_opt(env, t, o):
    return None if not o else py_value(env, t, o[0])


def py_value(env, t, v):
    k = t[0]
    if CD.is_scalar(t):
        return py_leaf(env, k, v[0], v[1])
    if k == "list":
        return [py_opt(env, t[1], o) for o in v]
    if k == "set":
        items = [py_opt(env, t[1], o) for o in v]
        s = set(items)
        if len(s) != len(items):
            raise Machinery("Python merges two elements the specification tells apart: %r" % (items,))
        return s
    if k == "map":
        pairs = [(py_opt(env, t[1], ko), py_opt(env, t[2], vo)) for ko, vo in v]
        d = dict(pairs)
        if len(d) != len(pairs):
            raise Machinery("Python merges two keys the specification tells apart: %r" % (pairs,))
        return d
    if k == "tuple":
        return tuple(py_opt(env, x, o) for x, o in zip(t[1], v))
    if k == "udt":
        return env.udt_class(t)(**{n: py_opt(env, x, o) for n, x, o in zip(CD.field_names(t), t[1], v)})
    raise Machinery(t)


# ------------------------------------------------------------------ structural normal form of encoded values

class Malformed(Exception):
    pass


def canon(t, b, top=True):
    """bytes of a value of type t -> nested data in which sets and maps are sorted (their entries may be written in any
    order); raises Malformed when the bytes do not parse exactly"""
    k = t[0]
    if CD.is_scalar(t):
        return bytes(b).hex()

    def rd_int(p):
        if p + 4 > len(b):
            raise Malformed("truncated at %d" % p)
        return int.from_bytes(b[p:p + 4], "big", signed=True), p + 4

    def rd_elem(tt, p):
        n, p = rd_int(p)
        if n < 0:
            return None, p
        if p + n > len(b):
            raise Malformed("element of %d bytes at %d exceeds the value" % (n, p))
        return canon(tt, b[p:p + n], False), p + n
    if k in ("list", "set"):
        n, p = rd_int(0)
        items = []
        for _ in range(n):
            x, p = rd_elem(t[1], p)
            items.append(x)
        if p != len(b):
            raise Malformed("%d trailing bytes" % (len(b) - p))
        return [k, sorted(items, key=repr) if k == "set" else items]
    if k == "map":
        n, p = rd_int(0)
        items = []
        for _ in range(n):
            a, p = rd_elem(t[1], p)
            c, p = rd_elem(t[2], p)
            items.append([a, c])
        if p != len(b):
            raise Malformed("%d trailing bytes" % (len(b) - p))
        return ["map", sorted(items, key=repr)]
    if k in ("tuple", "udt"):
        p = 0
        items = []
        for tt in t[1]:
            if p >= len(b):
                items.append(None)                 # trailing fields absent = null
                continue
            x, p = rd_elem(tt, p)
            items.append(x)
        if p != len(b):
            raise Malformed("%d trailing bytes" % (len(b) - p))
        return [k, items]
    raise Machinery(t)


def _canon_or(t, b):
    try:
        return canon(t, b)
    except Malformed as ex:
        return ["malformed", str(ex), bytes(b).hex()]


def _stable(err):
    """an exception text as part of a signature: class and the beginning of the message, without values (quoted text is kept
    only when it is a plain word such as a type name), addresses and numbers"""
    import re
    err = re.sub(r"'([^']*)'", lambda m: m.group(0) if re.fullmatch(r"[A-Za-z_.]+", m.group(1)) else "'..'", err)
    return re.sub(r"0x[0-9a-fA-F]+|[-+]?\d[\d:.\-+ ]*", "#", err)[:60].strip()


def _call(fn, *a):
    try:
        return ("ok", fn(*a))
    except Exception as ex:                                  # noqa: BLE001 - the code under test may fail in any way
        return ("raised", "%s: %s" % (type(ex).__name__, str(ex)[:160]))


# ------------------------------------------------------------------ judgement

def _signed(h):
    return int.from_bytes(bytes.fromhex(h), "big", signed=True)


def ts_cause(val, got_hex, spec_hex):
    """why a stored timestamp differs from the instant: names the two mechanisms seen, "other" otherwise"""
    if len(got_hex) != 16:
        return "%s:other" % val[0]
    d = _signed(got_hex) - _signed(spec_hex)
    form, p = val
    if form == "aware" and p["zone"][0] != p["zone"][1] and abs(d - (p["zone"][1] - p["zone"][0]) * 60000) <= 1:
        return "aware:offset-of-1970-01-01-used"
    if abs(d) == 1:
        return "millisecond-off-by-one"              # whatever the form: the same arithmetic
    return "%s:other" % form


def leaf_sig(who, k, val, got_hex, spec_hex):
    cls = COLUMN_CLASS[k] if who == "cqlengine" else SCALAR_CLASS[k]
    if k == "timestamp":
        return "%s:%s:%s" % (who, cls, ts_cause(val, got_hex, spec_hex))
    return "%s:%s:%s" % (who, cls, val[0])


class Out(object):
    def __init__(self):
        self.n = 0
        self.devs = []
        self.open = []

    def dev(self, sig, msg, detail):
        if all(d[0] != sig for d in self.devs):              # one deviation per signature and case
            self.devs.append((sig, msg, detail))


def paths(col, value):
    """the three ways a value reaches the wire: cqlengine's query path (to_database), cqlengine's save path (validate, then
    to_database), the core driver (the value as it is)"""
    return (("cqlengine", lambda: col.to_database(value)),
            ("cqlengine-save", lambda: col.to_database(col.validate(value))),
            ("core", lambda: value))


def judge_leaf(env, k, val, accept, expect, out):
    """one scalar position against the acceptable encodings `accept` (a set of hex strings; `expect` as in the spec)"""
    col, T = env.column([k]), env.core_type([k])
    form = val[0]
    value = py_leaf(env, k, form, val[1])
    spec = sorted(accept, key=_signed) if k == "timestamp" else sorted(accept)
    res = {}
    for who, produce in paths(col, value):
        w = "core" if who == "core" else "cqlengine"
        got = _call(produce)
        if got[0] == "raised":
            if who == "cqlengine" and expect != "open":
                out.n += 1
                out.dev("cqlengine:%s:%s:raised" % (COLUMN_CLASS[k], form), "%s.to_database(%r) raised %s" % (COLUMN_CLASS[k], value, got[1]), {"value": repr(value)})
            elif who == "cqlengine-save" and expect != "open":
                out.open.append("%s: validate / to_database after validate raises for the form %s" % (COLUMN_CLASS[k], form))
            continue
        for pv in PVS:
            out.n += 1
            b = _call(T.serialize, got[1], pv)
            if b[0] == "raised":
                if who == "core":
                    out.open.append("core %s refuses the form %s" % (SCALAR_CLASS[k], form))
                elif expect != "open":
                    out.dev("cqlengine:%s:%s:unserialisable" % (COLUMN_CLASS[k], form),
                            "%s.to_database(%r) = %r cannot be serialised as %s: %s" % (COLUMN_CLASS[k], value, got[1], k, b[1]), {"value": repr(value)})
                break
            h = bytes(b[1]).hex()
            res.setdefault(who, h)
            if expect != "open" and h not in accept:
                what = ("%s.to_database(%r) = %r, stored as %s" % (COLUMN_CLASS[k], value, got[1], h) if w == "cqlengine"
                        else "%s.serialize(%r) = %s" % (SCALAR_CLASS[k], value, h))
                out.dev(leaf_sig(w, k, val, h, spec[0]), "%s; the value denotes %s" % (what, " or ".join(spec)),
                        {"value": repr(value), "real": h, "spec": spec, "pv": pv, "path": who})
                break
    if expect == "inexact":
        def side(h):
            return "raised" if h is None else "floor" if h == spec[0] else "next" if h == spec[-1] else "neither"
        out.open.append("timestamp without an exact millisecond: cqlengine %s, core %s" % (side(res.get("cqlengine")), side(res.get("core"))))
    elif expect == "open":
        def same(h):
            return "raised" if h is None else "the instant" if h in accept else "another instant"
        out.open.append("instant outside the years 1..9999 of UTC: cqlengine %s, core %s" % (same(res.get("cqlengine")), same(res.get("core"))))


def judge_calls(env, st, out):
    """a sequence of aware datetimes sharing ONE tzinfo object, converted one after the other by the same column / type:
    the k-th must be stored as ITS instant (the k-th 8 bytes of the specification's answer)"""
    col, T = env.column(["timestamp"]), env.core_type(["timestamp"])
    readings = st["val"]
    want = [bytes(st["enc"][8 * k:8 * k + 8]).hex() for k in range(len(readings))]
    for who in ("cqlengine", "cqlengine-save", "core"):
        dts = calls_datetimes(readings)                      # a fresh zone object per path: no history from another path
        w = "core" if who == "core" else "cqlengine"
        for k, dt in enumerate(dts):
            produce = {"cqlengine": lambda: col.to_database(dt), "cqlengine-save": lambda: col.to_database(col.validate(dt)), "core": lambda: dt}[who]
            got = _call(produce)
            out.n += 1
            if got[0] == "raised":
                out.dev("%s:DateTime:aware:raised" % w, "conversion %d of %r raised %s" % (k + 1, dts, got[1]), {"value": repr(dts)})
                break
            b = _call(T.serialize, got[1], 4)
            if b[0] == "raised":
                out.dev("%s:DateTime:aware:unserialisable" % w, "conversion %d of %r: %r cannot be serialised: %s" % (k + 1, dts, got[1], b[1]), {"value": repr(dts)})
                break
            h = bytes(b[1]).hex()
            if h != want[k]:
                d = _signed(h) - _signed(want[k]) if len(h) == 16 else None
                earlier = [j for j in range(k) if d is not None and d == (readings[k]["zone"][1] - readings[j]["zone"][1]) * 60000 and d != 0]
                cause = ("aware:offset-of-an-earlier-conversion-used" if earlier else ts_cause(["aware", readings[k]], h, want[k]))
                cls = COLUMN_CLASS["timestamp"] if w == "cqlengine" else SCALAR_CLASS["timestamp"]
                out.dev("%s:%s:%s" % (w, cls, cause),
                        "conversion %d of %d with one zone object: %r is stored as %s (%+d ms); it denotes %s%s"
                        % (k + 1, len(dts), dt, h, d or 0, want[k], " - off by the difference to the offset of conversion %d" % (earlier[0] + 1) if earlier else ""),
                        {"value": repr(dts), "real": h, "spec": want[k], "path": who, "conversion": k + 1})
                break


def crosscheck_calls(st):
    want = b""
    for p in st["val"]:
        y, m, d = p["ymd"]
        h, mi, s = p["hms"]
        secs = (datetime.date(y, m, d).toordinal() - 719163) * 86400 + h * 3600 + mi * 60 + s - p["zone"][1] * 60
        want += (secs * 1000 + p["us"] // 1000).to_bytes(8, "big", signed=True)
    if want != bytes(st["enc"]):
        raise Machinery("the specification's bytes of the calls case %r are not Python's %s" % (st["val"], want.hex()))


def leaves_of(t, v):
    """(kind, leaf value) for every scalar position of a composite value"""
    k = t[0]
    if CD.is_scalar(t):
        yield k, v
    elif k in ("list", "set"):
        for o in v:
            if o:
                yield from leaves_of(t[1], o[0])
    elif k == "map":
        for ko, vo in v:
            if ko:
                yield from leaves_of(t[1], ko[0])
            if vo:
                yield from leaves_of(t[2], vo[0])
    else:
        for tt, o in zip(t[1], v):
            if o:
                yield from leaves_of(tt, o[0])


def leaf_key(k, lv):
    import json
    return k + "|" + json.dumps(lv, sort_keys=True)


def judge(env, st, leaf_encs=None, always_whole=False):
    """-> (evaluations, deviations [(signature, message, detail)], open notes).  leaf_encs: leaf_key -> acceptable encodings
    of the scalar cases of the same enumeration (needed for composites)"""
    t, v, expect = st["ty"], st["val"], st["expect"]
    out = Out()
    if is_calls(t):
        judge_calls(env, st, out)
        return out.n, out.devs, out.open
    if CD.is_scalar(t):
        judge_leaf(env, t[0], v, {bytes(e).hex() for e in st["img"]}, expect, out)
        return out.n, out.devs, out.open
    # composite: every leaf on its own first (attribution to a column class), then the whole value
    seen = set()
    for k, lv in leaves_of(t, v):
        key = leaf_key(k, lv)
        if key not in seen:
            seen.add(key)
            if leaf_encs is None or key not in leaf_encs:
                raise Machinery("no scalar case for the leaf %s %r of a composite" % (k, lv))
            judge_leaf(env, k, lv, leaf_encs[key], "ok", out)
    if out.devs and not always_whole:            # attributed to a leaf's column class; the whole value would only repeat it
        return out.n, out.devs, out.open
    top = t[0]
    col, Tref = env.column(t), env.core_type(t)
    Tcol = _call(lambda: col.cql_type)
    if Tcol[0] == "raised":
        out.dev("cqlengine:composite:%s:cql_type-raised" % top, "%s: column.cql_type raised %s" % (cql_name(t), Tcol[1]), {})
    want = _canon_or(t, bytes(st["enc"]))
    if want[0] == "malformed":
        raise Machinery("the specification's bytes do not parse: %s" % (want,))
    value = _call(py_value, env, t, v)
    if value[0] == "raised":
        raise Machinery("cannot build the Python value of %s: %s" % (cql_name(t), value[1]))
    value = value[1]
    for who, produce in paths(col, value):
        w = "core" if who == "core" else "cqlengine"
        got = _call(produce)
        if got[0] == "raised":
            if who == "cqlengine":
                out.n += 1
                out.dev("cqlengine:composite:%s:raised:%s" % (top, _stable(got[1])), "%s to_database(%r) raised %s" % (cql_name(t), value, got[1]), {"value": repr(value)})
            elif who == "cqlengine-save":
                out.open.append("validate / to_database after validate raises for a %s value" % top)
            continue
        types = [("the core type", Tref)] + ([("column.cql_type", Tcol[1])] if w == "cqlengine" and Tcol[0] == "ok" else [])
        bad = False
        for pv in PVS:
            for tname, T in types:
                out.n += 1
                b = _call(T.serialize, got[1], pv)
                if b[0] == "raised":
                    if who == "core":
                        out.open.append("core refuses a %s value (%s)" % (top, b[1][:40]))
                    else:
                        out.dev("cqlengine:composite:%s:unserialisable" % top,
                                "%s: to_database gives %r, which %s cannot serialise: %s" % (cql_name(t), got[1], tname, b[1]), {"value": repr(value)})
                    bad = True
                    break
                have = _canon_or(t, bytes(b[1]))
                if have != want:
                    out.dev("%s:composite:%s" % (w, top), "%s: %s of %r is stored as %s; it denotes %s"
                            % (cql_name(t), "to_database" if w == "cqlengine" else "serialize", value, bytes(b[1]).hex(), bytes(st["enc"]).hex()),
                            {"value": repr(value), "real": have, "spec": want, "pv": pv, "path": who, "with": tname})
                    bad = True
                    break
            if bad:
                break
    return out.n, out.devs, out.open


def verdict(devs):
    import json
    return sorted((d[0], json.dumps(d[2], sort_keys=True, default=repr)) for d in devs)


def describe(st):
    return {"column": cql_name(st["ty"]), "value": st["val"], "denotes": st["norm"], "bytes": bytes(st["enc"]).hex(), "expect": st["expect"]}


# ------------------------------------------------------------------ the specification's numbers against Python's own (machinery)

def _varint_bytes(n):
    length = (n.bit_length() if n >= 0 else (-n - 1).bit_length()) // 8 + 1
    return n.to_bytes(length, "big", signed=True)


def crosscheck_leaf(k, val, enc_hex_floor):
    """recompute the bytes of a scalar case with Python integers / struct / datetime (never with the driver); raises
    Machinery when the specification's limb arithmetic disagrees"""
    import struct
    form, p = val
    want = None
    if k == "timestamp":
        if form == "date":
            want = (datetime.date(*p).toordinal() - 719163) * 86400000
        else:
            y, m, d = p["ymd"]
            h, mi, s = p["hms"]
            secs = (datetime.date(y, m, d).toordinal() - 719163) * 86400 + h * 3600 + mi * 60 + s - (p["zone"][1] * 60 if p["zone"] else 0)
            want = secs * 1000 + p["us"] // 1000
        want = want.to_bytes(8, "big", signed=True)
    elif k == "date":
        n = p if form == "Date" else datetime.date(*p).toordinal() - 719163
        want = (n + 2 ** 31).to_bytes(4, "big")
    elif k == "time":
        want = (p["secs"] * 10 ** 9 + p["ns"]).to_bytes(8, "big")
    elif k in ("float", "double"):
        want = struct.pack(">f" if k == "float" else ">d", ieee_value(k, p))
    elif k in ("bigint", "counter"):
        want = CD.number(p).to_bytes(8, "big", signed=True)
    elif k == "varint":
        want = _varint_bytes(CD.number(p))
    elif k == "decimal":
        want = p[0].to_bytes(4, "big", signed=True) + _varint_bytes(CD.number(p[1]))
    if want is not None and want.hex() != enc_hex_floor:
        raise Machinery("the specification's bytes %s of %s %r are not Python's %s" % (enc_hex_floor, k, val, want.hex()))
