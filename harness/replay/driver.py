"""Whole-driver runs for spec/Driver.tla / Trace_Driver.tla (code -> spec).

One real Cluster with one Session over three FakeNodes (10.0.0.1 = contact point with the control connection, never
failing; 10.0.0.2 / 10.0.0.3 = subject hosts), executor in queue mode, SimScheduler, virtual clock: the host-state
side is the harness of spec/Hosts.tla (harness.replay.hosts.HostsHarness: executor tasks and scheduler entries
described by the specification's task records, Cluster.shutdown in three stretches, reconnection attempts as two
steps); this module adds the request side and the connections:

  StartReq(r, rot, use, idem, prep)   session.execute_async("SELECT r" | "USE ks<n>" | bound prepared statement) with
                          callbacks counting the outcomes; the query plan is the live hosts in address order rotated by
                          `rot`; idempotent statements get speculative executions (ConstantSpeculativeExecutionPolicy)
  Answer(c, sid, kind)    the node answers the frame it holds on connection c / stream sid:
                          rows | overloaded (retry policy: next host) | invalid (raised) | setks (RESULT set_keyspace) |
                          unprepared (ERROR UNPREPARED) and, for the PREPARE of a re-preparation, same | diff | error
  Drop(c, sid)            the node will never answer it
  FireTimer(r)            the request's client timeout fires
  Kill(c)                 socket error on the pool connection c of a subject host, then what the heartbeat does with a
                          dead connection: pool.return_connection(c)
  Exec / Fire / StatusEvent / SetMode / ShutdownA / ShutdownS / ShutdownE     as in Hosts.tla; Exec also runs
                          ResponseFuture._retry_task / _reprepare / _execute_after_prepare (task records k = "Retry" /
                          "Reprepare" / "AfterPrep", n = request)

Pool connections have the id space 0..MAXID (at most MAXID requests in flight), so stream ids are reused at once.
Connections are numbered in the order their pools were created.  USE on the pool connections themselves (new pool with
a session keyspace, fan-out of a keyspace switch) is answered by the nodes at once.

After every operation project() gives the state of the real objects in the shape of the specification's variables.
"""
from collections import deque

from harness.replay import hosts as hh
from harness.replay.hosts import HostsHarness, HarnessError, T, CTL, num_of, task_dict, task_tuple
from harness.sim.simconn import FakeNode, SimCondition, SimWorld
from harness import wire

import cassandra.cluster as ccluster
from cassandra.cluster import _NOT_SET
from cassandra.policies import ConstantSpeculativeExecutionPolicy
from cassandra.query import SimpleStatement

MAXID = 2
SPECMAX = 1
QID = b"stmt-1"
OTHER_QID = b"stmt-other"
PREP_QUERY = "SELECT p FROM t WHERE k=?"
HOSTS = (2, 3)
TIMEOUT = 1.0e6
CONSTS = {"Hosts": set(HOSTS), "Known0": set(HOSTS), "Sessions": {1}, "Ignored": set(), "FineUp": False}
OUT_CLASSES = {"NoHostAvailable", "OperationTimedOut", "InvalidRequest", "ConnectionException", "ConnectionShutdown"}


def _on_block(obj, timeout):
    # a blocking wait inside the driver (borrow_connection on a full connection): let virtual time pass, a hair more
    # than asked, so that `remaining = timeout - (now - start); if remaining < 0: break` ends as under real time
    if isinstance(obj, SimCondition):
        SimWorld.current.clock.advance(max(timeout or 0.0, 0.0) + 1e-6)


class DriverHarness(HostsHarness):
    def __init__(self, nreqs=4):
        HostsHarness.__init__(self, dict(CONSTS))
        self.world.on_block = _on_block
        self.sess = self.sessions[1]
        self.cluster.profile_manager.default.speculative_execution_policy = ConstantSpeculativeExecutionPolicy(0.5, SPECMAX)
        self.rot = 0
        self.lbp.make_query_plan = self._plan
        for n in self.nodes.values():
            n.auto = True
            n.auto_answer = self._auto
            n.handshake_script = self._tap
        self.cnum = {}             # id(pool) -> connection number
        self.cobj = {}             # number -> (pool, connection)
        self.reqs = {}             # r -> dict(fut, cb, eb, kind, att)
        self.nreqs = nreqs
        self.frames = []           # (connection object, stream, request, keyspaces) of every request frame on pool connections
        self.deferred = []
        # one prepared statement, known to the driver only (no node remembers it): prepared through the contact point
        self.cluster.prepare_on_all_hosts = False
        self.cluster.reprepare_on_up = False
        self.preparing = True
        self.ex.inline = True
        try:
            self.stmt = self.sess.prepare(PREP_QUERY)
        finally:
            self.preparing = False
            self.ex.inline = False
        self._see_pools()

    # ------------------------------------------------------------------ doubles
    def _plan(self, working_keyspace=None, query=None):
        live = sorted(self.lbp.child._live_hosts, key=lambda h: num_of(h.address))
        k = self.rot % len(live) if live else 0
        return live[k:] + live[:k]

    def _prepared_body(self, qid):
        return wire.body_prepared(qid, [("k", wire.T_INT)], [0], [("p", wire.T_INT)], 4)

    def _auto(self, node, p):
        q = p.req.get("query", "")
        if p.req.get("op") == "PREPARE" and getattr(self, "preparing", False):     # Session.prepare() blocks on it
            return node.respond(p, wire.RESULT, self._prepared_body(QID))
        if p.req.get("op") == "QUERY" and q.startswith('USE "'):          # Connection.set_keyspace_*: answered at once
            if getattr(p.conn, "_drv_in_feed", 0):
                # sent from inside the connection's own read handler (keyspace fan-out run by the USE answer): a reactor
                # never re-enters its read handler, so the answer is delivered when that handler has returned
                self.deferred.append((node, p))
                return None
            return FakeNode.default_answer(node, p)
        return None

    def _flush(self):
        while self.deferred:
            node, p = self.deferred.pop(0)
            if p in node.pending:
                FakeNode.default_answer(node, p)

    @staticmethod
    def _guard_feed(c):
        feed = c.feed

        def guarded(data):
            c._drv_in_feed = getattr(c, "_drv_in_feed", 0) + 1
            try:
                return feed(data)
            finally:
                c._drv_in_feed -= 1
        c.feed = guarded

    def _tap(self, node, conn, req, frame):
        """Tag every frame of a request with the request (r) and its kind (X: the request, P: PREPARE of a re-prepare)."""
        op, r, f = req.get("op"), 0, ""
        if op == "QUERY" and (req["query"].startswith("SELECT r") or req["query"].startswith("USE ks")):
            r, f = self._req_of_query(req["query"]), "X"
        elif op == "EXECUTE":
            try:
                r, f = wire.Reader(req["values"][0]).int(), "X"
            except Exception:           # noqa: BLE001
                r, f = -1, "X"
        elif op == "PREPARE" and not getattr(self, "preparing", False):
            r, f = self._req_of_cb(conn._requests.get(frame.stream, (None,))[0])[0], "P"
        if f:
            req["_r"], req["_f"] = r, f
            if f == "X":
                self.frames.append((conn, frame.stream, r, conn.keyspace, self.sess.keyspace))
        return False

    def _see_pools(self):
        """Number the pool connections in the order the pools appear in session._pools; shrink their id space."""
        for host, pool in sorted(self.sess._pools.items(), key=lambda kv: num_of(kv[0].address)):
            if id(pool) not in self.cnum and pool._connection is not None:
                n = len(self.cnum) + 1
                self.cnum[id(pool)] = n
                c = pool._connection
                self.cobj[n] = (pool, c)
                self._guard_feed(c)
                if c.in_flight == 0 and not c._requests:
                    c.max_request_id = MAXID
                    c.request_ids = deque(range(MAXID + 1))
                    c.highest_request_id = MAXID

    def conn_number(self, conn):
        for n, (pool, c) in self.cobj.items():
            if c is conn:
                return n
        return 0

    # ------------------------------------------------------------------ classification of queued work
    def describe(self, fn, args=(), kwargs=None, future=None):
        name = getattr(fn, "__name__", None)
        owner = getattr(fn, "__self__", None)
        if isinstance(owner, ccluster.ResponseFuture) and name in ("_retry_task", "_reprepare", "_execute_after_prepare"):
            r = -1
            for k, d in self.reqs.items():
                if d["fut"] is owner:
                    r = k
            try:
                if name == "_retry_task":
                    return T("Retry", n=r)
                if name == "_reprepare":
                    return T("Reprepare", h=num_of(args[1].address), n=r)
                return T("AfterPrep", s=self.conn_number(args[1]), h=num_of(args[0].address), kind=self._resp_kind(args[3]), n=r)
            except Exception as ex:           # noqa: BLE001 - a mutated driver may queue it in another shape
                return T("?%s:%s" % (name, type(ex).__name__), n=r)
        return HostsHarness.describe(self, fn, args, kwargs, future)

    # ------------------------------------------------------------------ operations
    def do(self, act):
        getattr(self, "act_" + act["name"])(act)
        self._flush()
        self._see_pools()
        return self.project()

    @staticmethod
    def _resp_kind(resp):
        from cassandra.protocol import ResultMessage, ErrorMessage
        from cassandra.connection import ConnectionException
        if isinstance(resp, ResultMessage):
            return "same" if getattr(resp, "query_id", None) == QID else "diff"
        if isinstance(resp, ErrorMessage):
            return "error"
        if isinstance(resp, ConnectionException):
            return "connerr"
        return "other:" + type(resp).__name__

    def act_StartReq(self, act):
        r = act["r"]
        if r in self.reqs:
            raise HarnessError("request %s already started" % r)
        self.rot = act.get("rot", 0)
        use = act.get("x") or ""
        d = self.reqs[r] = {"fut": None, "cb": 0, "eb": 0, "use": use, "exc": None, "prep": bool(act.get("prep"))}
        q = self._query_of(r, d)
        try:
            if d["prep"]:
                fut = self.sess.execute_async(self.stmt.bind((r,)), timeout=TIMEOUT)
            else:
                fut = self.sess.execute_async(SimpleStatement(q, is_idempotent=bool(act.get("idem"))), timeout=TIMEOUT)
        except Exception as ex:           # noqa: BLE001 - refused synchronously
            d["exc"] = type(ex).__name__
            return
        d["fut"] = fut

        def cb(res, d=d):
            d["cb"] += 1

        def eb(exc, d=d):
            d["eb"] += 1
        fut.add_callbacks(cb, eb)

    def _held(self, c, sid):
        pool, conn = self.cobj.get(c, (None, None))
        if conn is None:
            raise HarnessError("no connection %s" % c)
        node = self.nodes[num_of(conn.endpoint.address)]
        for p in node.pending:
            if p.conn is conn and p.frame.stream == sid:
                return node, p
        raise HarnessError("node owes no answer on connection %s stream %s" % (c, sid))

    def act_Answer(self, act):
        node, p = self._held(act["c"], act["sid"])
        kind = act["x"]
        if kind == "rows":
            node.respond_rows(p, [("p", wire.T_INT)], [[wire.w_int(7)]])
        elif kind == "unprepared":
            node.respond_error(p, wire.ERR_UNPREPARED, "unprepared", wire.tail_unprepared(QID))
        elif kind == "same":
            node.respond(p, wire.RESULT, self._prepared_body(QID))
        elif kind == "diff":
            node.respond(p, wire.RESULT, self._prepared_body(OTHER_QID))
        elif kind == "error":
            node.respond_error(p, wire.ERR_INVALID, "unconfigured table t")
        elif kind == "overloaded":
            node.respond_error(p, wire.ERR_OVERLOADED, "overloaded")
        elif kind == "invalid":
            node.respond_error(p, wire.ERR_INVALID, "invalid")
        elif kind == "setks":
            node.respond(p, wire.RESULT, wire.body_set_keyspace(p.req["query"].split()[1]))
        else:
            raise HarnessError("unknown answer kind %r" % kind)

    def act_Drop(self, act):
        node, p = self._held(act["c"], act["sid"])
        node.drop(p)

    def act_FireTimer(self, act):
        d = self.reqs.get(act["r"])
        t = d and d["fut"] is not None and d["fut"]._timer
        if not t or t.canceled or getattr(t, "_fired", False):
            raise HarnessError("request %s has no armed timer" % act["r"])
        self.world.fire(t, advance=False)

    def act_Kill(self, act):
        pool, conn = self.cobj.get(act["c"], (None, None))
        if conn is None or conn.is_closed or conn.is_defunct:
            raise HarnessError("connection %s is not open" % act["c"])
        conn.socket_error()
        # then the heartbeat finds it: ConnectionHeartbeat.run does owner.return_connection(connection) (the requests that
        # were registered on it have done the same already, except a PREPARE, whose task does it later)
        pool.return_connection(conn)

    # ------------------------------------------------------------------ projection
    def project(self):
        p = HostsHarness.project(self)
        self._see_pools()
        conns = []
        for n in sorted(self.cobj):
            pool, c = self.cobj[n]
            is_open = not (c.is_closed or c.is_defunct)
            node = self.nodes[num_of(c.endpoint.address)]
            reg = []
            for sid, (cb, _, _) in sorted(c._requests.items()):
                reg.append([sid] + list(self._req_of_cb(cb)))
            owed = sorted([q.frame.stream, q.req.get("_r", 0), q.req.get("_f", "?")] for q in node.pending if q.conn is c)
            installed = self.sess._pools.get(pool.host) is pool
            conns.append({"h": num_of(c.endpoint.address), "open": is_open, "ks": c.keyspace or "",
                          "infl": c.in_flight if is_open else 0, "reg": reg if is_open else [],
                          "free": sorted(set(c.request_ids)) if is_open else [], "sig": bool(c.signaled_error),
                          "orph": sorted(c.orphaned_request_ids) if is_open else [], "owed": owed if is_open else [],
                          "inst": installed})
        reqs = []
        for r in range(1, self.nreqs + 1):
            d = self.reqs.get(r)
            if d is None:
                reqs.append({"st": "new", "out": "none", "n": 0, "att": [], "timer": "off", "plan": [], "errs": [],
                             "lc": 0, "lid": -1})
                continue
            fut = d["fut"]
            if fut is None:
                reqs.append({"st": "done", "out": d["exc"], "n": 1, "att": [], "timer": "off", "plan": [], "errs": [],
                             "lc": 0, "lid": -1})
                continue
            exc, res = fut._final_exception, fut._final_result
            if exc is not None and res is not _NOT_SET:
                out = "both"
            elif exc is not None:
                out = type(exc).__name__
            elif res is not _NOT_SET:
                out = "ok"
            else:
                out = "none"
            att = [[num_of(c.endpoint.address), self.conn_number(c), sid, ks or "", sk or ""]
                   for c, sid, q, ks, sk in self.frames if q == r]
            t = fut._timer
            armed = "off"
            if t is not None and not t.canceled and not getattr(t, "_fired", False):
                name = getattr(t.callback, "__name__", None) or getattr(getattr(t.callback, "func", None), "__name__", "?")
                armed = {"_on_speculative_execute": "spec", "_on_timeout": "to"}.get(name, "?" + str(name))
            errs = sorted(num_of(h.address) if hasattr(h, "address") else -1 for h in fut._errors)
            try:
                import copy as _copy
                plan = [num_of(h.address) for h in _copy.copy(fut.query_plan)]
            except TypeError:
                plan = [-1]
            reqs.append({"st": "done" if out != "none" else "open", "out": out, "n": d["cb"] + d["eb"], "att": att,
                         "timer": armed, "plan": plan, "errs": errs,
                         "lc": self.conn_number(fut._connection) if fut._connection is not None else 0,
                         "lid": fut._req_id if fut._req_id is not None else -1})
        p["conns"] = conns
        p["reqs"] = reqs
        p["sks"] = self.sess.keyspace or ""
        return p

    def _query_of(self, r, d):
        return ("USE %s /*r%d*/" % (d["use"], r)) if d["use"] else ("SELECT r%d" % r)

    def _req_of_query(self, q):
        for r, d in self.reqs.items():
            if self._query_of(r, d) == q:
                return r
        return 0

    def _req_of_cb(self, cb):
        """(request, kind) of a handler registered on a connection: partial(fut._set_result, ..) is the request's own (X),
        partial(session.submit, fut._execute_after_prepare, ..) the PREPARE of its re-preparation (P)."""
        func = getattr(cb, "func", None)
        fut, f = getattr(func, "__self__", None), "X"
        if getattr(func, "__name__", "") == "submit" and getattr(cb, "args", None):
            fut, f = getattr(cb.args[0], "__self__", None), "P"
        for r, d in self.reqs.items():
            if d["fut"] is fut and fut is not None:
                return r, f
        return 0, f


# ---------------------------------------------------------------------- recording (code -> spec)
KEYSPACES = ("ks", "ks2")
MAX_EVENTS = 4


def A(name, **kw):
    a = {"name": name}
    a.update(kw)
    return a


def enabled_ops(h, p, state, max_events):
    """Operations of the specification's Next that are enabled where the real objects are.  Returns (group, action)."""
    ops = []
    phase = hh.PHASES.get(tuple(p["flags"]), -1)
    started = h.shut_thread is not None
    for d in sorted(set(p["exec"]), key=repr):
        ops.append(("task", A("Exec", t=task_dict(d))))
    if not p["flags"][1] and not started:
        for d in sorted(set(p["sched"]), key=repr):
            ops.append(("task", A("Fire", t=task_dict(d))))
    use_pending = any(d["use"] and d["fut"] is not None and d["fut"]._final_result is _NOT_SET
                      and d["fut"]._final_exception is None for d in h.reqs.values())
    if phase == 0 and not started and state["budget"] < max_events:
        for x in h.hosts:
            if p["ctl"] == "open" and p["known"][x]:
                ops.append(("env", A("StatusEvent", h=x, x="UP")))
                ops.append(("env", A("StatusEvent", h=x, x="DOWN")))
            m = "refuse" if state["mode"][x] == "ok" else "ok"
            ops.append(("env", A("SetMode", h=x, x=m)))
        if not use_pending:
            for n, c in enumerate(p["conns"], 1):
                if c["open"] and c["inst"] and c["h"] != CTL:
                    ops.append(("env", A("Kill", c=n)))
    if phase in (0, 1, 2) and (phase == 0) == (not started):
        ops.append(("shut", A(("ShutdownA", "ShutdownS", "ShutdownE")[phase])))
    # requests
    for r in range(1, h.nreqs + 1):
        if r not in h.reqs:
            rot = state["rng"].randrange(3)
            if (phase == 0 and not started) or (phase == 3 and not p["exec"]):
                use = ""
                if phase == 0 and not use_pending and state["rng"].random() < 0.2:
                    use = state["rng"].choice(KEYSPACES)
                prep = (not use) and state["rng"].random() < 0.3
                ops.append(("req", A("StartReq", r=r, rot=rot, x=use, prep=prep,
                                     idem=(not use and not prep and state["rng"].random() < 0.6))))
            break
    for n, c in enumerate(p["conns"], 1):
        for sid, r, f in c["owed"]:
            d = h.reqs.get(r)
            if f == "P":
                for kind in ("same", "same", "same", "diff", "error"):
                    ops.append(("node", A("Answer", c=n, sid=sid, x=kind)))
                ops.append(("node", A("Drop", c=n, sid=sid)))
                continue
            if d is not None and d["prep"]:
                ops += [("node", A("Answer", c=n, sid=sid, x="unprepared"))] * 3
            if d is not None and d["use"]:
                # the fan-out spins until a connection has a free slot: only when every pool connection can take a request
                full = any(k["open"] and k["inst"] and k["infl"] - (1 if (m == n and [sid, r, f] in k["reg"]) else 0) >= MAXID
                           for m, k in enumerate(p["conns"], 1))
                if not full:
                    ops.append(("node", A("Answer", c=n, sid=sid, x="setks")))
                continue
            for kind in ("rows", "rows", "overloaded", "overloaded", "invalid"):
                ops.append(("node", A("Answer", c=n, sid=sid, x=kind)))
            ops.append(("node", A("Drop", c=n, sid=sid)))
    for r, q in enumerate(p["reqs"], 1):
        if q["timer"] != "off" and q["st"] == "open":
            ops.append(("timer", A("FireTimer", r=r)))
    return ops


WEIGHTS = {"task": 5, "env": 2, "shut": 0.25, "req": 4, "node": 5, "timer": 0.7}


def record(rng, nreqs=4, max_steps=60, max_events=MAX_EVENTS):
    """Drive the real objects with random enabled operations; returns (events, final projection, harness error)."""
    h = DriverHarness(nreqs)
    state = {"budget": 0, "mode": {x: "ok" for x in h.hosts}, "rng": rng}
    events = []
    try:
        p = h.project()
        events.append({"e": "Init", "post": to_post(p)})
        while len(events) <= max_steps:
            ops = enabled_ops(h, p, state, max_events)
            if not ops:
                break
            groups = {}
            for g, a in ops:
                groups.setdefault(g, []).append(a)
            names = sorted(groups)
            g = rng.choices(names, [WEIGHTS[x] for x in names])[0]
            act = rng.choice(groups[g])
            # while a reconnection attempt is in flight, often let a status event bring the host up first (the attempt is
            # then cancelled while connecting - the schedules in which a stale reconnector could still act)
            parked = [d[2] for d in p["exec"] if d[0] == "ReconConn" and not d[4]]
            if parked and rng.random() < 0.5:
                pref = [a for _, a in ops if
                        (a["name"] == "StatusEvent" and a["x"] == "UP" and a["h"] in parked) or
                        (a["name"] in ("Fire", "Exec") and a["t"]["k"] == "OnUp" and a["t"]["h"] in parked) or
                        (a["name"] == "Exec" and a["t"]["k"] == "AddPool" and a["t"]["h"] in parked)]
                if pref:
                    act = rng.choice(pref)
            try:
                p = h.do(act)
            except Exception as ex:           # noqa: BLE001 - the code under test (or a mutant) left the envelope
                events.append({"e": "Anomaly", "during": dict(act), "what": "%s: %s" % (type(ex).__name__, ex)})
                break
            if act["name"] in ("StatusEvent", "SetMode", "Kill"):
                state["budget"] += 1
            if act["name"] == "SetMode":
                state["mode"][act["h"]] = act["x"]
            ev = dict(act)
            ev["e"] = ev.pop("name")
            ev["post"] = to_post(p)
            events.append(ev)
        return events, p
    finally:
        h.close()


def to_post(p):
    post = hh.to_post(p, CONSTS)
    post["conns"] = p["conns"]
    post["reqs"] = p["reqs"]
    post["sks"] = p["sks"]
    return post
