"""Binding between spec/Codec.tla and cassandra.cqltypes / the compiled deserializers (C01, C02, C07).

A TLC state of Codec.tla is a case: ty (type tree), pv, val (abstract value), enc (the bytes a client writes), img (all
encodings Cassandra may produce for the value), norm (the value after the documented normalisation on decode), expect
("ok" | "raise" | "null" | "empty" | "seed").  States are read with harness.replay.wire_bind.enumerate_fast: records ->
dict, sequences and sets -> list.  Abstract values are decoded BY TYPE (an option is [] / [x]; text is a list of UTF-8
bytes, so [] is also the empty string).

Everything here takes the driver's modules as an argument (`Driver`), so the same code judges the pure-Python tree
(harness.pyenv) and, in a subprocess, the compiled build of the same tree (C07).

Abstract value            Python value fed to to_binary (variants)                  expected from from_binary
  boolean TRUE/FALSE      bool                                                      bool
  tinyint..bigint,varint  int                                                       int
  counter                 int                                                       int
  timestamp (ms)          A: naive UTC datetime.datetime   B: int milliseconds       datetime.datetime
  timestamp reading       [wall, aware, off]: datetime(1970,1,1)+timedelta(ms=wall), tzinfo=timezone(timedelta(ms=off))
                          when aware (both variants)                                naive UTC datetime of the instant
  time (ns)               A: cassandra.util.Time           B: int nanoseconds        cassandra.util.Time
  date (days)             A: datetime.date when it exists, else util.Date  B: util.Date     cassandra.util.Date
  decimal <<scale, u>>    decimal.Decimal((sign, digits, -scale))                   same Decimal (scale preserved)
  duration <<m, d, n>>    cassandra.util.Duration                                   Duration
  text / ascii            str                                                       str
  blob                    A: bytes   B: bytearray                                   bytes
  uuid / timeuuid         uuid.UUID(bytes=...)                                      UUID
  inet                    A: str (socket.inet_ntop)   B: ipaddress object           str
  inet {addr, text}       A: the given text (x:x:x:x:x:x:d.d.d.d / "::" forms)   B: ipaddress object      str (inet_ntop)
  list                    A: list   B: tuple                                        list
  set                     "seq": list in the given order (byte exactness); A: set/frozenset (sortedset when unhashable);
                          B: cassandra.util.sortedset                                sortedset (sorted)
  map                     A: dict (OrderedMap when a key is unhashable)  B: cassandra.util.OrderedMap    OrderedMapSerializedKey
  tuple                   A: tuple   B: list                                        tuple
  udt (fields f1..fn)     A: tuple   B: object with attributes f1..fn               namedtuple-like with _fields = names
  vector                  A: list    B: tuple                                       list
  {sign, base, off}       sign * (2**base + off)  (an out-of-range number)
  {neg, mag}              wide integer: (-1 if neg else 1) * int.from_bytes(mag, "big")  (varint, bigint, decimal unscaled)
"""
import datetime
import decimal
import hashlib
import ipaddress
import json
import socket
import types
import uuid

PREFIX = "org.apache.cassandra.db.marshal."
SCALAR_CLASS = {
    "boolean": "BooleanType", "tinyint": "ByteType", "smallint": "ShortType", "int": "Int32Type", "bigint": "LongType",
    "counter": "CounterColumnType", "timestamp": "TimestampType", "time": "TimeType", "varint": "IntegerType",
    "decimal": "DecimalType", "date": "SimpleDateType", "duration": "DurationType", "ascii": "AsciiType",
    "text": "UTF8Type", "blob": "BytesType", "uuid": "UUIDType", "timeuuid": "TimeUUIDType", "inet": "InetAddressType",
}
# native protocol option ids (harness.wire T_*), for ROWS metadata
SCALAR_OPTION = {
    "ascii": 0x01, "bigint": 0x02, "blob": 0x03, "boolean": 0x04, "counter": 0x05, "decimal": 0x06, "int": 0x09,
    "timestamp": 0x0B, "uuid": 0x0C, "text": 0x0D, "varint": 0x0E, "timeuuid": 0x0F, "inet": 0x10, "date": 0x11,
    "time": 0x12, "smallint": 0x13, "tinyint": 0x14, "duration": 0x15,
}
ALL_VERSIONS = (1, 2, 3, 4, 5, 6, 65, 66)          # what the driver lists (ProtocolVersion.SUPPORTED_VERSIONS + v6 + DSE)
# a TLC case at pv stands for these driver versions (the value layer only distinguishes < 3 and >= 3)
SAME_LAYOUT = {2: (1, 2), 3: (3,), 4: (4, 6), 5: (5, 65, 66)}


class Driver(object):
    """the driver modules under test (pure-Python tree, or the compiled copy inside the C07 subprocess)"""

    def __init__(self, cqltypes, util):
        self.cqltypes = cqltypes
        self.util = util
        self._types = {}

    @classmethod
    def pure(cls):
        from harness.pyenv import repo_import
        return cls(repo_import("cassandra.cqltypes"), repo_import("cassandra.util"))

    def cass_type(self, t):
        key = tkey(t)
        if key not in self._types:
            self._types[key] = self.cqltypes.lookup_casstype(cass_name(t))
        return self._types[key]


# ------------------------------------------------------------------ types

def tkey(t):
    return json.dumps(t, separators=(",", ":"))


def is_scalar(t):
    return len(t) == 1


def field_names(t):
    return tuple("f%d" % (i + 1) for i in range(len(t[1])))


def udt_name(t):
    return "u_" + hashlib.blake2b(tkey(t).encode(), digest_size=5).hexdigest()


def cass_name(t, nested=False):
    """Cassandra's marshal class string of a type tree (nested collections frozen, as Cassandra requires)."""
    k = t[0]
    if is_scalar(t):
        return PREFIX + SCALAR_CLASS[k]
    if k == "list":
        s = "%sListType(%s)" % (PREFIX, cass_name(t[1], True))
    elif k == "set":
        s = "%sSetType(%s)" % (PREFIX, cass_name(t[1], True))
    elif k == "map":
        s = "%sMapType(%s,%s)" % (PREFIX, cass_name(t[1], True), cass_name(t[2], True))
    elif k == "tuple":
        return "%sTupleType(%s)" % (PREFIX, ",".join(cass_name(x, True) for x in t[1]))
    elif k == "udt":
        fields = ",".join("%s:%s" % (n.encode().hex(), cass_name(x, True)) for n, x in zip(field_names(t), t[1]))
        return "%sUserType(ks,%s,%s)" % (PREFIX, udt_name(t).encode().hex(), fields)
    elif k == "vector":
        return "%sVectorType(%s, %d)" % (PREFIX, cass_name(t[1], True), t[2])
    else:
        raise ValueError(t)
    return "%sFrozenType(%s)" % (PREFIX, s) if nested else s


def wire_type(t):
    """the type as harness.wire.w_type wants it (ROWS metadata); vectors travel as custom class names"""
    k = t[0]
    if is_scalar(t):
        return SCALAR_OPTION[k]
    if k in ("list", "set"):
        return (k, wire_type(t[1]))
    if k == "map":
        return ("map", wire_type(t[1]), wire_type(t[2]))
    if k == "tuple":
        return ("tuple", [wire_type(x) for x in t[1]])
    if k == "udt":
        return ("udt", "ks", udt_name(t), list(zip(field_names(t), [wire_type(x) for x in t[1]])))
    if k == "vector":
        return ("custom", cass_name(t))
    raise ValueError(t)


def cql_name(t):
    k = t[0]
    if is_scalar(t):
        return k
    if k in ("list", "set"):
        return "%s<%s>" % (k, cql_name(t[1]))
    if k == "map":
        return "map<%s,%s>" % (cql_name(t[1]), cql_name(t[2]))
    if k in ("tuple", "udt"):
        return "%s<%s>" % (k, ",".join(cql_name(x) for x in t[1]))
    return "vector<%s,%d>" % (cql_name(t[1]), t[2])


def depth(t):
    if is_scalar(t):
        return 0
    k = t[0]
    if k in ("list", "set", "vector"):
        return 1 + depth(t[1])
    if k == "map":
        return 1 + max(depth(t[1]), depth(t[2]))
    return 1 + max(depth(x) for x in t[1])


def scalars_of(t):
    if is_scalar(t):
        return {t[0]}
    k = t[0]
    if k in ("list", "set", "vector"):
        return scalars_of(t[1])
    if k == "map":
        return scalars_of(t[1]) | scalars_of(t[2])
    out = set()
    for x in t[1]:
        out |= scalars_of(x)
    return out


def features(t, v, out=None):
    """structural features of a value: null positions, empties"""
    if out is None:
        out = set()
    k = t[0]
    if is_scalar(t):
        if isinstance(v, dict) and v.get("aware"):
            out.add("aware-timestamp" if v["off"] else "aware-timestamp-utc")
        if isinstance(v, dict) and "text" in v:
            out.add("inet-mixed-text")
        if k == "inet" and isinstance(v, list) and len(v) == 16 and "." in inet_text(v):
            out.add("inet-canonical-text-with-dotted-quad")
        if k == "decimal" and isinstance(v, list) and v[0] in (-2147483648, 2147483647):
            out.add("decimal-scale-int32-limit")
        w = v[1] if k == "decimal" and isinstance(v, list) and len(v) == 2 else v
        if isinstance(w, dict) and "mag" in w:
            out.add("wide-integer")
            if len(w["mag"]) >= 8:
                out.add("wide-integer-64bit-and-beyond")
        return out
    if k in ("list", "set"):
        if not v:
            out.add("empty-collection")
        for o in v:
            if not o:
                out.add("null-collection-element")
            else:
                features(t[1], o[0], out)
    elif k == "map":
        if not v:
            out.add("empty-collection")
        for ko, vo in v:
            for tt, o in ((t[1], ko), (t[2], vo)):
                if not o:
                    out.add("null-collection-element")
                else:
                    features(tt, o[0], out)
    elif k in ("tuple", "udt"):
        for tt, o in zip(t[1], v):
            if not o:
                out.add("null-field")
            else:
                features(tt, o[0], out)
    else:
        for x in v:
            features(t[1], x, out)
    return out


# ------------------------------------------------------------------ abstract value -> Python value

EPOCH = datetime.datetime(1970, 1, 1)
_MIN_DAYS = (datetime.date.min - datetime.date(1970, 1, 1)).days
_MAX_DAYS = (datetime.date.max - datetime.date(1970, 1, 1)).days


def number(x):
    if isinstance(x, dict):
        if "mag" in x:                           # wide integer: sign + big-endian magnitude bytes (Codec.tla WVals), exact
            n = int.from_bytes(bytes(x["mag"]), "big")
            return -n if x["neg"] else n
        return x["sign"] * (2 ** x["base"] + x["off"])      # sign * (2^base + off): an out-of-range probe
    return x


def inet_text(b):
    b = bytes(b)
    return socket.inet_ntop(socket.AF_INET6, b) if len(b) == 16 else socket.inet_ntoa(b)


def hashable(x):
    try:
        hash(x)
        return True
    except TypeError:
        return False


def py_scalar(drv, k, x, variant):
    if k == "boolean":
        return bool(x)
    if k in ("tinyint", "smallint", "int", "bigint", "counter", "varint"):
        return number(x)
    if k == "timestamp":
        if isinstance(x, dict):                  # a wall-clock reading, naive or with its UTC offset (Codec.tla Readings)
            dt = EPOCH + datetime.timedelta(milliseconds=x["wall"])
            if x["aware"]:
                dt = dt.replace(tzinfo=datetime.timezone(datetime.timedelta(milliseconds=x["off"])))
            return dt
        return EPOCH + datetime.timedelta(milliseconds=x) if variant == "A" else x
    if k == "time":
        return drv.util.Time(x) if variant == "A" else x
    if k == "date":
        d = number(x)
        if variant == "A" and _MIN_DAYS <= d <= _MAX_DAYS:
            return datetime.date(1970, 1, 1) + datetime.timedelta(days=d)
        return drv.util.Date(d)
    if k == "decimal":
        scale, u = number(x[0]), number(x[1])          # exponent = -scale, exact (scale -2^31 <-> exponent +2^31)
        return decimal.Decimal((1 if u < 0 else 0, tuple(int(c) for c in str(abs(u))), -scale))
    if k == "duration":
        return drv.util.Duration(x[0], x[1], x[2])
    if k in ("text", "ascii"):
        return bytes(x).decode("utf8")
    if k == "blob":
        return bytes(x) if variant == "A" else bytearray(x)
    if k in ("uuid", "timeuuid"):
        return uuid.UUID(bytes=bytes(x))
    if k == "inet":
        if isinstance(x, dict):                  # an address named by text (Codec.tla InetReadings: the mixed x:x::d.d.d.d notation)
            return bytes(x["text"]).decode("ascii") if variant == "A" else ipaddress.ip_address(bytes(x["addr"]))
        return inet_text(x) if variant == "A" else ipaddress.ip_address(bytes(x))
    raise ValueError(k)


def py_opt(drv, t, o, variant):
    return None if not o else py_value(drv, t, o[0], variant)


def py_key(drv, t, o, variant):
    """a map key: sets inside are given as sortedset (written in normal form, see Vals in Codec.tla)"""
    if "set" in tkey(t) and variant != "seq":
        variant = "B"
    return py_opt(drv, t, o, variant)


def py_value(drv, t, v, variant="A"):
    """variant: "A" natural Python objects, "B" the driver's own classes / alternative accepted forms,
    "seq" like A but sets as lists in the given order (the order the bytes are compared in)."""
    k = t[0]
    if is_scalar(t):
        return py_scalar(drv, k, v, "A" if variant == "seq" else variant)
    if k == "list":
        items = [py_opt(drv, t[1], o, variant) for o in v]
        return tuple(items) if variant == "B" else items
    if k == "set":
        items = [py_opt(drv, t[1], o, variant) for o in v]
        if variant == "seq":
            return items
        if variant == "A" and all(hashable(i) for i in items):
            return set(items)
        return drv.util.sortedset(items)
    if k == "map":
        pairs = [(py_key(drv, t[1], ko, variant), py_opt(drv, t[2], vo, variant)) for ko, vo in v]
        if variant != "B" and all(hashable(p[0]) for p in pairs):
            return dict(pairs)
        return drv.util.OrderedMap(pairs)
    if k == "tuple":
        items = [py_opt(drv, x, o, variant) for x, o in zip(t[1], v)]
        return list(items) if variant == "B" else tuple(items)
    if k == "udt":
        items = [py_opt(drv, x, o, variant) for x, o in zip(t[1], v)]
        if variant == "B":
            return types.SimpleNamespace(**dict(zip(field_names(t), items)))
        return tuple(items)
    if k == "vector":
        items = [py_value(drv, t[1], x, variant) for x in v]
        return tuple(items) if variant == "B" else items
    raise ValueError(t)


# ------------------------------------------------------------------ canonical form of decoded objects

def canon(obj):
    """a decoded object as plain data that also names its Python type (so 1 / True / 1.0, list / tuple / sortedset,
    dict / OrderedMapSerializedKey are told apart).  Classes are recognised by name: it must work for both builds."""
    if obj is None:
        return None
    ty = type(obj)
    if ty is bool:
        return ("bool", obj)
    if ty is int:
        return ("int", obj)
    if ty is str:
        return ("str", obj)
    if ty is bytes:
        return ("bytes", obj.hex())
    if ty is list:
        return ("list", [canon(x) for x in obj])
    if ty is tuple:
        return ("tuple", [canon(x) for x in obj])
    if ty is decimal.Decimal:
        return ("decimal",) + tuple(obj.as_tuple())
    if ty is datetime.datetime:
        return ("datetime", obj.isoformat(), obj.tzinfo is None)
    if ty is uuid.UUID:
        return ("uuid", obj.hex)
    name = ty.__name__
    if name == "Date" and hasattr(obj, "days_from_epoch"):
        return ("date", obj.days_from_epoch)
    if name == "Time" and hasattr(obj, "nanosecond_time"):
        return ("time", obj.nanosecond_time)
    if name == "Duration":
        return ("duration", obj.months, obj.days, obj.nanoseconds)
    if name == "SortedSet":
        return ("sortedset", [canon(x) for x in obj])
    if name == "OrderedMapSerializedKey":
        return ("omap", [[canon(k), canon(v)] for k, v in obj.items()])
    if isinstance(obj, tuple) and hasattr(ty, "_fields"):
        return ("udt", list(ty._fields), [canon(x) for x in obj])
    return ("other", "%s.%s" % (ty.__module__, name), repr(obj))


def expected_scalar(k, x):
    if k == "boolean":
        return ("bool", bool(x))
    if k in ("tinyint", "smallint", "int", "bigint", "counter", "varint"):
        return ("int", number(x))
    if k == "timestamp":
        return ("datetime", (EPOCH + datetime.timedelta(milliseconds=x)).isoformat(), True)
    if k == "time":
        return ("time", x)
    if k == "date":
        return ("date", x)
    if k == "decimal":
        scale, u = x[0], number(x[1])
        return ("decimal", 1 if u < 0 else 0, tuple(int(c) for c in str(abs(u))), -scale)
    if k == "duration":
        return ("duration", x[0], x[1], x[2])
    if k in ("text", "ascii"):
        return ("str", bytes(x).decode("utf8"))
    if k == "blob":
        return ("bytes", bytes(x).hex())
    if k in ("uuid", "timeuuid"):
        return ("uuid", bytes(x).hex())
    if k == "inet":
        return ("str", inet_text(x))
    raise ValueError(k)


def expected_opt(t, o):
    return None if not o else expected(t, o[0])


def expected(t, n):
    """canonical form of the object Norm(ty, val) denotes"""
    k = t[0]
    if is_scalar(t):
        return expected_scalar(k, n)
    if k == "list":
        return ("list", [expected_opt(t[1], o) for o in n])
    if k == "set":
        return ("sortedset", [expected_opt(t[1], o) for o in n])
    if k == "map":
        return ("omap", [[expected_opt(t[1], ko), expected_opt(t[2], vo)] for ko, vo in n])
    if k == "tuple":
        return ("tuple", [expected_opt(x, o) for x, o in zip(t[1], n)])
    if k == "udt":
        return ("udt", list(field_names(t)), [expected_opt(x, o) for x, o in zip(t[1], n)])
    if k == "vector":
        return ("list", [expected(t[1], x) for x in n])
    raise ValueError(t)


def expected_cell(t, n):
    """expectation of a null / empty cell state (norm is an option)"""
    return None if not n else expected(t, n[0])


def jsonable(c):
    return json.loads(json.dumps(c, default=repr))


# ------------------------------------------------------------------ judging one case

def _err(ex):
    return "%s: %s" % (type(ex).__name__, str(ex)[:160])


def encode_variants(t):
    """input forms whose bytes are compared with Enc (sets must keep the given order)"""
    return ("seq", "B") if "set" not in tkey(t) else ("seq",)


def sig_of(half, st, detail=None):
    """stable signature of a deviation: which half, where in the grammar, which structural feature"""
    t, v = st["ty"], st["val"]
    feats = features(t, v) if st["expect"] == "ok" else set()
    if "null-collection-element" in feats:
        return "%s:collection-null-element" % half
    return "%s:%s%s" % (half, t[0], ":" + detail if detail else "")      # scalar name / top-level composite kind


def unusable_sig(half, pv):
    return "%s:decoded-map-unreadable:%s" % (half, "pre-v3" if pv < 3 else "v3+")


def judge_encode(drv, st):
    """C02, encode half: to_binary(value, pv) must be exactly Enc; an out-of-range value must raise.
    -> list of (signature, message, detail dict)"""
    t, pv = st["ty"], st["pv"]
    T = drv.cass_type(t)
    out = []
    if st["expect"] == "raise":
        for variant in ("A", "B"):
            try:
                b = T.to_binary(py_value(drv, t, st["val"], variant), pv)
            except Exception:
                continue
            inner = sorted(scalars_of(t) & {"tinyint", "smallint", "int", "date", "bigint", "counter", "decimal"})
            out.append(("range:%s:not-raised" % "/".join(inner),
                        "out-of-range value encoded instead of refused", {"variant": variant, "real": b.hex()}))
            break
        return out
    want = bytes(st["enc"])
    if "null-collection-element" in features(t, st["val"]):
        return out                      # not judged: see encode_null_element_outcome
    for variant in encode_variants(t):
        try:
            got = T.to_binary(py_value(drv, t, st["val"], variant), pv)
        except Exception as ex:
            out.append((sig_of("encode", st, "raised"), "to_binary raised %s" % _err(ex), {"variant": variant}))
            continue
        if got != want:
            out.append((sig_of("encode", st), "to_binary differs from Cassandra's serializer",
                        {"variant": variant, "real": bytes(got).hex(), "spec": want.hex()}))
            break
    return out


def encode_null_element_outcome(drv, st):
    """A value with a null element inside a list / set / map.  Cassandra refuses such a value on write ("null is not
    supported inside collections"), its low-level CollectionSerializer.writeValue writes the length -1 for a null
    buffer (what Codec.tla's Enc says, and what decodes as null), while its typed element serializers turn a null of a
    non-string type into the legacy EMPTY value (length 0).  The reference is not unique, so the bytes the driver
    writes are recorded, not judged (C01 judges whether such a value survives the round trip)."""
    T = drv.cass_type(st["ty"])
    try:
        got = T.to_binary(py_value(drv, st["ty"], st["val"], "seq"), st["pv"])
    except Exception as ex:
        return "raised:" + type(ex).__name__
    if got == bytes(st["enc"]):
        return "length -1 (Codec.tla Enc)"
    want = bytes(st["enc"])
    if len(got) == len(want) and all(a == b or (b == 0xFF and a == 0) for a, b in zip(got, want)):
        return "length 0 (legacy empty value)"
    return "other"


def judge_decode(drv, st):
    """C02, decode half: every encoding in Cassandra's image decodes to the value it means."""
    t, pv = st["ty"], st["pv"]
    T = drv.cass_type(t)
    out = []
    if st["expect"] in ("null", "empty"):
        cell = None if st["expect"] == "null" else b""
        exp = expected_cell(t, st["norm"])
        try:
            got = canon(T.from_binary(cell, pv))
        except Exception as ex:
            return [("decode:%s-cell:raised" % st["expect"], "from_binary(%r) raised %s" % (cell, _err(ex)), {})]
        if jsonable(got) != jsonable(exp):
            out.append(("decode:%s-cell" % st["expect"], "from_binary(%r) is not the documented value" % (cell,),
                        {"real": jsonable(got), "spec": jsonable(exp)}))
        return out
    exp = jsonable(expected(t, st["norm"]))
    for e in st["img"]:
        short = len(e) != len(st["enc"])
        try:
            obj = T.from_binary(bytes(e), pv)
        except Exception as ex:
            out.append((sig_of("decode", st, "short-udt:raised" if short else "raised"),
                        "from_binary raised %s" % _err(ex), {"bytes": bytes(e).hex()}))
            continue
        try:
            got = jsonable(canon(obj))
        except Exception as ex:
            out.append((unusable_sig("decode", pv), "the decoded object cannot be read back (iterating a decoded map's "
                        "items raised %s)" % _err(ex), {"bytes": bytes(e).hex()}))
            continue
        if got != exp:
            out.append((sig_of("decode", st, "short-udt" if short else None),
                        "from_binary does not return the value the bytes mean",
                        {"bytes": bytes(e).hex(), "real": got, "spec": exp}))
    return out


def judge_roundtrip(drv, st, versions):
    """C01: from_binary(to_binary(v, pv), pv) = Norm(v) for every input form and every version of the layout class."""
    t = st["ty"]
    T = drv.cass_type(t)
    exp = jsonable(expected(t, st["norm"]))
    out = []
    n = 0
    for pv in versions:
        for variant in ("A", "B"):
            n += 1
            try:
                b = T.to_binary(py_value(drv, t, st["val"], variant), pv)
                obj = T.from_binary(b, pv)
            except Exception as ex:
                out.append((sig_of("roundtrip", st, "raised"), "round trip raised %s" % _err(ex),
                            {"variant": variant, "pv": pv}))
                break
            try:
                got = jsonable(canon(obj))
            except Exception as ex:
                out.append((unusable_sig("roundtrip", pv), "the decoded object cannot be read back (iterating a decoded "
                            "map's items raised %s)" % _err(ex), {"variant": variant, "pv": pv, "bytes": bytes(b).hex()}))
                break
            if got != exp:
                out.append((sig_of("roundtrip", st), "decode(encode(v)) is not v up to the documented normalisation",
                            {"variant": variant, "pv": pv, "bytes": bytes(b).hex(), "real": got, "spec": exp}))
                break
        else:
            continue
        break
    return n, out


def verdict(devs):
    """the judgement of a case as comparable data"""
    return sorted((d[0], json.dumps(jsonable(d[2]), sort_keys=True)) for d in devs)


def nontrivial(st):
    """a case is non-trivial unless it is a lone scalar with a one-byte-class value or an empty top-level collection"""
    if st["expect"] != "ok":
        return True
    if is_scalar(st["ty"]):
        return len(st["enc"]) > 1
    return len(st["val"]) > 0


def case_id(st):
    return hashlib.blake2b(json.dumps([st["ty"], st["pv"], st["val"], st["expect"]], sort_keys=True).encode(),
                           digest_size=10).hexdigest()


def describe(st):
    if st.get("big"):
        return {"type": cql_name(st["ty"]), "pv": st["pv"], "value": "compact: " + st["big"], "expect": "ok",
                "enc": bytes(st["enc"][:24]).hex() + "... (%d bytes)" % len(st["enc"])}
    d = {"type": cql_name(st["ty"]), "pv": st["pv"], "value": st["val"], "expect": st["expect"]}
    if st["expect"] == "ok":
        d["enc"] = bytes(st["enc"]).hex()
        d["norm"] = st["norm"]
    return d


# ------------------------------------------------------------------ TLC configurations shared by C01 / C02 / C07

ALL_SCALARS = {"boolean", "tinyint", "smallint", "int", "bigint", "counter", "timestamp", "time", "varint", "decimal",
               "date", "duration", "ascii", "text", "blob", "uuid", "timeuuid", "inet"}
INVARIANTS = ["TypeOK", "RoundTrip", "LengthConsistent", "FixedWidths", "NormIdempotent", "VarintMinimal",
              "VintCanonical", "WidthRule", "RaiseJustified", "WideRoundTrip", "WideMinimal", "WideAgrees32", "WideLong", "BigOK"]
WITNESSES = ["Witness_NullField", "Witness_WideNeg8", "Witness_BigCountV2", "Witness_BigVec14", "Witness_AwareOffset", "Witness_ShortUdt", "Witness_Wide9",
             "Witness_WideRaise", "Witness_V2Width", "Witness_Vint5", "Witness_Varint3",
             "Witness_Raise", "Witness_VarVector", "Witness_LongVecElem"]
VEC_SCALARS = {"int", "bigint", "timestamp", "boolean", "uuid", "text", "varint", "blob", "decimal", "inet"}


def constants(quick, families):
    if quick:
        return dict(PVs={2, 3, 4, 5}, Families=set(families), TopScalars=ALL_SCALARS,
                    ElemScalars=ALL_SCALARS - {"counter"}, KeyScalars={"int", "text", "varint", "uuid"},
                    ValScalars={"int", "text", "varint", "decimal", "date", "blob"},
                    FieldScalars={"int", "text", "varint", "duration", "boolean"},
                    VecScalars={"int", "bigint", "boolean", "uuid", "text", "varint", "blob"},
                    B0=30, B1=9, B2=3, B3=3, Rich=False)
    return dict(PVs={2, 3, 4, 5}, Families=set(families), TopScalars=ALL_SCALARS,
                ElemScalars=ALL_SCALARS - {"counter"}, KeyScalars={"int", "text", "varint", "uuid", "date", "blob", "boolean"},
                ValScalars=ALL_SCALARS - {"counter"},
                FieldScalars={"int", "text", "varint", "duration", "boolean", "decimal", "date", "blob", "inet"},
                VecScalars=VEC_SCALARS, B0=400, B1=30, B2=6, B3=3, Rich=True)


def runs(quick):
    """(label, families) per TLC run"""
    if quick:
        return [("scalars, depth-1 composites, range errors, nesting to depth 3 (small alphabets)",
                 ["scalar", "list", "set", "map", "tuple", "udt", "vector", "range", "tz", "wide", "inettext", "big", "nest2", "nest3"])]
    return [("scalars (full boundary alphabets), lists, sets, range errors, timestamps as wall clock + UTC offset, wide integers, inet as mixed text, 16-bit / vint length boundaries",
             ["scalar", "list", "set", "range", "tz", "wide", "inettext", "big"]),
            ("maps", ["map"]),
            ("tuples, UDTs, vectors", ["tuple", "udt", "vector"]),
            ("nesting depth 2", ["nest2"]),
            ("nesting depth 3", ["nest3"])]


JVM = {"JAVA_TOOL_OPTIONS": "-XX:TieredStopAtLevel=1 -XX:ParallelGCThreads=2 -Xms1g"}


def enumerate_cases(ctx, tlc, module="Codec"):
    """run TLC over the configured families; yields (label, states); on an invariant violation of the specification
    reports it and returns None"""
    import os
    from harness.replay import wire_bind as wb
    out = []
    for i, (label, fams) in enumerate(runs(ctx.quick)):
        consts = constants(ctx.quick, fams)
        cfg = tlc.write_cfg(os.path.join(ctx.scratch, "Codec_%d.cfg" % i), constants=consts, invariants=INVARIANTS,
                            deadlock=False)
        res, states = wb.enumerate_fast(tlc, module, cfg, ctx.scratch, timeout=900 if ctx.quick else 3000,
                                        env=JVM if ctx.quick else None)
        ctx.add_tlc(res, label)
        if res.violation:
            ctx.violation("TLC: invariant %s violated in Codec.tla (the reference codec itself is inconsistent)"
                          % res.invariant, replay={"trace": [s for _, s in res.trace()]},
                          signature="spec:" + str(res.invariant))
            return None
        seen = {s["expect"] for s in states}
        need = {"ok": "Case", "null": "CellCase", "empty": "CellCase"}
        if "range" in fams:
            need["raise"] = "RangeCase"
        if "wide" in fams and not {"wide", "wraise"} <= seen:
            raise tlc.MachineryError("vacuity: action WideCase never taken (both outcomes) in run %s" % label)
        if "big" in fams and "big" not in seen:
            raise tlc.MachineryError("vacuity: action BigCase never taken in run %s" % label)
        for s_ in states:
            if s_["expect"] == "big":
                expand_big(s_)
        for s_ in states:                      # the harness treats a wide-integer case like any other
            if s_["expect"] == "wide":
                s_["expect"] = "ok"
            elif s_["expect"] == "wraise":
                s_["expect"] = "raise"
        if "inettext" in fams and not any("inet-mixed-text" in features(s_["ty"], s_["val"]) for s_ in states if s_["expect"] == "ok"):
            raise tlc.MachineryError("vacuity: action InetTextCase never taken in run %s" % label)
        if "tz" in fams and not any(isinstance(s["val"], dict) and "wall" in s["val"] for s in states if s["expect"] == "ok"):
            raise tlc.MachineryError("vacuity: action TzCase never taken in run %s" % label)
        for k, action in need.items():
            if k not in seen:
                raise tlc.MachineryError("vacuity: action %s never taken in run %s" % (action, label))
        out.append((label, [s for s in states if s["expect"] != "seed"]))
    return out


def check_witnesses(ctx, tlc):
    """vacuity: TLC must VIOLATE each witness on a small configuration"""
    import os
    consts = constants(True, ["scalar", "list", "tuple", "udt", "vector", "range", "tz", "wide", "big"])
    consts.update(TopScalars={"varint", "duration"}, ElemScalars={"int"}, FieldScalars={"int", "text"},
                  VecScalars={"text"}, B0=9)
    names = WITNESSES[:3] if ctx.quick else WITNESSES
    reached = 0
    for w in names:
        cfg = tlc.write_cfg(os.path.join(ctx.scratch, w + ".cfg"), constants=consts, invariants=[w], deadlock=False)
        res = tlc.check_model("Codec", cfg, ctx.scratch, timeout=600, env=JVM, workers=4)
        if res.invariant != w:
            raise tlc.MachineryError("vacuity witness %s was not reached" % w)
        reached += 1
    ctx.note("vacuity_witnesses_reached", reached)


def expand_big(st):
    """a compactly described large value (Codec.tla BigShapes) -> the ordinary explicit form"""
    e, v = st["enc"], st["val"]
    enc = list(e["pre"]) + list(e["unit"]) * e["n"] + list(e["post"])
    kind = v["kind"]
    if kind == "count":
        val = [[list(v["elem"])] for _ in range(v["n"])]
    else:
        big, small = list(v["elem"]) * v["n"], [98]
        val = [[big], [small]] if kind == "elemsize" else [big, small]
    st.update(enc=enc, img=[enc], val=val, norm=val, expect="ok", big="%s:%d" % (kind, v["n"]))


def census(cases):
    """cases per family (top-level kind) and per structural feature; raises on an empty class (vacuity)"""
    fam, feats = {}, {}
    for st in cases:
        k = st["ty"][0] if not is_scalar(st["ty"]) else "scalar"
        f = fam.setdefault(k, {"ok": 0, "raise": 0, "null": 0, "empty": 0})
        f[st["expect"]] += 1
        if st["expect"] == "ok":
            if st.get("big"):
                feats["length-boundary:" + st["big"].split(":")[0]] = feats.get("length-boundary:" + st["big"].split(":")[0], 0) + 1
                if st["pv"] < 3 and int(st["big"].split(":")[1]) > 32767:
                    feats["v2-unsigned-short-above-32767"] = feats.get("v2-unsigned-short-above-32767", 0) + 1
            for x in features(st["ty"], st["val"]):
                feats[x] = feats.get(x, 0) + 1
            if len(st["img"]) > 1:
                feats["short-udt-encodings"] = feats.get("short-udt-encodings", 0) + len(st["img"]) - 1
            if st["pv"] < 3 and not is_scalar(st["ty"]) and st["ty"][0] in ("list", "set", "map"):
                feats["v2-16bit-collection"] = feats.get("v2-16bit-collection", 0) + 1
            d = depth(st["ty"])
            feats["depth-%d" % d] = feats.get("depth-%d" % d, 0) + 1
    return fam, feats


# ------------------------------------------------------------------ C07: the same vectors through one build of the driver

RESULT_OPCODE = 0x08
ROWS_PER_MESSAGE = 400


def cells_of(st):
    """(cell bytes | None, expected canonical object) for every cell a state contributes to a ROWS body"""
    if st["expect"] == "null":
        return [(None, jsonable(expected_cell(st["ty"], st["norm"])))]
    if st["expect"] == "empty":
        return [(b"", jsonable(expected_cell(st["ty"], st["norm"])))]
    exp = jsonable(expected(st["ty"], st["norm"]))
    return [(bytes(e), exp) for e in st["img"]]


def rows_messages(states):
    """ROWS bodies assembled (harness.wire.body_rows) from the cells of the states: per (type, pv) two columns of that
    type; row i = (cell i, cell i+1).  -> list of (ty, pv, body, [(case id, cell, expected)] per row for column 1,
    same for column 2)"""
    from harness import wire
    groups = {}
    for st in states:
        if st["expect"] in ("ok", "null", "empty"):
            g = groups.setdefault((tkey(st["ty"]), st["pv"]), (st["ty"], st["pv"], []))
            cid = case_id(st)
            for cell, exp in cells_of(st):
                g[2].append((cid, cell, exp))
    out = []
    for key in sorted(groups, key=str):
        ty, pv, cells = groups[key]
        wt = wire_type(ty)
        for lo in range(0, len(cells), ROWS_PER_MESSAGE):
            chunk = cells[lo:lo + ROWS_PER_MESSAGE]
            second = chunk[1:] + chunk[:1]
            body = wire.body_rows([("c1", wt), ("c2", wt)], [[a[1], b[1]] for a, b in zip(chunk, second)])
            out.append((ty, pv, body, chunk, second))
    return out


def run_rows(proto, handler_names, states):
    """decode every ROWS body with the named protocol handlers of `proto`; -> (deviations: key -> record, rows, cells)"""
    devs = {}
    nrows = ncells = 0
    for ty, pv, body, col1, col2 in rows_messages(states):
        for hname in handler_names:
            handler = getattr(proto, hname)
            if handler is None:
                raise RuntimeError("protocol handler %s is not available in this build" % hname)
            try:
                msg = handler.decode_message(pv, {}, 1, 0, RESULT_OPCODE, body, None, None)
                rows = list(msg.parsed_rows)
                names, types_ = list(msg.column_names), msg.column_types
            except Exception as ex:
                # the whole message failed: find the rows that make it fail, one message per row
                rows = None
                err = _err(ex)
            if rows is None:
                from harness import wire
                wt = wire_type(ty)
                for a, b in zip(col1, col2):
                    nrows += 1
                    ncells += 2
                    one = wire.body_rows([("c1", wt), ("c2", wt)], [[a[1], a[1]]])
                    try:
                        m1 = handler.decode_message(pv, {}, 1, 0, RESULT_OPCODE, one, None, None)
                        got = jsonable(canon(list(m1.parsed_rows)[0][0]))
                        if got != a[2]:
                            devs["rows|%s|%s|%s" % (hname, a[0], _cellkey(a[1]))] = {
                                "sig": "rows:%s" % cql_kind(ty), "handler": hname, "real": got, "spec": a[2],
                                "type": cql_name(ty), "pv": pv, "cell": _cellhex(a[1])}
                    except Exception as ex1:
                        devs["rows|%s|%s|%s" % (hname, a[0], _cellkey(a[1]))] = {
                            "sig": "rows:%s:raised" % cql_kind(ty), "handler": hname, "real": "raised " + _err(ex1),
                            "spec": a[2], "type": cql_name(ty), "pv": pv, "cell": _cellhex(a[1])}
                continue
            if names != ["c1", "c2"] or len(rows) != len(col1):
                devs["rows|%s|%s|%d|shape" % (hname, tkey(ty), pv)] = {
                    "sig": "rows:shape", "handler": hname, "real": [names, len(rows)], "spec": [["c1", "c2"], len(col1)],
                    "type": cql_name(ty), "pv": pv, "cell": ""}
                continue
            for row, a, b in zip(rows, col1, col2):
                nrows += 1
                for got_obj, c in ((row[0], a), (row[1], b)):
                    ncells += 1
                    try:
                        got = jsonable(canon(got_obj))
                    except Exception as ex2:
                        got = "unreadable: " + _err(ex2)
                    if got != c[2]:
                        devs["rows|%s|%s|%s" % (hname, c[0], _cellkey(c[1]))] = {
                            "sig": "rows:%s" % cql_kind(ty), "handler": hname, "real": got, "spec": c[2],
                            "type": cql_name(ty), "pv": pv, "cell": _cellhex(c[1])}
    return devs, nrows, ncells


def cql_kind(t):
    return t[0] if is_scalar(t) else "%s<%s>" % (t[0], "/".join(sorted(scalars_of(t))))


def _cellkey(cell):
    return "null" if cell is None else hashlib.blake2b(cell, digest_size=8).hexdigest()


def _cellhex(cell):
    return "null" if cell is None else cell.hex()


def run_vectors(drv, proto, handler_names, states):
    """Every vector through one build: cqltypes to_binary / from_binary (the C02 judgement, and the C01 round trip at the
    case's own version) and the ROWS bodies through the protocol handlers.  -> {"devs": key -> record, counters}"""
    devs = {}
    n = 0
    for st in states:
        cid = case_id(st)
        found = []
        if st["expect"] in ("ok", "raise"):
            found += judge_encode(drv, st)
        if st["expect"] != "raise":
            found += judge_decode(drv, st)
        if st["expect"] == "ok":
            found += judge_roundtrip(drv, st, (st["pv"],))[1]
        n += 1
        for sig, msg, detail in found:
            devs["types|%s|%s|%s" % (cid, sig.split(":")[0], detail.get("bytes") or detail.get("variant") or "")] = {"sig": "types:" + sig, "real": detail.get("real", msg), "spec": detail.get("spec"),
                                              "type": cql_name(st["ty"]), "pv": st["pv"], "value": st["val"],
                                              "cell": detail.get("bytes", "")}
    rdevs, nrows, ncells = run_rows(proto, handler_names, states)
    devs.update(rdevs)
    return {"devs": devs, "cases": n, "rows": nrows, "cells": ncells}


COMPILED_MODULES = ("bytesio", "cython_utils", "deserializers", "obj_parser", "parsing", "row_parser",
                    "cqltypes", "protocol", "util", "cmurmur3")


def worker_main(argv):
    """subprocess entry for C07: argv = [build_dir, states.json, out.json]; imports the driver from build_dir, where the
    extension modules were built, checks that they really are the compiled ones, runs every vector."""
    import importlib
    import os
    import sys
    build_dir, states_path, out_path = argv
    sys.path.insert(0, build_dir)
    verif = os.path.dirname(os.path.dirname(os.path.dirname(os.path.abspath(__file__))))
    if verif not in sys.path:
        sys.path.append(verif)
    import logging
    logging.getLogger("cassandra").setLevel(logging.CRITICAL + 1)
    import cassandra
    info = {"cassandra": os.path.abspath(cassandra.__file__), "modules": {}}
    if not info["cassandra"].startswith(os.path.abspath(build_dir) + os.sep):
        raise RuntimeError("cassandra imported from %s, not from the build in %s" % (info["cassandra"], build_dir))
    for m in COMPILED_MODULES:
        mod = importlib.import_module("cassandra." + m)
        f = os.path.abspath(mod.__file__)
        info["modules"][m] = os.path.basename(f)
        if not f.endswith(".so") or not f.startswith(os.path.abspath(build_dir) + os.sep):
            raise RuntimeError("cassandra.%s is not a compiled module of the build: %s" % (m, f))
    from cassandra import cython_deps, protocol, cqltypes, util
    if not cython_deps.HAVE_CYTHON:
        raise RuntimeError("HAVE_CYTHON is false in the compiled build")
    if protocol.ProtocolHandler.__name__ != "CythonProtocolHandler" or protocol.LazyProtocolHandler is None:
        raise RuntimeError("cassandra.protocol.ProtocolHandler is not the Cython handler: %r" % (protocol.ProtocolHandler,))
    info["handler"] = protocol.ProtocolHandler.__name__
    info["col_parsers"] = [type(protocol.ProtocolHandler.col_parser).__name__, type(protocol.LazyProtocolHandler.col_parser).__name__]
    with open(states_path) as f:
        states = json.load(f)
    res = run_vectors(Driver(cqltypes, util), protocol, ("ProtocolHandler", "LazyProtocolHandler"), states)
    res["info"] = info
    with open(out_path, "w") as f:
        json.dump(res, f)


# started as: python -c "import sys; sys.path.insert(0, VERIF); from harness.replay import codec; codec.worker_main(sys.argv[1:])"
# (never as a script: this directory holds modules named like standard ones)
