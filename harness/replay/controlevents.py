"""Binding between spec/ControlEvents.tla and the real Cluster / ControlConnection / reconnection handlers.

A real Cluster (no session left: the one `connect()` returns is shut down and dropped) runs over FakeNodes
10.0.0.<h>; 10.0.0.1 is the contact point.  The thread pool and the scheduler thread are the simulation's
SimExecutor (queueing) and SimScheduler, so each action of the specification is one harness operation:

  Exec(t)        run the queued executor task with descriptor t; ControlConnection._reconnect and
                 _ControlReconnectionHandler.run are logical threads (DetSched) that stop where the query plan hands
                 out its next host and where _reconnect_internal returns the new connection
  RcStep(r)      let the reconnection thread with descriptor r run to its next stop (or its end); a handler's run()
                 also stops between its `if not self._cancelled` and _set_new_connection
  Fire(e)        the scheduler hands entry e to the executor
  Push           a FakeNode pushes an EVENT frame on an open, registered connection of the driver
  RingAdd/RingRemove   the membership every node reports changes, and NEW_NODE / REMOVED_NODE is pushed on every
                 open registered connection
  NodeMode       a node stops / starts accepting connections;  ConnDie: socket error on the installed control
                 connection;  Heartbeat: what ConnectionHeartbeat does with a dead connection: return_connection
  ShutA/B/C      Cluster.shutdown() as a logical thread, stopped before control_connection.shutdown() and before
                 executor.shutdown()

After every step project() reads the real objects in the shape of the specification's variables.
"""
import inspect
import random as _random
from collections import Counter

from harness.sim import simcluster
from harness.sim.simcluster import SimWorld, FakeNode, make_cluster
from harness.sim.detsched import DetSched
from harness import wire

import cassandra.cluster as ccluster
import cassandra.pool as cpool
from cassandra.cluster import ExecutionProfile, EXEC_PROFILE_DEFAULT
from cassandra.policies import ConstantReconnectionPolicy, HostDistance, LoadBalancingPolicy

TASK_FIELDS = ("k", "h", "x", "c", "a")
THREAD_FIELDS = ("via", "canc", "att", "plan", "conn", "st")
WINDOWS = {"topology_change": 2.0, "status_change": 1.0, "schema_change": 5.0}
EVENT_TYPES = {"TOPOLOGY_CHANGE", "STATUS_CHANGE", "SCHEMA_CHANGE"}
RECONNECT_DELAY = 1.0
ENV_ACTIONS = ("Push", "RingAdd", "RingRemove", "NodeMode", "ConnDie", "Heartbeat")


def T(k, h=0, x="", c=False, a=None):
    """Task descriptor; a (CRecon only): the handler is the one ControlConnection._reconnection_handler refers to."""
    return (k, h, x, bool(c), bool(k == "CRecon" and not c) if a is None else bool(a))


def R(via, plan=(), conn=0, canc=False, att=None, st="run"):
    """Descriptor of a control reconnection in flight."""
    return (via, bool(canc), bool(via == "handler" and not canc) if att is None else bool(att), tuple(plan), conn, st)


def task_tuple(rec):
    return tuple(rec[f] for f in TASK_FIELDS)


def task_dict(t):
    return dict(zip(TASK_FIELDS, t))


def thread_tuple(rec):
    return (rec["via"], bool(rec["canc"]), bool(rec["att"]), tuple(rec["plan"]), rec["conn"], rec["st"])


def thread_dict(r):
    d = dict(zip(THREAD_FIELDS, r))
    d["plan"] = list(d["plan"])
    return d


NO_T = T("none")
NO_R = ("", False, False, (), 0, "run")


def addr_of(h):
    return "10.0.0.%d" % h


def num_of(addr):
    return int(str(addr).split(".")[3].split(":")[0])


class HarnessError(AssertionError):
    """The harness cannot perform the requested step on the real objects (turned into a divergence)."""


class _PlanIter:
    """Iterator a query plan is consumed through: a logical thread stops before it is handed its next host."""

    def __init__(self, hosts):
        self.hosts = list(hosts)

    def __iter__(self):
        return self

    def __next__(self):
        if DetSched.current is not None:
            DetSched.current.yield_point("next")
        if not self.hosts:
            raise StopIteration
        return self.hosts.pop(0)

    def remaining(self):
        return tuple(num_of(h.address) for h in self.hosts)


class PlanLBP(LoadBalancingPolicy):
    """Live hosts in ascending order; every notification recorded."""

    def __init__(self, owner=None):
        self.live = {}
        self.log = []
        self.owner = owner

    def distance(self, host):
        return HostDistance.LOCAL

    def populate(self, cluster, hosts):
        for h in hosts:
            self.live[num_of(h.address)] = h

    def make_query_plan(self, working_keyspace=None, query=None):
        it = _PlanIter([self.live[k] for k in sorted(self.live)])
        if self.owner is not None:
            self.owner._plan_made(it)
        return it

    def check_supported(self):
        pass

    def on_up(self, host):
        self.log.append(("up", num_of(host.address)))
        self.live[num_of(host.address)] = host

    def on_down(self, host):
        self.log.append(("down", num_of(host.address)))
        self.live.pop(num_of(host.address), None)

    def on_add(self, host):
        self.log.append(("add", num_of(host.address)))
        self.live[num_of(host.address)] = host

    def on_remove(self, host):
        self.log.append(("remove", num_of(host.address)))
        self.live.pop(num_of(host.address), None)


class EventsHarness:
    VARS = ("known", "up", "lbp", "hrec", "ctl", "chand", "exec", "sched", "rcs", "em", "phase", "nopen", "watch", "late")

    def __init__(self, consts, seed=0):
        self.consts = consts
        self.hosts = sorted(consts["Hosts"])
        self.ring = set(consts["Ring0"])
        self.ever = set(self.ring)
        self.alive = set(self.ring)
        self.topo_on = _truth(consts["TopoOn"])
        self.schema_on = _truth(consts["SchemaOn"])
        self.rng = _random.Random(seed)
        self.world = w = SimWorld()
        self.nodes = {h: w.add_node(FakeNode(addr_of(h), tokens=["%d0" % h])) for h in self.hosts}
        self._set_membership()
        self.lbp = PlanLBP(self)
        profiles = {EXEC_PROFILE_DEFAULT: ExecutionProfile(load_balancing_policy=self.lbp, request_timeout=10.0)}
        # the graph profiles the Cluster would add wrap the *default* policy object (it would hear everything 4 times)
        for key, cls in ((ccluster.EXEC_PROFILE_GRAPH_DEFAULT, ccluster.GraphExecutionProfile),
                         (ccluster.EXEC_PROFILE_GRAPH_SYSTEM_DEFAULT, ccluster.GraphExecutionProfile),
                         (ccluster.EXEC_PROFILE_GRAPH_ANALYTICS_DEFAULT, ccluster.GraphAnalyticsExecutionProfile)):
            profiles[key] = cls(load_balancing_policy=PlanLBP())
        self.cluster = make_cluster(
            w, [addr_of(1)], inline=True, execution_profiles=profiles,
            reconnection_policy=ConstantReconnectionPolicy(RECONNECT_DELAY, max_attempts=None),
            topology_event_refresh_window=WINDOWS["topology_change"] if self.topo_on else -1,
            schema_event_refresh_window=WINDOWS["schema_change"] if self.schema_on else -1,
            status_event_refresh_window=WINDOWS["status_change"])
        ccluster.random = self.rng.random          # _delay_for_event_type: `from random import random`
        self.ds = DetSched()
        session = self.cluster.connect()
        session.shutdown()
        self.cluster.sessions.discard(session)
        del session
        self.cc = self.cluster.control_connection
        self.ex = self.cluster.executor
        self.sch = self.cluster.scheduler
        self.ex.inline = False
        self.hostobj = {}
        self._see_hosts()
        self.threads = []            # control reconnections in flight: dict(name, via, handler, plan, conn)
        self._nthreads = 0
        self.plans = {}              # logical thread name -> _PlanIter
        self.newconn = {}            # logical thread name -> connection returned by _reconnect_internal
        self.schema_log = []
        self.sched_log = []          # (delay, descriptor) of every accepted scheduler entry
        self.late = []
        self.n_events = Counter()
        self.shut_thread = None
        self.shut_at = None
        self._lmark = len(self.lbp.log)
        self._smark = 0
        self._instrument()

    # ------------------------------------------------------------------ instrumentation (instance attributes only)
    def _instrument(self):
        cc, h = self.cc, self
        real_internal = cc._reconnect_internal

        def reconnect_internal_with_stop():
            conn = real_internal()
            th = h.ds.active
            if th is not None:
                h.newconn[th.name] = conn
                h.ds.yield_point("set")
            return conn
        cc._reconnect_internal = reconnect_internal_with_stop
        real_set = cc._set_new_connection

        def set_new_connection_with_stop(conn):
            th = h.ds.active
            if th is not None and any(x["name"] == th.name and x["via"] == "handler" for x in h.threads):
                h.ds.yield_point("install")
            return real_set(conn)
        cc._set_new_connection = set_new_connection_with_stop
        real_schema = cc._refresh_schema

        def refresh_schema_spy(connection, preloaded_results=None, schema_agreement_wait=None, force=False, **kwargs):
            r = real_schema(connection, preloaded_results=preloaded_results, schema_agreement_wait=schema_agreement_wait,
                            force=force, **kwargs)
            if r:
                h.schema_log.append(("schema", _target_of(kwargs)))
            return r
        cc._refresh_schema = refresh_schema_spy
        real_insert = self.sch._insert_task

        def insert_task_logged(delay, task):
            if not h.sch.is_shutdown:
                h.sched_log.append((delay, h.describe(task[0], task[1], dict(task[2]))))
            return real_insert(delay, task)
        self.sch._insert_task = insert_task_logged
        real_cc_shutdown = cc.shutdown

        def cc_shutdown_with_stop():
            h.ds.yield_point("cc.shutdown")
            return real_cc_shutdown()
        cc.shutdown = cc_shutdown_with_stop
        real_ex_shutdown = self.ex.shutdown

        def ex_shutdown_with_stop(*a, **k):
            h.ds.yield_point("executor.shutdown")
            return real_ex_shutdown(*a, **k)
        self.ex.shutdown = ex_shutdown_with_stop

    def _plan_made(self, it):
        th = self.ds.active if getattr(self, "ds", None) is not None else None
        if th is not None:
            self.plans[th.name] = it

    def _set_membership(self):
        for h, n in self.nodes.items():
            n.accepting = h in self.alive
            n.peers = [self.nodes[x] for x in sorted(self.ring) if x != h]

    def _see_hosts(self):
        for host in self.cluster.metadata.all_hosts():
            self.hostobj.setdefault(num_of(host.address), host)

    # ------------------------------------------------------------------ descriptors
    def describe(self, fn, args=(), kwargs=None):
        kwargs = dict(kwargs or {})
        name = getattr(fn, "__name__", None) or getattr(getattr(fn, "func", None), "__name__", "?")
        owner = getattr(fn, "__self__", None)
        try:
            if name == "_refresh_nodes_if_not_up":
                return T("RefreshIf", 0 if args[0] is None else num_of(args[0].address))
            if name == "refresh_node_list_and_token_map":
                return T("Refresh")
            if name == "on_up" and isinstance(owner, ccluster.Cluster):
                return T("OnUp", num_of(args[0].address))
            if name == "remove_host":
                return T("RemoveHost", 0 if args[0] is None else num_of(args[0].address))
            if name == "refresh_schema":
                return T("Schema", 0, _target_of(kwargs))
            if name == "on_down" and owner is None:
                ba = inspect.signature(fn).bind(*args, **kwargs)
                ba.apply_defaults()
                a = ba.arguments
                if a["is_host_addition"] or a["expect_host_to_be_down"]:
                    return T("OnDown?flags", num_of(a["host"].address))
                return T("OnDown", num_of(a["host"].address))
            if name == "_reconnect" and isinstance(owner, ccluster.ControlConnection):
                return T("Reconnect")
            if name == "run" and isinstance(owner, ccluster._ControlReconnectionHandler):
                return T("CRecon", c=owner._cancelled, a=owner is self.cc._reconnection_handler)
            if name == "run" and isinstance(owner, cpool._HostReconnectionHandler):
                return T("HRecon", num_of(owner.host.address), c=owner._cancelled)
        except Exception as ex:          # a mutated driver may queue things of another shape
            return T("?%s:%s" % (name, type(ex).__name__))
        return T("?" + str(name))

    def exec_items(self):
        return [(self.describe(t.fn, t.args, t.kwargs), t) for t in self.ex.queue if not t.future.cancelled()]

    def sched_items(self):
        return [(self.describe(e[2][0], e[2][1], dict(e[2][2])), e) for e in self.sch.tasks]

    def _thread_desc(self, th):
        hd = th["handler"]
        it = self.plans.get(th["name"])
        conn = self.newconn.get(th["name"])
        return (th["via"], bool(hd._cancelled) if hd is not None else False,
                hd is not None and hd is self.cc._reconnection_handler, it.remaining() if it is not None else (),
                num_of(conn.endpoint.address) if conn is not None else 0, "inst" if th.get("at") == "install" else "run")

    # ------------------------------------------------------------------ actions
    def do(self, act):
        getattr(self, "act_" + act["name"])(act)
        return self.project()

    def _spawn(self, prefix, fn, *args):
        self._nthreads += 1
        name = "%s%d" % (prefix, self._nthreads)
        self.ds.spawn(name, fn, *args)
        return name

    def _advance(self, th):
        """Let a reconnection thread run to its next stop; forget it when it has ended."""
        lab = self.ds.run_until(th["name"], lambda l: l in ("next", "set", "install"))
        th["at"] = lab
        if lab == "end":
            self.threads.remove(th)
            self.plans.pop(th["name"], None)
            self.newconn.pop(th["name"], None)

    def act_Exec(self, act):
        want = task_tuple(act["t"])
        for d, t in self.exec_items():
            if d == want:
                break
        else:
            raise HarnessError("no queued executor task %s; queue=%s" % (want, [d for d, _ in self.exec_items()]))
        if want[0] in ("Reconnect", "CRecon"):
            owner = getattr(t.fn, "__self__", None)
            handler = owner if want[0] == "CRecon" else None
            th = {"name": None, "via": "handler" if handler is not None else "direct", "handler": handler}
            self.threads.append(th)
            th["name"] = self._spawn("RC", self.ex.run, t)
            self._advance(th)
            return
        self.ex.run(t)

    def act_Fire(self, act):
        want = task_tuple(act["t"])
        for d, e in self.sched_items():
            if d == want:
                if self.sch.fire(e) is None:
                    raise HarnessError("the scheduler is shut down: entry %s not handed over" % (want,))
                return
        raise HarnessError("no scheduler entry %s; entries=%s" % (want, [d for d, _ in self.sched_items()]))

    def act_RcStep(self, act):
        want = thread_tuple(act["r"])
        for th in self.threads:
            if self._thread_desc(th) == want:
                self._advance(th)
                return
        raise HarnessError("no control reconnection in flight %s; in flight=%s"
                           % (want, [self._thread_desc(x) for x in self.threads]))

    def open_conns(self):
        """Connections of the driver that are open: the installed one first, then those of reconnections in flight."""
        out = []
        c = self.cc._connection
        if c is not None and not c.is_closed and not c.is_defunct:
            out.append(c)
        for th in self.threads:
            n = self.newconn.get(th["name"])
            if n is not None and not n.is_closed and not n.is_defunct and n not in out:
                out.append(n)
        return out

    def _event_body(self, conn, kind, h, x):
        if kind in ("NEW", "MOVED", "REMOVED"):
            self.n_events["topology_change"] += 1
            return wire.body_event_topology({"NEW": "NEW_NODE", "MOVED": "MOVED_NODE", "REMOVED": "REMOVED_NODE"}[kind],
                                            addr_of(h), 9042)
        if kind in ("UP", "DOWN"):
            self.n_events["status_change"] += 1
            return wire.body_event_status(kind, addr_of(h), 9042)
        self.n_events["schema_change"] += 1
        ks, _, rest = x.partition(".")
        if not rest:
            return wire.body_event_schema(conn.protocol_version, "UPDATED", "KEYSPACE", ks)
        if "(" in rest:
            name, _, args = rest.rstrip(")").partition("(")
            return wire.body_event_schema(conn.protocol_version, "UPDATED", "FUNCTION", ks, name, [a for a in args.split(",") if a])
        return wire.body_event_schema(conn.protocol_version, "UPDATED", "TABLE", ks, rest)

    def _push(self, conn, kind, h, x):
        node = self.nodes[num_of(conn.endpoint.address)]
        if not node.push_event(conn, self._event_body(conn, kind, h, x)):
            raise HarnessError("event not delivered on %s" % (conn.endpoint,))

    def act_Push(self, act):
        for conn in self.open_conns():
            if num_of(conn.endpoint.address) == act["c"]:
                self._push(conn, act["kind"], act["h"], act["x"])
                return
        raise HarnessError("the driver has no open connection to host %s" % act["c"])

    def act_RingAdd(self, act):
        h = act["h"]
        self.ring.add(h)
        self.ever.add(h)
        self.alive.add(h)
        self._set_membership()
        for conn in self.open_conns():
            self._push(conn, "NEW", h, "")

    def act_RingRemove(self, act):
        h = act["h"]
        if any(num_of(c.endpoint.address) == h for c in self.open_conns()):
            raise HarnessError("the driver has an open connection to the leaving host %s" % h)
        self.ring.discard(h)
        self.alive.discard(h)
        self._set_membership()
        for conn in self.open_conns():
            self._push(conn, "REMOVED", h, "")

    def act_NodeMode(self, act):
        h = act["h"]
        (self.alive.discard if h in self.alive else self.alive.add)(h)
        self._set_membership()

    def act_ConnDie(self, act):
        c = self.cc._connection
        if c is None or c.is_closed or c.is_defunct:
            raise HarnessError("no live control connection to break")
        c.socket_error()

    def act_Heartbeat(self, act):
        c = self.cc._connection
        if c is None or not (c.is_closed or c.is_defunct):
            raise HarnessError("the heartbeat has nothing to report")
        self.cc.return_connection(c)          # ConnectionHeartbeat.run: owner.return_connection(connection)

    def _shut_step(self, stop):
        if self.shut_thread is None:
            self.shut_thread = self._spawn("SD", self.cluster.shutdown)
        th = self.ds.threads[self.shut_thread]
        if th.done:
            raise HarnessError("Cluster.shutdown() has already returned")
        if stop is None:
            self.ds.finish(self.shut_thread)
            self.shut_at = "end"
            return
        if self.shut_at == stop:
            raise HarnessError("Cluster.shutdown() is already at %s" % stop)
        self.shut_at = self.ds.run_until(self.shut_thread, lambda l: l == stop)
        if self.shut_at != stop:
            raise HarnessError("Cluster.shutdown() ended without reaching %s" % stop)

    def act_ShutA(self, act):
        if self.shut_thread is not None:
            raise HarnessError("Cluster.shutdown() already started")
        self._shut_step("cc.shutdown")

    def act_ShutB(self, act):
        if self.shut_at != "cc.shutdown":
            raise HarnessError("Cluster.shutdown() is not about to shut the control connection down")
        self._shut_step("executor.shutdown")

    def act_ShutC(self, act):
        if self.shut_at != "executor.shutdown":
            raise HarnessError("Cluster.shutdown() is not about to shut the executor down")
        self._shut_step(None)

    # ------------------------------------------------------------------ projection
    def _check_delays(self):
        for delay, d in self.sched_log:
            k = d[0]
            if k == "RefreshIf":
                ok = -1e-9 <= delay <= WINDOWS["topology_change"] + 0.01 * self.n_events["topology_change"] + 1e-9
            elif k in ("OnUp", "Refresh"):
                ok = -1e-9 <= delay <= WINDOWS["status_change"] + 0.01 * self.n_events["status_change"] + 1e-9
            elif k == "Schema":
                ok = -1e-9 <= delay <= WINDOWS["schema_change"] + 0.01 * self.n_events["schema_change"] + 1e-9
            elif k == "RemoveHost":
                ok = delay == 0
            elif k in ("HRecon", "CRecon"):
                ok = abs(delay - RECONNECT_DELAY) < 1e-9
            else:
                ok = True
            if not ok:
                self.late.append((k, round(delay, 4)))
        self.sched_log = []

    def _watching(self):
        for conn in self.open_conns():
            node = self.nodes[num_of(conn.endpoint.address)]
            if set(node.registered.get(conn, ())) != EVENT_TYPES:
                return False
            pw = conn._push_watchers
            if any(not pw.get(t) for t in EVENT_TYPES):
                return False
        return True

    def project(self):
        self._see_hosts()
        md = self.cluster.metadata
        known = tuple(num_of(h.address) for h in md.all_hosts())
        up, hrec = {}, set()
        for h in self.hosts:
            obj = self.hostobj.get(h)
            if obj is None:
                up[h] = "N"
                continue
            up[h] = "T" if obj.is_up is True else "F" if obj.is_up is False else "N"
            if obj._reconnection_handler is not None:
                hrec.add(h)
        stray = [num_of(h.address) for h in md.all_hosts() if self.hostobj.get(num_of(h.address)) is not h]
        c = self.cc._connection
        if c is None:
            ctl = (0, "none")
        else:
            ctl = (num_of(c.endpoint.address), "defunct" if c.is_defunct else "closed" if c.is_closed else "open")
        ex = Counter(d for d, _ in self.exec_items())
        sc = Counter(d for d, _ in self.sched_items())
        rcs = Counter(self._thread_desc(th) for th in self.threads)
        em = sorted(self.lbp.log[self._lmark:] + self.schema_log[self._smark:], key=repr)
        self._lmark, self._smark = len(self.lbp.log), len(self.schema_log)
        flags = (bool(self.cluster.is_shutdown), bool(self.sch.is_shutdown), bool(self.cc._is_shutdown), bool(self.ex.is_shutdown))
        phase = {(False, False, False, False): 0, (True, True, False, False): 1, (True, True, True, False): 2,
                 (True, True, True, True): 3}.get(flags, -1)
        nopen = len(self.world.open_connections())
        nnode = sum(len(n.open_connections()) for n in self.nodes.values())
        self._check_delays()
        return {"known": known if not stray else ("stray-host-object", tuple(stray)), "up": up,
                "lbp": frozenset(self.lbp.live), "hrec": frozenset(hrec), "ctl": ctl,
                "chand": self.cc._reconnection_handler is not None, "exec": dict(ex), "sched": dict(sc), "rcs": dict(rcs),
                "em": em, "phase": phase, "nopen": nopen if nopen == nnode else (nopen, nnode),
                "watch": self._watching(), "late": tuple(self.late)}

    # ------------------------------------------------------------------ after shutdown() returned
    def returned(self):
        th = self.shut_thread and self.ds.threads[self.shut_thread]
        return bool(th and th.done and not self.exec_items() and not self.threads)

    def after_return_probe(self):
        """Everything that could still run once shutdown() has returned gets the chance to.  Returns what the
        property forbids (empty = fine)."""
        bad = {}
        before = len(self.world.conns)
        md_before = (tuple(num_of(h.address) for h in self.cluster.metadata.all_hosts()),
                     tuple(sorted((h, o.is_up) for h, o in self.hostobj.items())))
        fired = 0
        for _ in range(10):
            progressed = False
            for e in list(self.sch.tasks):
                try:
                    if self.sch.fire(e) is not None:
                        fired += 1
                        progressed = True
                except Exception:
                    pass
            try:
                if self.world.run_due_timers():
                    progressed = True
            except Exception:
                pass
            try:
                if self.ex.drain(limit=200):
                    progressed = True
            except Exception:
                pass
            if not progressed:
                break
        if fired:
            bad["scheduled_work_ran_after_shutdown"] = fired
        if len(self.world.conns) > before:
            bad["connections_opened_after_shutdown"] = len(self.world.conns) - before
        still = sorted(str(c.endpoint) for c in self.world.open_connections())
        if still:
            bad["connections_still_open"] = still
        md_after = (tuple(num_of(h.address) for h in self.cluster.metadata.all_hosts()),
                    tuple(sorted((h, o.is_up) for h, o in self.hostobj.items())))
        if md_after != md_before:
            bad["metadata_changed_after_shutdown"] = [md_before, md_after]
        return bad

    def close(self):
        try:
            if self.shut_thread is None:
                self.cluster.shutdown()
            elif not self.ds.threads[self.shut_thread].done:
                self.ds.finish(self.shut_thread)
        except Exception:
            pass
        for th in list(self.threads):
            try:
                self.ds.finish(th["name"])
            except Exception:
                pass
        for c in self.world.open_connections():
            try:
                c.close()
            except Exception:
                pass


def _truth(v):
    return v is True or v == "TRUE"


def _target_of(kwargs):
    """Name of what a schema refresh is about: the keyspace [.table/...]; 'all' for a full refresh."""
    if not kwargs.get("keyspace") and not kwargs.get("target_type"):
        return "all"
    out = str(kwargs.get("keyspace"))
    for k in ("table", "type", "function", "aggregate"):
        if kwargs.get(k):
            out += "." + str(getattr(kwargs[k], "signature", kwargs[k]))
    return out


# ---------------------------------------------------------------------- constants <-> scenario records
SC_FIELDS = (("hosts", "Hosts"), ("ring0", "Ring0"), ("targets", "Targets"), ("func", "FuncTargets"), ("kinds", "Kinds"),
             ("topo", "TopoOn"), ("schema", "SchemaOn"), ("ev", "MaxEvents"), ("nring", "MaxRing"), ("faults", "MaxFaults"),
             ("beats", "MaxBeats"))


def scenario_tla(consts):
    """One element of the specification's constant Scenarios, as TLA+ text."""
    from harness.tlaval import to_tla
    parts = []
    for f, k in SC_FIELDS:
        v = consts[k]
        if k in ("TopoOn", "SchemaOn"):
            v = _truth(v)
        parts.append("%s |-> %s" % (f, to_tla(set(v) if isinstance(v, (set, frozenset, list, tuple)) else v)))
    return "[" + ", ".join(parts) + "]"


def tla_constants(scenarios, fixed, workdir, base="ControlEvents", tag="MC"):
    """A TLC cfg cannot spell a set of records: the configurations (list of consts dicts) go into a generated module
    <workdir>/<tag>_<base>.tla that extends `base`.  Returns (module path, CONSTANTS for tlc.write_cfg)."""
    import os
    name = "%s_%s" % (tag, base)
    path = os.path.join(workdir, name + ".tla")
    with open(path, "w") as f:
        f.write("---- MODULE %s ----\nEXTENDS %s\nScenariosDef == {%s}\n====\n"
                % (name, base, ",\n                 ".join(scenario_tla(c) for c in scenarios)))
    return path, {"Scenarios": "<- ScenariosDef", "Fixed": set(fixed)}


def consts_of(sc, fixed=()):
    """The scenario record of a TLC state -> consts dict."""
    out = {}
    for f, k in SC_FIELDS:
        v = sc[f]
        out[k] = set(v) if isinstance(v, (set, frozenset, tuple, list)) else v
    out["Fixed"] = set(fixed)
    return out


# ---------------------------------------------------------------------- spec state -> projection shape
def _bag(v, conv):
    if isinstance(v, tuple):
        if v:
            raise ValueError("bag printed as a non-empty tuple: %r" % (v,))
        return {}
    return {conv(k): n for k, n in v.items()}


def _fn(v, keys):
    if isinstance(v, tuple):
        return {keys[i]: x for i, x in enumerate(v)}
    return dict(v)


def spec_view(state, consts=None):
    cs = state["cs"]
    hosts = sorted(state["sc"]["hosts"] if consts is None else consts["Hosts"])
    rcs = _bag(cs["rcs"], thread_tuple)
    ctl = (cs["ctl"]["h"], cs["ctl"]["st"])
    nopen = (1 if ctl[1] == "open" else 0) + sum(n for r, n in rcs.items() if r[4] != 0)
    return {"known": tuple(cs["known"]), "up": _fn(cs["up"], hosts), "lbp": frozenset(cs["lbp"]), "hrec": frozenset(cs["hrec"]),
            "ctl": ctl, "chand": cs["chand"], "exec": _bag(cs["exec"], task_tuple), "sched": _bag(cs["sched"], task_tuple),
            "rcs": rcs, "em": sorted((tuple(x) for x in cs["em"]), key=repr), "phase": state["phase"], "nopen": nopen,
            "watch": True, "late": ()}


def diff(spec, real):
    out = {}
    for k in EventsHarness.VARS:
        if spec[k] != real[k]:
            out[k] = {"spec": show(spec[k]), "code": show(real[k])}
    return out


def show(v):
    if isinstance(v, dict):
        return {str(k): show(x) for k, x in v.items()}
    if isinstance(v, (frozenset, set)):
        return sorted(show(x) for x in v)
    if isinstance(v, tuple):
        return [show(x) for x in v]
    return v


def act_of(state):
    a = dict(state["act"])
    a["t"] = dict(a["t"])
    a["r"] = dict(a["r"])
    a["r"]["plan"] = list(a["r"]["plan"])
    return a


def A(name, t=NO_T, r=NO_R, kind="", h=0, x="", c=0):
    return {"name": name, "t": task_dict(t), "r": thread_dict(r), "kind": kind, "h": h, "x": x, "c": c}


def short(a):
    out = {"name": a["name"]}
    if a["t"]["k"] != "none":
        out["t"] = {k: v for k, v in a["t"].items() if v not in (0, "", False)}
    if a["r"]["via"]:
        out["r"] = dict(a["r"])
    for k in ("kind", "h", "x", "c"):
        if a.get(k) not in (0, "", None):
            out[k] = a[k]
    return out


def replay(consts, states, probe_after=True, seed=0):
    """Replay one behaviour (list of spec states, first = Init).  Returns (divergence or None, after-return findings)."""
    h = EventsHarness(consts, seed)
    try:
        d = diff(spec_view(states[0], consts), h.project())
        if d:
            return {"step": 0, "action": "Init", "diff": d}, {}
        for i, s in enumerate(states[1:], 1):
            act = act_of(s)
            try:
                real = h.do(act)
            except HarnessError as ex:
                return {"step": i, "action": act, "diff": {"_enabled": {"spec": "enabled", "code": str(ex)}}}, {}
            except Exception as ex:            # the code under test blew up inside a step
                return {"step": i, "action": act,
                        "diff": {"_exception": {"spec": "no exception", "code": "%s: %s" % (type(ex).__name__, ex)}}}, {}
            d = diff(spec_view(s, consts), real)
            if d:
                return {"step": i, "action": act, "diff": d}, {}
        bad = {}
        if probe_after and h.returned():
            bad = h.after_return_probe()
        return None, bad
    finally:
        h.close()


# ---------------------------------------------------------------------- recording (code -> spec)
def _bag_arr(b, to_dict):
    out = []
    for t, n in sorted(b.items(), key=lambda kv: repr(kv[0])):
        d = to_dict(t)
        d["n"] = n
        out.append(d)
    return out


def to_post(p, consts):
    """Projection -> the JSON shape Trace_ControlEvents.tla's Post() expects."""
    hosts = sorted(consts["Hosts"])
    ok = isinstance(p["nopen"], int) and p["watch"] and not p["late"]
    return {"known": list(p["known"]) if all(isinstance(x, int) for x in p["known"]) else [-1],
            "up": [p["up"][h] for h in hosts], "lbp": sorted(p["lbp"]), "hrec": sorted(p["hrec"]),
            "ctl": {"h": p["ctl"][0], "st": p["ctl"][1]}, "chand": p["chand"],
            "exec": _bag_arr(p["exec"], task_dict), "sched": _bag_arr(p["sched"], task_dict),
            "rcs": _bag_arr(p["rcs"], thread_dict), "em": [list(x) for x in p["em"]], "phase": p["phase"],
            "nopen": p["nopen"] if ok else -1}


def event_of(act, post):
    ev = {"e": act["name"], "post": post}
    if act["name"] in ("Exec", "Fire"):
        ev["t"] = dict(act["t"])
    if act["name"] == "RcStep":
        ev["r"] = dict(act["r"])
    for k in ("kind", "h", "x", "c"):
        if act.get(k) not in (None, 0, ""):
            ev[k] = act[k]
    return ev


def enabled_ops(h, p, consts, budget):
    """Operations the specification's Next could take from where the real objects are."""
    ops = []
    phase = p["phase"]
    for d in sorted(set(p["exec"]), key=repr):
        ops.append(("task", A("Exec", t=d)))
    if phase == 0:
        for d in sorted(set(p["sched"]), key=repr):
            ops.append(("task", A("Fire", t=d)))
    for r in sorted(set(p["rcs"]), key=repr):
        ops.append(("task", A("RcStep", r=r)))
    opn = sorted(set(num_of(c.endpoint.address) for c in h.open_conns()))
    kinds = sorted(consts["Kinds"])
    if budget["ev"] < consts["MaxEvents"] and opn:
        for kind in kinds:
            if kind == "SCHEMA":
                for x in sorted(consts["Targets"]):
                    ops.append(("ev", A("Push", kind=kind, x=x, c=opn[0])))
                    if len(opn) > 1:
                        ops.append(("ev", A("Push", kind=kind, x=x, c=opn[-1])))
            else:
                for hh in h.hosts:
                    if kind == "REMOVED" and hh in h.ring:
                        continue
                    for c in opn:
                        ops.append(("ev", A("Push", kind=kind, h=hh, c=c)))
    if budget["ring"] < consts["MaxRing"]:
        for hh in h.hosts:
            if hh not in h.ever:
                ops.append(("ring", A("RingAdd", kind="NEW", h=hh)))
            if hh in h.ring and len(h.ring) > 1 and hh not in opn:
                ops.append(("ring", A("RingRemove", kind="REMOVED", h=hh)))
    if budget["fault"] < consts["MaxFaults"]:
        for hh in sorted(h.ring):
            ops.append(("fault", A("NodeMode", kind="refuse" if hh in h.alive else "accept", h=hh)))
        if p["ctl"][1] == "open":
            ops.append(("fault", A("ConnDie", c=p["ctl"][0])))
    if budget["beat"] < consts["MaxBeats"] and phase == 0 and p["ctl"][1] in ("defunct", "closed"):
        ops.append(("beat", A("Heartbeat", c=p["ctl"][0])))
    if phase in (0, 1, 2):
        ops.append(("shut", A(("ShutA", "ShutB", "ShutC")[phase])))
    return ops


BUDGET_OF = {"Push": "ev", "RingAdd": "ring", "RingRemove": "ring", "NodeMode": "fault", "ConnDie": "fault", "Heartbeat": "beat"}


def record(consts, rng, max_events=40, p_shut=0.04, p_env=0.4, seed=0):
    """Drive the real objects with random enabled operations; returns (events, after-return findings, last projection)."""
    h = EventsHarness(consts, seed)
    budget = {"ev": 0, "ring": 0, "fault": 0, "beat": 0}
    events = []
    try:
        p = h.project()
        while len(events) < max_events:
            ops = enabled_ops(h, p, consts, budget)
            if not ops:
                break
            groups = {}
            for kind, a in ops:
                groups.setdefault("env" if kind in ("ev", "ring", "fault", "beat") else kind, []).append(a)
            r = rng.random()
            if "shut" in groups and (r < p_shut or len(groups) == 1 or (p["phase"] > 0 and r < 0.35)):
                act = groups["shut"][0]
            elif "env" in groups and ("task" not in groups or r < p_env):
                act = rng.choice(groups["env"])
            elif "task" in groups:
                act = rng.choice(groups["task"])
            else:
                act = rng.choice([a for _, a in ops])
            try:
                p = h.do(act)
            except Exception as ex:          # the real objects left the envelope the harness can drive
                events.append({"e": "Anomaly", "during": short(act), "what": "%s: %s" % (type(ex).__name__, ex), "post": {}})
                break
            if act["name"] in BUDGET_OF:
                budget[BUDGET_OF[act["name"]]] += 1
            events.append(event_of(act, to_post(p, consts)))
        bad = h.after_return_probe() if h.returned() else {}
        return events, bad, p
    finally:
        h.close()


def run_script(consts, acts, seed=0):
    """Perform a fixed list of actions on fresh real objects.  Returns (projections after each step, after-return
    findings, error or None)."""
    h = EventsHarness(consts, seed)
    out = [h.project()]
    try:
        for act in acts:
            try:
                out.append(h.do(act))
            except Exception as ex:
                return out, {}, "%s at %s: %s" % (type(ex).__name__, short(act), ex)
        bad = h.after_return_probe() if h.returned() else {}
        return out, bad, None
    finally:
        h.close()
