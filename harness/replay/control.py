"""Binding between spec/ControlNegotiate.tla, spec/ControlRefresh.tla, spec/ControlAgree.tla and the real
ControlConnection (cassandra/cluster.py) running on the simulated cluster (harness/sim).

C41  negotiate():   real Cluster.connect() / ControlConnection._try_connect against a FakeNode that knows the
                    versions S and treats B as beta; the log is the version byte of the first frame of every
                    connection attempt.
C42  RefreshHarness: real _refresh_node_list_and_token_map driven by system.local / system.peers(_v2) rows built
                    from a spec snapshot; recording HostStateListener and load-balancing policy; projection of
                    Metadata (hosts, dc/rack, token ring).
C43  AgreeHarness:  real wait_for_schema_agreement (virtual clock) with per-poll schema-version snapshots and host
                    states, plus a SCHEMA_CHANGE result delivered through a real ResponseFuture.

Nothing here decides what is *right*: expected values always come from TLC (spec states).
"""
import os
import re
import uuid

from harness import tlc, tlaval, wire
from harness.sim.simcluster import SimWorld, FakeNode, make_cluster, SimDeadlock

import cassandra.cluster as ccluster
from cassandra.policies import HostStateListener, RoundRobinPolicy

CONTROL = "10.0.0.1"


# ------------------------------------------------------------------ TLC dump helper
_STATE_HDR = re.compile(r'^State \d+:\s*$', re.M)


def dump_states(module, cfg, workdir, keep=None, **kw):
    """Exhaustive TLC run with -dump; returns (TLCResult, distinct states as dicts). `keep` is a predicate on the
    *text* of a state (cheap pre-filter before parsing); duplicates (TLC dumps twice when it also checks
    liveness) are dropped textually."""
    dump = os.path.join(workdir, "dump_%s" % module)
    res = tlc.check_model(module, cfg, workdir, dump=dump, **kw)
    path = dump if os.path.exists(dump) else dump + ".dump"
    states = []
    if os.path.exists(path):
        with open(path) as f:
            text = f.read()
        os.unlink(path)
        seen = set()
        for body in _STATE_HDR.split(text):
            body = body.strip()
            if not body or body in seen or not body.startswith("/\\"):
                continue
            seen.add(body)
            if keep is None or keep(body):
                states.append(tlaval.parse_state(body))
    return res, states


def witnesses_reached(module, workdir, names, **cfg_kw):
    """Vacuity guard. Every Witness_* predicate of `module` is a negated reachability claim; one TLC run
    (-workers 1) evaluates all of them on every reachable state through CONSTRAINT RecordWitnesses and prints the
    set of those TLC found violated (= reached) in POSTCONDITION PrintWitnesses. Raises MachineryError when a
    witness was not reached."""
    cfg = tlc.write_cfg(os.path.join(workdir, "witness_%s.cfg" % module), constraints=["RecordWitnesses"],
                        postcondition="PrintWitnesses", deadlock=False, **cfg_kw)
    res = tlc.run_tlc(module, cfg, workdir, workers=1, timeout=600, coverage=True)
    got = None
    for v in res.printed("WITNESSES"):
        if isinstance(v, tuple) and len(v) == 2 and v[0] == "WITNESSES":
            got = set(v[1])
    if got is None:
        raise tlc.MachineryError("witness run of %s failed: %s\n%s" % (module, res.error, res.out[-2000:]))
    missing = sorted(set(names) - got)
    if missing:
        raise tlc.MachineryError("vacuity witnesses not reached in %s: %s" % (module, missing))
    return res


# ====================================================================== C41 negotiation
class NegotiationRunaway(Exception):
    """More connection attempts than there are protocol versions: the negotiation does not terminate."""


MAX_ATTEMPTS = 24


def _neg_script(S, B, hdr, replies):
    S, B = set(S), set(B)

    def script(node, conn, req, f):
        v = f.version
        if not getattr(conn, "_neg_seen", False):
            conn._neg_seen = True
            first = True
        else:
            first = False
        if v not in S:
            if hdr == "echo" or not S:
                hv = v
            else:
                hv = max(S) if hdr == "max" else min(S)
            if first:
                replies.append("unsupported")
            node.send(conn, hv, f.stream, wire.ERROR, wire.body_error(
                wire.ERR_PROTOCOL, "Invalid or unsupported protocol version (%d); supported versions are (%s)"
                % (v, ", ".join("%d/v%d" % (x, x) for x in sorted(S)))))
            return True
        if v in B and not (f.flags & wire.FLAG_BETA):
            if first:
                replies.append("beta")
            node.send(conn, v, f.stream, wire.ERROR, wire.body_error(
                wire.ERR_PROTOCOL, "Beta version of the protocol used (%d/v%d-beta), but USE_BETA flag is unset" % (v, v)))
            return True
        if first:
            replies.append("ok")
        if v >= 0x41 and f.opcode == wire.STARTUP:
            # DSE versions do not use the v5 segment framing (FakeNode's default would switch it on)
            node.send(conn, v, f.stream, wire.READY, wire.body_ready())
            conn._sim_ready = True
            return True
        return False
    return script


def negotiate(start, explicit, allow_beta, S, B, hdr="max", via="connect"):
    """Run the real negotiation once; returns {"log", "replies", "status", "ver", "error"}.

    log     = protocol version of the first frame of every connection the driver opened, up to and including the
              first one whose handshake completed (later connections belong to the session pools)
    status  = "connected" / "error" (what connect() / _try_connect did)
    ver     = Cluster.protocol_version afterwards"""
    w = SimWorld()
    node = w.add_node(FakeNode(CONTROL, versions=tuple(S) or (0,)))
    node.beta_versions = set(B)
    replies = []
    node.handshake_script = _neg_script(S, B, hdr, replies)
    orig_open = node.on_open

    def on_open(conn):
        if len(w.conns) > MAX_ATTEMPTS:
            raise NegotiationRunaway("more than %d connection attempts" % MAX_ATTEMPTS)
        orig_open(conn)
    node.on_open = on_open
    cluster = make_cluster(w, [CONTROL], protocol_version=start if explicit else ccluster._NOT_SET,
                           allow_beta_protocol_version=bool(allow_beta))
    if not explicit:
        cluster.protocol_version = start      # where an earlier negotiation (or the application) left it
    out = {"status": None, "error": None}
    conn = None
    try:
        if via == "connect":
            cluster.connect()
            conn = cluster.control_connection._connection
        else:
            host, _ = cluster.add_host(cluster.endpoints_resolved[0], signal=False)
            conn = cluster.control_connection._try_connect(host)
        out["status"] = "connected"
    except SimDeadlock as exc:
        out["status"] = "hang"
        out["error"] = repr(exc)[:300]
    except Exception as exc:          # NoHostAvailable / DriverException / ProtocolException ...
        out["status"] = "error"
        out["error"] = ("%s: %s" % (type(exc).__name__, exc))[:300]
    first = {}
    ready_at = None
    for sid, req in node.received:
        first.setdefault(sid, req["version"])
    log = []
    for c in w.conns:
        if c.sim_id not in first:
            continue
        log.append(first[c.sim_id])
        if getattr(c, "_sim_ready", False):
            ready_at = len(log)
            break
    out["log"] = log
    out["replies"] = replies[:len(log)]
    out["ver"] = cluster.protocol_version
    out["conn_ver"] = conn.protocol_version if conn is not None else None
    out["handshake_completed"] = ready_at is not None
    try:
        if conn is not None and via != "connect":
            conn.close()
        cluster.shutdown()
    except Exception:
        pass
    return out


def negotiate_diff(st, got):
    """Compare a terminal state of ControlNegotiate.tla with what the real negotiation did. Returns a dict of
    differing fields (empty = conforms)."""
    d = {}
    if list(st["log"]) != list(got["log"]):
        d["log"] = {"spec": list(st["log"]), "code": list(got["log"])}
    if st["status"] != got["status"]:
        d["status"] = {"spec": st["status"], "code": got["status"], "error": got["error"]}
    elif st["status"] == "connected":
        if st["ver"] != got["ver"] or got["conn_ver"] != st["ver"] or not got["handshake_completed"]:
            d["ver"] = {"spec": st["ver"], "code": got["ver"], "connection": got["conn_ver"],
                        "handshake_completed": got["handshake_completed"]}
    return d


def negotiate_signature(st, d):
    """Stable class of a C41 divergence."""
    if "log" in d:
        spec, code = d["log"]["spec"], d["log"]["code"]
        if len(code) > 8:
            return "negotiate:does-not-terminate"
        if any(b >= a for a, b in zip(code, code[1:])):
            return "negotiate:steps-up"
        if st["explicit"] and len(code) > 1:
            return "negotiate:explicit-downgraded"
        if any(v == 6 for v in code[1:]):
            return "negotiate:beta-chosen"
        if len(code) < len(spec):
            return "negotiate:gave-up-early:%s" % ("beta-reply" if "beta" in st["replies"][:len(code)] else "unsupported-reply")
        return "negotiate:wrong-next-version"
    if "status" in d:
        return "negotiate:outcome:%s-instead-of-%s" % (d["status"]["code"], d["status"]["spec"])
    return "negotiate:version-after-connect"
