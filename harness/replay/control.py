"""Binding between spec/ControlNegotiate.tla, spec/ControlRefresh.tla, spec/ControlAgree.tla and the real
ControlConnection (cassandra/cluster.py) running on the simulated cluster (harness/sim).

C41  negotiate():   real Cluster.connect() / ControlConnection._try_connect against a FakeNode that knows the
                    versions S and treats B as beta; the log is the version byte of the first frame of every
                    connection attempt.
C42  RefreshHarness: real _refresh_node_list_and_token_map driven by system.local / system.peers(_v2) rows built
                    from a spec snapshot; recording HostStateListener and load-balancing policy; projection of
                    Metadata (hosts, dc/rack, token ring).
C43  AgreeHarness:  real wait_for_schema_agreement (virtual clock) with per-poll schema-version snapshots and host
                    states, plus a SCHEMA_CHANGE result delivered through a real ResponseFuture.

Nothing here decides what is *right*: expected values always come from TLC (spec states).
"""
import os
import re
import uuid

from harness import tlc, tlaval, wire
from harness.sim.simcluster import SimWorld, FakeNode, make_cluster, SimDeadlock
from harness.sim.simcluster import SimConnection as simcluster_SimConnection

import cassandra.cluster as ccluster
from cassandra.policies import HostStateListener, RoundRobinPolicy

CONTROL = "10.0.0.1"


# ------------------------------------------------------------------ TLC dump helper
_STATE_HDR = re.compile(r'^State \d+:\s*$', re.M)


def dump_states(module, cfg, workdir, keep=None, **kw):
    """Exhaustive TLC run with -dump; returns (TLCResult, distinct states as dicts). `keep` is a predicate on the
    *text* of a state (cheap pre-filter before parsing); duplicates (TLC dumps twice when it also checks
    liveness) are dropped textually."""
    dump = os.path.join(workdir, "dump_%s" % module)
    res = tlc.check_model(module, cfg, workdir, dump=dump, **kw)
    path = dump if os.path.exists(dump) else dump + ".dump"
    states = []
    if os.path.exists(path):
        with open(path) as f:
            text = f.read()
        os.unlink(path)
        seen = set()
        for body in _STATE_HDR.split(text):
            body = body.strip()
            if not body or body in seen or not body.startswith("/\\"):
                continue
            seen.add(body)
            if keep is None or keep(body):
                states.append(tlaval.parse_state(body))
    return res, states


def witnesses_in(res, names, module="?"):
    """Vacuity guard, reading side. The run must have been configured with CONSTRAINT RecordWitnesses and
    POSTCONDITION PrintWitnesses (-workers 1): every Witness_* predicate is a negated reachability claim, the
    constraint evaluates all of them on every reachable state and the postcondition prints the set of those TLC
    found violated (= reached). Raises MachineryError when one of `names` was not reached."""
    got = None
    for v in res.printed("WITNESSES"):
        if isinstance(v, tuple) and len(v) == 2 and v[0] == "WITNESSES":
            got = set(v[1])
    if got is None:
        raise tlc.MachineryError("witness run of %s failed: %s\n%s" % (module, res.error, res.out[-2000:]))
    missing = sorted(set(names) - got)
    if missing:
        raise tlc.MachineryError("vacuity witnesses not reached in %s: %s" % (module, missing))
    return got


def witnesses_reached(module, workdir, names, **cfg_kw):
    """Vacuity guard as a separate small TLC run (see witnesses_in)."""
    cfg = tlc.write_cfg(os.path.join(workdir, "witness_%s.cfg" % module), constraints=["RecordWitnesses"],
                        postcondition="PrintWitnesses", deadlock=False, **cfg_kw)
    res = tlc.run_tlc(module, cfg, workdir, workers=1, timeout=600, coverage=True)
    witnesses_in(res, names, module)
    return res


# ====================================================================== C41 negotiation
class NegotiationRunaway(Exception):
    """More connection attempts than there are protocol versions: the negotiation does not terminate."""


MAX_ATTEMPTS = 24


def _neg_script(S, B, hdr, replies):
    S, B = set(S), set(B)

    def script(node, conn, req, f):
        v = f.version
        if not getattr(conn, "_neg_seen", False):
            conn._neg_seen = True
            first = True
        else:
            first = False
        if v not in S:
            if hdr == "echo" or not S:
                hv = v
            else:
                hv = max(S) if hdr == "max" else min(S)
            if first:
                replies.append("unsupported")
            node.send(conn, hv, f.stream, wire.ERROR, wire.body_error(
                wire.ERR_PROTOCOL, "Invalid or unsupported protocol version (%d); supported versions are (%s)"
                % (v, ", ".join("%d/v%d" % (x, x) for x in sorted(S)))))
            return True
        if v in B and not (f.flags & wire.FLAG_BETA):
            if first:
                replies.append("beta")
            node.send(conn, v, f.stream, wire.ERROR, wire.body_error(
                wire.ERR_PROTOCOL, "Beta version of the protocol used (%d/v%d-beta), but USE_BETA flag is unset" % (v, v)))
            return True
        if first:
            replies.append("ok")
        if v >= 0x41 and f.opcode == wire.STARTUP:
            # DSE versions do not use the v5 segment framing (FakeNode's default would switch it on)
            node.send(conn, v, f.stream, wire.READY, wire.body_ready())
            conn._sim_ready = True
            return True
        return False
    return script


class _ObservedEvent:
    """connected_event of an ObservingConnection. set() is the instant from which the thread blocked in
    Connection.factory() can run: what it would read right then is recorded on the connection."""

    def __init__(self, conn, inner):
        self._conn, self._inner = conn, inner

    def set(self):
        if not self._inner.is_set():
            d = self._conn.__dict__
            d["_flag_at_wakeup"] = d.get("_unsupported_flag", False)
        self._inner.set()

    def is_set(self):
        return self._inner.is_set()

    isSet = is_set

    def clear(self):
        self._inner.clear()

    def wait(self, timeout=None):
        return self._inner.wait(timeout)


class ObservingConnection(simcluster_SimConnection):
    """SimConnection on which the client thread's observation (the Observe step of ControlNegotiate.tla) can be
    scheduled: with `early` the thread waiting in Connection.factory() runs at the very instant connected_event is
    set, i.e. it reads is_unsupported_proto_version as it was then; otherwise it runs after the event-loop thread
    has finished the callback (the only schedule a single-threaded simulation produces by itself).  last_error is
    assigned before the event is set by every reactor, so it needs no such treatment."""
    early = False

    @property
    def connected_event(self):
        return self.__dict__["_observed_event"]

    @connected_event.setter
    def connected_event(self, ev):
        self.__dict__["_observed_event"] = _ObservedEvent(self, ev)

    @property
    def is_unsupported_proto_version(self):
        d = self.__dict__
        if ObservingConnection.early and "_flag_at_wakeup" in d:
            return d["_flag_at_wakeup"]
        return d.get("_unsupported_flag", False)

    @is_unsupported_proto_version.setter
    def is_unsupported_proto_version(self, value):
        self.__dict__["_unsupported_flag"] = value


def negotiate(start, explicit, allow_beta, S, B, hdr="max", via="connect", early=False):
    """Run the real negotiation once; returns {"log", "replies", "status", "ver", "error"}.

    log     = protocol version of the first frame of every connection the driver opened, up to and including the
              first one whose handshake completed (later connections belong to the session pools)
    status  = "connected" / "error" (what connect() / _try_connect did)
    ver     = Cluster.protocol_version afterwards"""
    w = SimWorld()
    node = w.add_node(FakeNode(CONTROL, versions=tuple(S) or (0,)))
    node.beta_versions = set(B)
    replies = []
    node.handshake_script = _neg_script(S, B, hdr, replies)
    orig_open = node.on_open

    def on_open(conn):
        if len(w.conns) > MAX_ATTEMPTS:
            raise NegotiationRunaway("more than %d connection attempts" % MAX_ATTEMPTS)
        orig_open(conn)
    node.on_open = on_open
    ObservingConnection.early = bool(early)
    cluster = make_cluster(w, [CONTROL], protocol_version=start if explicit else ccluster._NOT_SET,
                           allow_beta_protocol_version=bool(allow_beta), connection_class=ObservingConnection)
    if not explicit:
        cluster.protocol_version = start      # where an earlier negotiation (or the application) left it
    out = {"status": None, "error": None}
    conn = None
    try:
        if via == "connect":
            cluster.connect()
            conn = cluster.control_connection._connection
        else:
            host, _ = cluster.add_host(cluster.endpoints_resolved[0], signal=False)
            conn = cluster.control_connection._try_connect(host)
        out["status"] = "connected"
    except SimDeadlock as exc:
        out["status"] = "hang"
        out["error"] = repr(exc)[:300]
    except Exception as exc:          # NoHostAvailable / DriverException / ProtocolException ...
        out["status"] = "error"
        out["error"] = ("%s: %s" % (type(exc).__name__, exc))[:300]
    first = {}
    ready_at = None
    for sid, req in node.received:
        first.setdefault(sid, req["version"])
    log = []
    for c in w.conns:
        if c.sim_id not in first:
            continue
        log.append(first[c.sim_id])
        if getattr(c, "_sim_ready", False):
            ready_at = len(log)
            break
    out["log"] = log
    out["replies"] = replies[:len(log)]
    out["ver"] = cluster.protocol_version
    out["conn_ver"] = conn.protocol_version if conn is not None else None
    out["handshake_completed"] = ready_at is not None
    ObservingConnection.early = False
    try:
        if conn is not None and via != "connect":
            conn.close()
        cluster.shutdown()
    except Exception:
        pass
    return out


def negotiate_diff(st, got):
    """Compare a terminal state of ControlNegotiate.tla with what the real negotiation did. Returns a dict of
    differing fields (empty = conforms)."""
    d = {}
    if list(st["log"]) != list(got["log"]):
        d["log"] = {"spec": list(st["log"]), "code": list(got["log"])}
    if st["status"] != got["status"]:
        d["status"] = {"spec": st["status"], "code": got["status"], "error": got["error"]}
    elif st["status"] == "connected":
        if st["ver"] != got["ver"] or got["conn_ver"] != st["ver"] or not got["handshake_completed"]:
            d["ver"] = {"spec": st["ver"], "code": got["ver"], "connection": got["conn_ver"],
                        "handshake_completed": got["handshake_completed"]}
    return d


def negotiate_signature(st, d):
    """Stable class of a C41 divergence."""
    if "log" in d:
        spec, code = d["log"]["spec"], d["log"]["code"]
        if len(code) > 8:
            return "negotiate:does-not-terminate"
        if any(b >= a for a, b in zip(code, code[1:])):
            return "negotiate:steps-up"
        if st["explicit"] and len(code) > 1:
            return "negotiate:explicit-downgraded"
        if any(v == 6 for v in code[1:]):
            return "negotiate:beta-chosen"
        if len(code) < len(spec):
            return "negotiate:gave-up-early:%s" % ("beta-reply" if "beta" in st["replies"][:len(code)] else "unsupported-reply")
        return "negotiate:wrong-next-version"
    if "status" in d:
        return "negotiate:outcome:%s-instead-of-%s" % (d["status"]["code"], d["status"]["spec"])
    return "negotiate:version-after-connect"


# ====================================================================== C42 node-list refresh
LOCS = {"a": ("dc1", "r1"), "b": ("dc1", "r2"), "c": ("dc2", "r1"), "none": (None, None)}
LOC_OF = {v: k for k, v in LOCS.items()}


def addr(h):
    return "10.0.0.%d" % (h + 1)


def host_no(address):
    return int(str(address).rsplit(".", 1)[1]) - 1


def host_num(host):
    """Host number of a driver Host: hosts behind the control node's address are told apart by their native port."""
    port = getattr(host.endpoint, "port", None)
    if port not in (None, 9042):
        return port - 9042
    return host_no(host.address)


def hid(h):
    return uuid.UUID(int=0x1000 + h)


def tokens_of(h, v):
    """Tok(h, v) of ControlRefresh.tla as byte-ordered token strings (the numbers are part of the data model the
    harness shares with the spec, like addresses)."""
    return ["%02x" % n for n in token_numbers(h, v)]


def token_numbers(h, v):
    nums = {1: [16 * h], 2: [16 * h, 16 * h + 8], 3: [16 * h + 8]}
    if h >= 1:
        nums.update({4: [16 * (h - 1)], 5: [16 * (h - 1), 16 * h]})     # the predecessor's primary token is h's now
    return nums.get(v, [])


class RecListener(HostStateListener):
    def __init__(self):
        self.events = []

    def on_up(self, host):
        self.events.append(("up", host_num(host)))

    def on_down(self, host):
        self.events.append(("down", host_num(host)))

    def on_add(self, host):
        self.events.append(("add", host_num(host)))

    def on_remove(self, host):
        self.events.append(("remove", host_num(host)))


class RecLBP(RoundRobinPolicy):
    """Round robin that records every notification with the location the host had at that moment; the query plan
    always starts with the control node (lowest address) so that requests have a known coordinator."""

    def __init__(self):
        RoundRobinPolicy.__init__(self)
        self.events = []

    def _rec(self, kind, host):
        self.events.append((kind, host_num(host), LOC_OF.get((host.datacenter, host.rack), (host.datacenter, host.rack))))

    def on_up(self, host):
        self._rec("up", host)
        RoundRobinPolicy.on_up(self, host)

    def on_down(self, host):
        self._rec("down", host)
        RoundRobinPolicy.on_down(self, host)

    def on_add(self, host):
        self._rec("add", host)
        RoundRobinPolicy.on_add(self, host)

    def on_remove(self, host):
        self._rec("remove", host)
        RoundRobinPolicy.on_remove(self, host)

    def make_query_plan(self, working_keyspace=None, query=None):
        hosts = sorted(self._live_hosts, key=host_num)
        return iter(hosts)


class RefreshHarness:
    """One simulated cluster (control node 0 + FakeNodes for every peer number) whose control node's system tables
    are rewritten from a spec snapshot before every refresh."""

    def __init__(self, peers, v2=False, same_addr=()):
        self.peers = sorted(peers)
        # hosts behind the control node's address (own native port); only system.peers_v2 can describe them
        self.same_addr = set(same_addr) if v2 else set()
        self.world = SimWorld()
        self.nodes = {}
        for h in [0] + self.peers:
            if h in self.same_addr:
                n = FakeNode(addr(0), host_id=hid(h), tokens=tokens_of(h, 1))
                n.world = self.world
                self.world.nodes[(addr(0), 9042 + h)] = n
                self.nodes[h] = n
                continue
            n = FakeNode(addr(h), host_id=hid(h), tokens=tokens_of(h, 1))
            self.nodes[h] = self.world.add_node(n)
        self.ctl = self.nodes[0]
        self.ctl.has_peers_v2 = bool(v2)
        self.ctl.peer_rows_override = []
        self.lbp = RecLBP()
        self.listener = RecListener()
        self.cluster = make_cluster(self.world, [addr(0)], lbp=self.lbp)
        self.cluster.register_listener(self.listener)
        self.session = None
        self.steps = 0
        self.last_error = None

    # ---- system tables from the snapshot
    def _row(self, r, snap, occurrence):
        ep, miss, info = r["ep"], r["miss"], r["info"]
        e = r.get("endpoint") if self.same_addr else None        # the spec's (address, port); v1 tables have no port
        if e is None or (e["port"] != 0 and ep not in self.same_addr):
            e = {"addr": ep, "port": 0}
        dc, rack = LOCS[info["loc"]]
        row = {"peer": addr(ep) if (ep != 0 and occurrence == 0) else "10.0.%d.%d" % (occurrence + 1, ep + 1),
               "address": addr(e["addr"]), "native_port": 9042 + e["port"],
               "data_center": dc, "rack": rack, "host_id": hid(ep),
               "release_version": "4.0.0", "schema_version": self.ctl.schema_version,
               "tokens": tokens_of(ep, info["tok"])}
        if miss == "address":
            row["peer"] = None
            row["address"] = None
        elif miss != "none":
            row[miss] = None
        return row

    def install(self, act):
        snap = act["snap"]
        dc, rack = LOCS[snap["local"]["loc"]]
        self.ctl.dc, self.ctl.rack = dc, rack
        self.ctl.tokens = tokens_of(0, snap["local"]["tok"])
        seen = {}
        rows = []
        for r in act["rows"]:
            k = seen.get(r["ep"], 0)
            seen[r["ep"]] = k + 1
            rows.append(self._row(r, snap, k))
        self.ctl.peer_rows_override = rows

    # ---- the action
    def refresh(self, act):
        """Perform Refresh(snap, force) on the real objects; returns the projection."""
        self.install(act)
        del self.listener.events[:]
        del self.lbp.events[:]
        del self.ctl.received[:]
        tm_before = self.cluster.metadata.token_map
        first = self.session is None
        ok = True
        self.last_error = None
        try:
            if first:
                self.session = self.cluster.connect()
                self.cluster.control_connection._time = self.world.clock
            else:
                ok = self.cluster.control_connection.refresh_node_list_and_token_map(
                    force_token_rebuild=bool(act.get("force", False)))
        except Exception as exc:
            ok = False
            self.last_error = "%s: %s" % (type(exc).__name__, str(exc)[:200])
        self.steps += 1
        return self.project(ok, first, tm_before)

    def repair_ring(self):
        """force_token_rebuild=True with the tables unchanged: brings a stale token map up to date."""
        try:
            self.cluster.control_connection.refresh_node_list_and_token_map(force_token_rebuild=True)
        except Exception:
            pass
        return self.ring()

    def ring(self):
        tm = self.cluster.metadata.token_map
        if tm is None:
            return {}
        out = {}
        for t, h in tm.token_to_host_owner.items():
            v = t.value
            out[int.from_bytes(v, "big") if isinstance(v, (bytes, bytearray)) else v] = host_num(h)
        return out

    def project(self, ok=True, first=False, tm_before=None):
        md = self.cluster.metadata
        known, ids = {}, {}
        for h in md.all_hosts():
            n = host_num(h)
            known[n] = LOC_OF.get((h.datacenter, h.rack), "%s/%s" % (h.datacenter, h.rack))
            ids[n] = h.host_id
        added, removed = {}, {}
        for kind, n in self.listener.events:
            if kind == "add":
                added[n] = added.get(n, 0) + 1
            elif kind == "remove":
                removed[n] = removed.get(n, 0) + 1
        if first and added.get(0):
            added[0] -= 1          # Cluster.connect() announces the contact point itself, before any refresh
        return {"ok": ok, "known": known, "host_ids": ids, "ring": self.ring(), "added": added, "removed": removed,
                "lbp": list(self.lbp.events), "tm_replaced": md.token_map is not tm_before, "error": self.last_error}

    def shutdown(self):
        try:
            self.cluster.shutdown()
        except Exception:
            pass


def _moved(lbp_events, h, old, new):
    """policies told down(h at old location) and later up(h at new location)?"""
    for i, (kind, n, loc) in enumerate(lbp_events):
        if kind == "down" and n == h and loc == old:
            for kind2, n2, loc2 in lbp_events[i + 1:]:
                if kind2 == "up" and n2 == h and loc2 == new:
                    return True
    return False


def refresh_diff(st, proj, hosts):
    """Spec state after Refresh vs projection of the real objects -> {field: {spec, code}} (empty = conforms)."""
    d = {}
    if not proj["ok"]:
        d["ok"] = {"spec": True, "code": False, "error": proj["error"]}
    sk = {h: v["loc"] for h, v in st["known"].items()}
    if set(sk) != set(proj["known"]):
        d["hosts"] = {"spec": sorted(sk), "code": sorted(proj["known"])}
    else:
        bad = {h: {"spec": sk[h], "code": proj["known"][h]} for h in sk if sk[h] != proj["known"][h]}
        if bad:
            d["location"] = bad
        badid = sorted(h for h in sk if proj["host_ids"].get(h) != hid(h))
        if badid:
            d["host_id"] = {"hosts": badid}
    sa = {h: n for h, n in st["added"].items() if n}
    ca = {h: n for h, n in proj["added"].items() if n}
    if sa != ca:
        d["on_add"] = {"spec": sa, "code": ca}
    sr = {h: n for h, n in st["removed"].items() if n}
    cr = {h: n for h, n in proj["removed"].items() if n}
    if sr != cr:
        d["on_remove"] = {"spec": sr, "code": cr}
    missing = [list(m) for m in sorted(st["moves"]) if not _moved(proj["lbp"], m[0], m[1], m[2])]
    if missing:
        d["lbp"] = {"spec": missing, "code": proj["lbp"][:40]}
    if dict(st["ring"]) != proj["ring"]:
        d["ring"] = {"spec": dict(st["ring"]), "code": proj["ring"]}
    return d


def refresh_signature(st, d):
    """Stable class of a C42 divergence."""
    if "ok" in d:
        return "refresh:raised"
    for k in ("hosts", "location", "host_id", "on_add", "on_remove", "lbp"):
        if k in d:
            if k == "hosts":
                spec, code = set(d[k]["spec"]), set(d[k]["code"])
                return "refresh:hosts:%s" % ("+".join(x for x, c in (("extra", code - spec), ("missing", spec - code)) if c))
            return "refresh:%s" % k
    if set(st["known"]) == set(st["prev"]):
        return "refresh:token-change-no-rebuild"
    return "refresh:ring-stale-after-membership-change"


def node_key(known):
    return tuple(sorted((h, v["loc"], v["tok"]) for h, v in known.items()))


class RefreshReplayer:
    """Replays Refresh edges (spec states) on RefreshHarness objects, chaining them: the state after one edge is the
    state before the next.  Divergences are reported through `on_divergence(state, diff, signature, history)`;
    a stale token map is repaired (forced rebuild) so that the chain can continue, anything else ends the chain."""

    def __init__(self, peers, on_divergence, v2=False, max_chain=3000, same_addr=()):
        self.peers, self.v2, self.same_addr = sorted(peers), v2, set(same_addr)
        self.hosts = [0] + self.peers
        self.on_divergence = on_divergence
        self.h = None
        self.cur = None
        self.history = []
        self.max_chain = max_chain
        self.applied = 0
        self.conforming = 0
        self.chains = 0

    def fresh(self):
        if self.h is not None:
            self.h.shutdown()
        self.h = RefreshHarness(self.peers, v2=self.v2, same_addr=self.same_addr)
        self.cur = node_key({0: {"loc": "none", "tok": 0}})
        self.history = []
        self.chains += 1

    def close(self):
        if self.h is not None:
            self.h.shutdown()
            self.h = None
            self.cur = None

    def apply(self, st):
        """Apply one edge whose source is the current node. Returns True when the real objects conform."""
        assert node_key(st["prev"]) == self.cur, "edge does not start at the current node"
        act = st["act"]
        proj = self.h.refresh(act)
        self.applied += 1
        self.history.append({"snap": act["snap"], "force": act["force"], "rows": act["rows"]})
        if len(self.history) > 6:
            del self.history[:-6]
        d = refresh_diff(st, proj, self.hosts)
        if not d:
            self.conforming += 1
            self.cur = node_key(st["known"])
            if self.h.steps >= self.max_chain:
                self.close()
            return True
        sig = refresh_signature(st, d)
        self.on_divergence(st, d, sig, list(self.history))
        if set(d) == {"ring"} and self.h.repair_ring() == dict(st["ring"]):
            self.cur = node_key(st["known"])
        else:
            self.close()
        return False


def cover_refresh_edges(states, replayer, rng, max_init=None, stop=lambda: False):
    """Euler-style coverage of every (state before, snapshot) pair in `states` (Refresh states of ControlRefresh.tla)
    by chains on real clusters.  Returns (covered, total)."""
    init_key = node_key({0: {"loc": "none", "tok": 0}})
    by_src, hop = {}, {}
    for st in states:
        s, t = node_key(st["prev"]), node_key(st["known"])
        by_src.setdefault(s, []).append(st)
        hop.setdefault(s, {}).setdefault(t, st)
    for lst in by_src.values():
        rng.shuffle(lst)
    init_edges = by_src.pop(init_key, [])
    if max_init is not None and len(init_edges) > max_init:
        init_edges = init_edges[:max_init]
    total = len(init_edges) + sum(len(v) for v in by_src.values())
    covered = 0
    pending = {k for k, v in by_src.items() if v}
    spare_init = list(init_edges)

    def path_to_pending(src):
        # BFS over nodes
        from collections import deque
        par = {src: None}
        dq = deque([src])
        while dq:
            u = dq.popleft()
            if u in pending and u != src:
                p = []
                while par[u] is not None:
                    p.append(hop[par[u]][u])
                    u = par[u]
                return p[::-1]
            for v in hop.get(u, {}):
                if v not in par:
                    par[v] = u
                    dq.append(v)
        return None

    while (init_edges or pending) and not stop():
        replayer.fresh()
        if init_edges:
            e = init_edges.pop()
            covered += 1
        else:
            e = rng.choice(spare_init)
        if not replayer.apply(e) and replayer.cur is None:
            continue
        while replayer.cur is not None and not stop():
            cur = replayer.cur
            lst = by_src.get(cur)
            if lst:
                e = lst.pop()
                covered += 1
                if not lst:
                    pending.discard(cur)
                replayer.apply(e)
                continue
            if init_edges and replayer.h.steps > 200:
                break                      # interleave the remaining first-connect edges
            p = path_to_pending(cur)
            if not p:
                break
            for e in p:
                if replayer.cur is None or not replayer.apply(e):
                    break
            if replayer.cur is None:
                break
    replayer.close()
    return covered, total


# ====================================================================== C43 schema agreement
SCHEMA_VERSIONS = {"A": uuid.UUID(int=0xA), "B": uuid.UUID(int=0xB), "C": uuid.UUID(int=0xC)}
_IS_UP = {"up": True, "down": False, "none": None}
TICK = 0.05            # seconds of virtual time per tick of ControlAgree.tla
ROUND_TRIP = TICK      # virtual duration of one poll (the two schema-version queries): positive, as a real round trip
POLL_INTERVAL_TICKS = 4                    # the driver's pause between polls, 0.2 s
MAX_GAP = POLL_INTERVAL_TICKS + 1 + 1      # + one round trip + one tick of discretisation slack (constant MaxGap)


def tick_of(seconds):
    return int((seconds + 1e-9) / TICK)


class AgreeHarness:
    """One simulated cluster (control node 0, known peers as FakeNodes and metadata hosts; unknown peers exist only
    as rows of the schema-version query) on which the cluster state is scripted OVER VIRTUAL TIME: a timeline
    [(from_tick, snapshot), ...].  Whenever the driver polls - on whatever schedule it likes - the two schema-version
    queries are answered from the snapshot current at that instant (Host.is_up of the known peers is set to the
    snapshot's host states first), and the round trip takes ROUND_TRIP of virtual time."""

    def __init__(self, kpeers, upeers, meta_enabled):
        self.kpeers, self.upeers = sorted(kpeers), sorted(upeers)
        self.world = SimWorld()
        self.nodes = {}
        for h in [0] + self.kpeers:
            self.nodes[h] = self.world.add_node(FakeNode(addr(h), host_id=hid(h), tokens=tokens_of(h, 1),
                                                         release_version="3.11.4"))
        self.ctl = self.nodes[0]
        self.ctl.peer_rows_override = [self.nodes[h].as_peer() for h in self.kpeers]
        self.cluster = make_cluster(self.world, [addr(0)], lbp=RecLBP(), schema_metadata_enabled=bool(meta_enabled))
        self.session = self.cluster.connect(wait_for_all_pools=True)
        self.cc = self.cluster.control_connection
        self.cc._time = self.world.clock          # class attribute bound to the real `time` module at import
        self.cluster.executor.inline = False
        self.hosts = {host_no(h.address): h for h in self.cluster.metadata.all_hosts()}
        self.ctl.system_hook = self._hook
        self.timeline = []
        self.polls = []            # (seconds since the start, snapshot) of every poll the driver made
        self.t0 = 0.0
        self.fault_at_poll = None  # index of the poll that is answered by closing the connection
        self.aborted_at = None
        self.meta_enabled = bool(meta_enabled)

    def _current(self, now):
        cur = self.timeline[0][1]
        t = tick_of(now)
        for frm, s in self.timeline:
            if frm <= t:
                cur = s
        return cur

    def _hook(self, node, conn, f, req):
        q = req["query"]
        if "schema_version FROM system.peers" in q and not q.startswith("SELECT *"):
            if len(self.polls) >= 200:
                raise SimDeadlock("the agreement wait keeps polling (more than 200 polls)")
            now = self.world.clock.now - self.t0
            s = self._current(now)
            if self.fault_at_poll is not None and self.aborted_at is None and len(self.polls) == self.fault_at_poll:
                # scripted fault: instead of answering this poll the node closes the connection the wait runs on
                self.aborted_at = now
                conn.server_closed()
                return True
            self._close_lost(now)
            if s is None:
                # scripted fault: the node does not answer the schema-version queries now; the driver's request times out
                if self.aborted_at is None:
                    self.polls.append({"at": now, "snap": None, "end": None})
                self._cur = "lost"
                self.world.clock.advance(ROUND_TRIP)     # sending takes time even when nobody answers (no Zeno loop)
                return True
            if self.aborted_at is None:               # later polls belong to the background refresh, not to this wait
                self.polls.append({"at": now, "snap": s, "end": now})
            self._cur = s
            for n, p in enumerate(self.kpeers):
                self.hosts[p].is_up = _IS_UP[s["st"][n]]
            self.world.clock.advance(ROUND_TRIP)
            allp = self.kpeers + self.upeers
            v2 = "peers_v2" in q
            rows = []
            for n, p in enumerate(allp):
                ver = wire.c_uuid(SCHEMA_VERSIONS[s["pv"][n]])
                if v2:
                    rows.append([wire.c_uuid(hid(p)), wire.c_inet(addr(p)), wire.c_int(7000), wire.c_inet(addr(p)),
                                 wire.c_int(9042), ver])
                else:
                    rows.append([wire.c_inet(addr(p)), wire.c_uuid(hid(p)), wire.c_inet(addr(p)), ver])
            if v2:
                cols = [("host_id", wire.T_UUID), ("peer", wire.T_INET), ("peer_port", wire.T_INT),
                        ("native_address", wire.T_INET), ("native_port", wire.T_INT), ("schema_version", wire.T_UUID)]
            else:
                cols = [("peer", wire.T_INET), ("host_id", wire.T_UUID), ("rpc_address", wire.T_INET),
                        ("schema_version", wire.T_UUID)]
            node.send(conn, f.version, f.stream, wire.RESULT, wire.body_rows(cols, rows, ks="system", table="peers"))
            return True
        if q.startswith("SELECT schema_version FROM system.local"):
            s = getattr(self, "_cur", None) or self._current(self.world.clock.now - self.t0)
            if s == "lost" or s is None:
                return True                           # unanswered, like the peers query of the same poll
            node.send(conn, f.version, f.stream, wire.RESULT, wire.body_rows(
                [("schema_version", wire.T_UUID)], [[wire.c_uuid(SCHEMA_VERSIONS[s["local"]])]], ks="system", table="local"))
            return True
        return False

    def _close_lost(self, now):
        if self.polls and self.polls[-1]["end"] is None:
            self.polls[-1]["end"] = now              # the unanswered poll's request timed out (no pause follows)

    def _begin(self, wait_ticks, timeline, fault_at_poll=None, query_timeout_ticks=None):
        # several harnesses (worlds) coexist: make this one's virtual clock the one blocked waits advance
        from harness.sim import simconn
        simconn.SimWorld.current = self.world
        simconn.SimEvent.world = self.world
        self.world.install()
        self.cc._timeout = 2.0 if query_timeout_ticks is None else query_timeout_ticks * TICK    # control_connection_timeout
        self.fault_at_poll = fault_at_poll
        self.aborted_at = None
        self.cluster.max_schema_agreement_wait = wait_ticks * TICK
        self.timeline = list(timeline)
        self.polls = []
        self._cur = None
        self.world.clock.sleeps = 0
        self.t0 = self.world.clock.now
        del self.ctl.received[:]

    def _end(self, out):
        for p in self.kpeers:
            self.hosts[p].is_up = True
        self._close_lost(self.world.clock.now - self.t0)
        out["polls"] = list(self.polls)
        out["end"] = self.world.clock.now - self.t0
        out["aborted_at"] = self.aborted_at
        return out

    def direct(self, wait_ticks, timeline, fault_at_poll=None, query_timeout_ticks=None):
        """cluster.control_connection.wait_for_schema_agreement() -> {"outcome", "polls", "end"}."""
        self._begin(wait_ticks, timeline, fault_at_poll, query_timeout_ticks)
        out = {"error": None}
        try:
            out["outcome"] = self.cc.wait_for_schema_agreement()
        except Exception as exc:
            out["outcome"] = "raised"
            out["error"] = "%s: %s" % (type(exc).__name__, str(exc)[:200])
        return self._end(out)

    def ddl(self, wait_ticks, timeline, fault_at_poll=None, query_timeout_ticks=None):
        """A CREATE TABLE request answered with a SCHEMA_CHANGE result -> {"outcome": is_schema_agreed, ...}."""
        self._begin(wait_ticks, timeline, fault_at_poll, query_timeout_ticks)
        out = {"error": None, "outcome": "unset"}
        try:
            fut = self.session.execute_async("CREATE TABLE ks.t (k int PRIMARY KEY)")
            pend = [(n, p) for n in self.nodes.values() for p in n.pending]
            if len(pend) != 1:
                raise tlc.MachineryError("expected exactly one pending DDL request, got %s" % (pend,))
            node, p = pend[0]
            node.respond(p, wire.RESULT, wire.body_schema_change(p.frame.version, "CREATED", "TABLE", "ks", "t"))
            self.cluster.executor.drain()            # runs refresh_schema_and_set_result
            if fut._final_result is ccluster._NOT_SET and fut._final_exception is None:
                out["outcome"] = "unset"
                out["error"] = "the request never completed"
            else:
                out["outcome"] = fut.is_schema_agreed
                if fut._final_exception is not None:
                    out["error"] = repr(fut._final_exception)[:200]
        except tlc.MachineryError:
            raise
        except Exception as exc:
            out["outcome"] = "raised"
            out["error"] = "%s: %s" % (type(exc).__name__, str(exc)[:200])
        return self._end(out)

    def refresh(self, wait_ticks, timeline, per_call, query_timeout_ticks=None):
        """Cluster.refresh_schema_metadata([max_schema_agreement_wait=per_call ticks]) -> {"outcome": True when it
        returned (the schema was refreshed), False when it raised DriverException (not refreshed)}."""
        self._begin(wait_ticks, timeline, None, query_timeout_ticks)
        out = {"error": None}
        try:
            if per_call is None:
                self.cluster.refresh_schema_metadata()
            else:
                self.cluster.refresh_schema_metadata(max_schema_agreement_wait=per_call * TICK)
            out["outcome"] = True
        except ccluster.DriverException as exc:
            out["outcome"] = False
            out["error"] = str(exc)[:200]
        except Exception as exc:
            out["outcome"] = "raised"
            out["error"] = "%s: %s" % (type(exc).__name__, str(exc)[:200])
        return self._end(out)

    def shutdown(self):
        try:
            self.cluster.shutdown()
        except Exception:
            pass


def agree_trace(harnesses, mode, wait_ticks, timeline, fault_at_poll=None, query_timeout_ticks=None, per_call=-1):
    """Run the real wait once on a scripted timeline; returns (trace for Trace_ControlAgree.tla, raw observation).
    mode "refresh" = Cluster.refresh_schema_metadata, with max_schema_agreement_wait=per_call ticks unless per_call
    is -1; wait_ticks is always the cluster-wide Cluster.max_schema_agreement_wait.
    With `fault_at_poll` = k the k-th poll (0-based) is answered by closing the connection the wait runs on: an
    exception escapes from the wait (event Abort); the harness used is replaced by a fresh one afterwards.
    A timeline entry whose snapshot is None is a period in which the node does not answer the schema-version queries
    (the driver's requests time out after min(query_timeout, remaining wait): PollLost events).
    The trace ends with a `Broken` event (which no specification action matches) when the call raised / never
    completed without a scripted fault."""
    key = "nometa" if mode in ("direct", "ddl_nometa") else "meta"
    h = harnesses[key]
    given = mode == "refresh" and per_call != -1          # -1: no per-call wait is passed (mode "refresh" only)
    if mode == "refresh":
        got = h.refresh(wait_ticks, timeline, per_call if given else None, query_timeout_ticks)
    elif mode == "direct":
        got = h.direct(wait_ticks, timeline, fault_at_poll, query_timeout_ticks)
    else:
        got = h.ddl(wait_ticks, timeline, fault_at_poll, query_timeout_ticks)
    tr = [{"e": "Start", "mode": mode, "cw": wait_ticks, "given": given, "pc": per_call if given else 0}]
    lost = False
    for p in got["polls"]:
        s = p["snap"]
        if s is None:
            lost = True
            tr.append({"e": "PollLost", "at": tick_of(p["at"]), "end": max(tick_of(p["end"]), tick_of(p["at"]) + 1)})
        else:
            tr.append({"e": "Poll", "at": tick_of(p["at"]),
                       "snap": {"local": s["local"], "pv": list(s["pv"]), "st": list(s["st"])}})
    done = got["outcome"] is True or got["outcome"] is False
    if got["aborted_at"] is not None and (done or got["outcome"] == "raised"):
        v = "n/a" if (mode == "direct" and not done) else ("yes" if got["outcome"] is True else "no" if done else "n/a")
        tr.append({"e": "Abort", "v": v, "at": tick_of(got["aborted_at"])})
    elif done:
        tr.append({"e": "Finish", "v": "yes" if got["outcome"] else "no", "at": tick_of(got["end"])})
    else:
        tr.append({"e": "Broken", "what": str(got["outcome"]), "error": got["error"]})
    if got["aborted_at"] is not None or lost:
        h.shutdown()                                   # the connection it ran on is gone / has requests nobody answers
        harnesses[key] = AgreeHarness(h.kpeers, h.upeers, h.meta_enabled)
    return tr, got


def _uniform(s):
    """Labelling aid only (signatures of rejected traces); acceptance is TLC's decision."""
    live = {s["local"]} | {v for v, st in zip(s["pv"], s["st"]) if st != "down"}
    return len(live) == 1


def agree_signature(trace, rejected_at):
    """Stable class of a trace TLC rejected at event index `rejected_at` (0-based)."""
    mode = trace[0]["mode"]
    ev = trace[rejected_at]
    polls = [e for e in trace[:rejected_at] if e["e"] == "Poll"]
    if ev["e"] == "Broken":
        return "agree:%s:%s" % (mode, ev["what"])
    if ev["e"] == "Abort":
        if mode == "direct":
            return "agree:direct:returned-%s-although-the-wait-was-cut-short" % ev["v"]
        return "agree:%s:is_schema_agreed-%s-after-the-wait-raised" % (mode, {"yes": "True", "no": "False"}.get(ev["v"], ev["v"]))
    if ev["e"] in ("Poll", "PollLost") and trace[0].get("given") and ev["at"] >= trace[0]["pc"]:
        return "agree:%s:polled-beyond-the-per-call-wait-of-%s" % (mode, "zero" if trace[0]["pc"] == 0 else "the-call")
    if ev["e"] == "Poll":
        if polls and _uniform(polls[-1]["snap"]):
            return "agree:%s:polled-after-agreement" % mode
        return "agree:%s:stopped-polling-for-longer-than-the-poll-interval" % mode
    if ev["e"] == "Finish":
        what = "verdict" if mode == "direct" else "is_schema_agreed"
        if ev["v"] == "yes":
            if not polls and any(e["e"] == "PollLost" for e in trace[:rejected_at]):
                return "agree:%s:agreement-reported-although-every-poll-timed-out" % mode
            if not polls:
                return "agree:%s:agreement-reported-without-polling" % mode
            return "agree:%s:%s-True-instead-of-False" % (mode, what)
        if polls and _uniform(polls[-1]["snap"]):
            return "agree:%s:%s-False-instead-of-True" % (mode, what)
        return "agree:%s:gave-up-before-the-wait-elapsed" % mode
    return "agree:%s:%s" % (mode, ev["e"])


# ====================================================================== C42: concurrent refreshes (ControlRefreshConc.tla)
def concurrent_refresh(new_peers, schedule, rng=None):
    """Two logical threads (DetSched) run ControlConnection.refresh_node_list_and_token_map concurrently on one cluster
    whose tables have just begun to describe `new_peers`.  Metadata._hosts_lock is a DRLock: every acquisition is a
    yield point - in particular the one inside Metadata.add_or_return_host.
    schedule = ("pause", first, k): thread `first` runs to its k-th yield point, the other thread runs to completion,
    then `first` finishes;  ("random",): a seeded random interleaving;  ("count",): returns the number of yield points
    of one refresh.  Returns the projection of the cluster afterwards (see RefreshHarness.project)."""
    from harness.sim.detsched import DetSched, DRLock
    peers = sorted(new_peers)
    h = RefreshHarness(peers)
    snap0 = {"local": {"loc": "a", "tok": 1}, "info": [{"loc": "a", "tok": 1} for _ in peers],
             "shape": ["absent" for _ in peers], "ctlDup": False}
    h.refresh({"snap": snap0, "rows": [], "force": False})
    rows = [{"ep": p, "miss": "none", "info": {"loc": "a", "tok": 1}} for p in peers]
    snap1 = dict(snap0, shape=["valid" for _ in peers])
    h.install({"snap": snap1, "rows": rows, "force": False})
    del h.listener.events[:]
    del h.lbp.events[:]
    sched = DetSched()
    h.cluster.metadata._hosts_lock = DRLock("hosts")
    cc = h.cluster.control_connection
    out = {"error": None, "yields": None}
    try:
        if schedule[0] == "count":
            sched.spawn("T1", cc.refresh_node_list_and_token_map)
            n = 0
            while sched.step("T1") != "end":
                n += 1
            out["yields"] = n
        else:
            sched.spawn("T1", cc.refresh_node_list_and_token_map)
            sched.spawn("T2", cc.refresh_node_list_and_token_map)
            if schedule[0] == "pause":
                first, k = schedule[1], schedule[2]
                other = "T2" if first == "T1" else "T1"
                for _ in range(k):
                    if sched.threads[first].done or sched.step(first) == "end":
                        break
                sched.finish(other)
                if not sched.threads[first].done:
                    sched.finish(first)
            else:
                sched.run_random(rng)
    except Exception as exc:
        out["error"] = "%s: %s" % (type(exc).__name__, str(exc)[:200])
    finally:
        sched.close()
    proj = h.project(out["error"] is None, False, None)
    proj["yields"] = out["yields"]
    proj["error"] = out["error"]
    h.shutdown()
    return proj
