"""Binding between spec/Segments.tla and the real protocol-v5 read path (C06).

Real side: a SimConnection that completed a real v5 handshake with a FakeNode (the driver itself called
_enable_checksumming()).  "Compression negotiated" = conn._segment_codec replaced by
cassandra.segment.SegmentCodec(compress, decompress) built from a stand-in pair with lz4's calling convention
(int32 uncompressed length || block); lz4 itself is not installed.  Segment bytes come from harness/wire.py
(independent CRC24 / CRC32 code), with the real MAX_PAYLOAD_LENGTH.

Scaling.  The specification works with MaxPayload = 4 and a 2-byte frame header; header and CRC lengths are the
real ones.  A Layout ties one real configuration (frames, segmentation, codec, per-segment compression choice,
one flipped bit) to the model configuration with the same structure, and maps stream offsets both ways,
boundary by boundary:

    offsets inside header / CRC24 / CRC32 regions      identical
    payload offset 0 and payload end                    identical (as boundaries)
    model payload of p wire bytes, real P wire bytes   interior offsets 1..p-1 <-> classes of 1..P-1:
         p = 2: {1..P-1}      p = 3: {1..P-2}, {P-1}      p = 4: {1}, {2..P-2}, {P-1}

so that every decision of a correct receiver (enough bytes for a header? the whole segment?) is the same at a
model offset and at any real offset of its class.
"""
import zlib

from harness import wire
from harness.replay import framing as rf
from harness.replay.framing import open_connection, Recorder, diff      # noqa: F401

from cassandra.segment import SegmentCodec, Segment
from cassandra.marshal import int32_pack
from cassandra.connection import CrcMismatchException

MAX = wire.MAX_PAYLOAD
assert Segment.MAX_PAYLOAD_LENGTH == MAX, "driver's MAX_PAYLOAD_LENGTH changed"
A_MAX = 4          # model MaxPayload
A_HDR = 2          # model frame header
A_CLEN = 2         # model length of a compressed payload
FH = 9             # real v5 frame header


# ------------------------------------------------------------------ stand-in compressor (lz4 calling convention)
def standin_compress(data):
    return int32_pack(len(data)) + zlib.compress(bytes(data), 1)


def standin_decompress(data):
    return zlib.decompress(bytes(data[4:]))


def harness_compress(chunk):
    """What the *sender* puts into a compressed segment (the block without the length prefix)."""
    return zlib.compress(bytes(chunk), 1)


# ------------------------------------------------------------------ real sizes for model sizes and back
REM = {0: 0, 1: 1, 2: 300, 3: 70000}


def real_blen_for(neg, f, packed):
    """Real body length of the frame standing for a model frame of f = A_HDR + blen bytes."""
    if neg:
        return {2: 28, 3: 36}[f]
    if f == 2:
        return 4 if packed else 0
    if f == 3:
        return 8
    q, m = divmod(f, A_MAX)
    return q * MAX + REM[m] - FH


def abs_len_for(F, packed):
    """Model length of a real frame of F bytes (inverse direction, for recorded runs)."""
    if F <= MAX:
        if packed:
            return 2
        if F == MAX:
            return 4
        return 2 if F == FH else 3
    q, r = divmod(F, MAX)
    m = 0 if r == 0 else 1 if r == 1 else 2 if r < 1000 else 3
    return A_MAX * q + m


_SEG_CACHE = {}


def encode_segment_cached(payload, sc, comp, ulen):
    key = (payload, sc, comp, ulen)
    b = _SEG_CACHE.get(key)
    if b is None:
        if len(_SEG_CACHE) > 400:
            _SEG_CACHE.clear()
        b = _SEG_CACHE[key] = wire.encode_segment(payload, sc, comp, ulen)
    return b


class SFrame:
    """One v5 response / push frame: real bytes + its model shape."""
    __slots__ = ("idx", "ver", "neg", "blen", "ablen", "stream", "opcode", "body", "expect", "raw")

    def __init__(self, idx, neg, real_blen, abs_blen):
        self.idx, self.ver, self.neg, self.blen, self.ablen = idx, 5, neg, real_blen, abs_blen
        if neg:
            self.stream = -1
            self.opcode, self.body, self.expect = rf.neg_body(idx, real_blen)
        else:
            self.stream = rf.stream_for(5, idx)
            self.opcode, self.body, self.expect = rf.pos_body(idx, real_blen)
        self.raw = wire.encode_frame(5, 0, self.stream, self.opcode, self.body, response=True)
        assert len(self.raw) == FH + real_blen


_FRAME_CACHE = {}


def sframe(idx, neg, real_blen, abs_blen):
    key = (idx, neg, real_blen, abs_blen)
    f = _FRAME_CACHE.get(key)
    if f is None:
        if len(_FRAME_CACHE) > 200:
            _FRAME_CACHE.clear()
        f = _FRAME_CACHE[key] = SFrame(idx, neg, real_blen, abs_blen)
    return f


def build_abs_segs(flens, groups_first):
    """Python mirror of Segments.tla Build: flens = model frame lengths, groups_first[i] = frame i starts a new
    segment (False = packed with the previous one). Returns list of dict(lo, hi, sc, frames=[...])."""
    segs = []
    off = 0
    for i, f in enumerate(flens):
        if f > A_MAX:
            s = off
            left = f
            while left:
                n = min(left, A_MAX)
                segs.append({"lo": s, "hi": s + n, "sc": False, "frames": [i]})
                s += n
                left -= n
        elif not groups_first[i] and segs and segs[-1]["sc"] and segs[-1]["hi"] - segs[-1]["lo"] + f <= A_MAX:
            segs[-1]["hi"] += f
            segs[-1]["frames"].append(i)
        else:
            segs.append({"lo": off, "hi": off + f, "sc": True, "frames": [i]})
        off += f
    return segs


class Layout:
    """Real and model view of one configuration.

    frames : list of SFrame;  first[i] : frame i starts a new segment;  codec : "plain" / "comp";
    zflags[s] : sender compressed segment s;  corrupt : (seg 1-based, region, bit index in region) or None."""

    def __init__(self, frames, first, codec, zflags, corrupt=None):
        self.frames, self.first, self.codec = frames, list(first), codec
        self.comp = codec == "comp"
        self.hl = 5 if self.comp else 3
        flens = [A_HDR + f.ablen for f in frames]
        self.abs_segs = build_abs_segs(flens, self.first)
        if len(zflags) != len(self.abs_segs):
            raise ValueError("zflags/segments mismatch")
        # real frame stream and the real range of every segment (same structure: piece k of a large frame = k*MAX)
        rstart = [0]
        for f in frames:
            rstart.append(rstart[-1] + len(f.raw))
        astart = [0]
        for n in flens:
            astart.append(astart[-1] + n)
        self.rstart, self.astart = rstart, astart
        stream = b"".join(f.raw for f in frames)
        self.segs = []
        for s, a in enumerate(self.abs_segs):
            fi = a["frames"][0]
            if a["sc"]:
                lo, hi = rstart[fi], rstart[a["frames"][-1] + 1]
            else:
                k = (a["lo"] - astart[fi]) // A_MAX
                lo = rstart[fi] + k * MAX
                hi = min(lo + MAX, rstart[fi + 1])
            if hi - lo > MAX or hi <= lo:
                raise ValueError("real segmentation does not follow the model's: %r" % (a,))
            chunk = stream[lo:hi]
            z = bool(zflags[s])
            if z and not self.comp:
                raise ValueError("compressed segment without negotiated compression")
            payload = harness_compress(chunk) if z else chunk
            raw = encode_segment_cached(payload, a["sc"], self.comp, len(chunk) if z else 0)
            ap = A_CLEN if z else a["hi"] - a["lo"]
            if len(payload) < ap:
                raise ValueError("real payload shorter than the model's")
            self.segs.append({"lo": lo, "hi": hi, "sc": a["sc"], "z": z, "P": len(payload), "p": ap, "raw": raw,
                              "alo": a["lo"], "ahi": a["hi"]})
        # every big frame must have been cut at the same places
        for i, f in enumerate(frames):
            mine = [sg for sg, a in zip(self.segs, self.abs_segs) if i in a["frames"]]
            if mine[-1]["hi"] != rstart[i + 1] and not mine[-1]["sc"]:
                raise ValueError("frame %d: real and model piece counts differ" % (i + 1))
        self.rseg_start = [0]
        self.aseg_start = [0]
        for sg in self.segs:
            self.rseg_start.append(self.rseg_start[-1] + len(sg["raw"]))
            self.aseg_start.append(self.aseg_start[-1] + self.hl + 3 + sg["p"] + 4)
        self.rlen, self.alen = self.rseg_start[-1], self.aseg_start[-1]
        self.clean_wire = b"".join(sg["raw"] for sg in self.segs)
        self.wire = self.clean_wire
        self.corrupt = None
        if corrupt:
            self._flip(*corrupt)

    def _flip(self, s, reg, bit):
        data = bytearray(self.clean_wire)
        lo, n = self.region(s, reg)
        bit %= n * 8
        data[lo + bit // 8] ^= 1 << (bit % 8)
        self.corrupt = (s, reg, bit)
        self.wire = bytes(data)

    def corrupt_seen(self, rsent):
        """Has the flipped bit been handed to the connection once rsent bytes were read?"""
        if not self.corrupt:
            return False
        lo, _ = self.region(self.corrupt[0], self.corrupt[1])
        return rsent > lo + self.corrupt[2] // 8

    def with_corruption(self, s, reg, bit):
        """Same configuration with one flipped bit (shares everything but the wire bytes)."""
        import copy as _copy
        lay = _copy.copy(self)
        lay._flip(s, reg, bit)
        return lay

    def region(self, s, reg):
        """(real offset, length in bytes) of region reg of segment s (1-based)."""
        sg = self.segs[s - 1]
        b = self.rseg_start[s - 1]
        return {"h": (b, self.hl), "c": (b + self.hl, 3), "p": (b + self.hl + 3, sg["P"]),
                "q": (b + self.hl + 3 + sg["P"], 4)}[reg]

    # ---- configuration as the specification sees it
    def abs_config(self):
        return {"frames": [{"ver": 5, "neg": f.neg, "blen": f.ablen, "sid": f.stream if f.neg else 0} for f in self.frames],
                "codec": self.codec,
                "segs": [{"lo": a["lo"], "hi": a["hi"], "sc": a["sc"], "z": sg["z"]} for a, sg in zip(self.abs_segs, self.segs)],
                "corrupt": {"seg": self.corrupt[0], "reg": self.corrupt[1]} if self.corrupt else {"seg": 0, "reg": "none"}}

    # ---- offsets
    def _classes(self, sg):
        """Real interior payload offsets 1..P-1 per model interior offset 1..p-1: list of (first, last)."""
        P, p = sg["P"], sg["p"]
        if p <= 1:
            return []
        if p == 2:
            return [(1, P - 1)]
        if p == 3:
            return [(1, P - 2), (P - 1, P - 1)]
        if p == 4:
            return [(1, 1), (2, P - 2), (P - 1, P - 1)]
        raise ValueError("model payload of %d bytes" % p)

    def to_abs(self, r):
        """Model offset of real stream offset r."""
        s = 0
        while s + 1 < len(self.segs) and r >= self.rseg_start[s + 1]:
            s += 1
        if r >= self.rlen:
            return self.alen
        sg = self.segs[s]
        x = r - self.rseg_start[s]
        base = self.aseg_start[s]
        h = self.hl + 3
        if x <= h:
            return base + x
        if x >= h + sg["P"]:
            return base + h + sg["p"] + (x - h - sg["P"])
        y = x - h
        for j, (a, b) in enumerate(self._classes(sg), start=1):
            if a <= y <= b:
                return base + h + j
        return base + h            # model payload without interior: counts as "payload not started"

    def to_real(self, a, rng=None):
        """A real stream offset of the class of model offset a (rng picks inside the class)."""
        if a >= self.alen:
            return self.rlen
        s = 0
        while s + 1 < len(self.segs) and a >= self.aseg_start[s + 1]:
            s += 1
        sg = self.segs[s]
        x = a - self.aseg_start[s]
        base = self.rseg_start[s]
        h = self.hl + 3
        if x <= h:
            return base + x
        if x >= h + sg["p"]:
            return base + h + sg["P"] + (x - h - sg["p"])
        lo, hi = self._classes(sg)[x - h - 1]
        if hi < lo:
            raise ValueError("empty class")
        if rng is None or lo == hi:
            y = lo
        else:
            y = rng.choice([lo, hi, (lo + hi) // 2, rng.randint(lo, hi)])
        return base + h + y

    def interesting_real_offsets(self):
        """Real offsets around every structural boundary (for random chunkings of recorded runs)."""
        out = set()
        for s, sg in enumerate(self.segs):
            b = self.rseg_start[s]
            h = self.hl + 3
            e = b + len(sg["raw"])
            for x in (b + 1, b + 2, b + self.hl - 1, b + self.hl, b + h - 1, b + h, b + h + 1, b + h + sg["P"] - 1,
                      b + h + sg["P"], e - 3, e - 2, e - 1, e):
                if 0 < x <= self.rlen:
                    out.add(x)
        return sorted(out)


_LAYOUT_CACHE = {}


def layout_from_state(state, rng=None, bit=None):
    """Layout for a Segments.tla state (its configuration variables)."""
    fr = state["frames"]
    sg = state["segs"]
    key = repr((tuple((bool(f["neg"]), int(f["blen"])) for f in fr), str(state["codec"]),
                tuple((int(s["lo"]), int(s["hi"]), bool(s["sc"]), bool(s["z"])) for s in sg)))
    base = _LAYOUT_CACHE.get(key)
    if base is None:
        flens = [A_HDR + int(f["blen"]) for f in fr]
        # which frames are packed with their predecessor: a frame that does not start at a segment's lo
        los = set(int(s["lo"]) for s in sg)
        off = 0
        first = []
        for n in flens:
            first.append(off in los)
            off += n
        frames = []
        for i, f in enumerate(fr):
            packed = (not first[i]) or (i + 1 < len(fr) and not first[i + 1])
            frames.append(sframe(i + 1, bool(f["neg"]), real_blen_for(bool(f["neg"]), flens[i], packed), int(f["blen"])))
        base = Layout(frames, first, str(state["codec"]), [bool(s["z"]) for s in sg], None)
        mine = [(a["lo"], a["hi"], a["sc"], s["z"]) for a, s in zip(base.abs_segs, base.segs)]
        theirs = [(int(s["lo"]), int(s["hi"]), bool(s["sc"]), bool(s["z"])) for s in sg]
        if mine != theirs:
            raise ValueError("harness segmentation %r differs from the specification's %r" % (mine, theirs))
        if len(_LAYOUT_CACHE) > 64:
            _LAYOUT_CACHE.clear()
        _LAYOUT_CACHE[key] = base
    cr = state["corrupt"]
    if int(cr["seg"]) == 0:
        return base
    b = bit if bit is not None else (rng.randrange(1 << 30) if rng else 0)
    return base.with_corruption(int(cr["seg"]), str(cr["reg"]), b)


def _buflen(b):
    with b.getbuffer() as m:
        return m.nbytes


# ------------------------------------------------------------------ the real connection
class SegHarness:
    """Real v5 connections (one per codec), reused while they stay clean."""

    def __init__(self):
        self.conns = {}
        self.opened = 0

    def _fresh(self, codec):
        world, node, conn = open_connection(5)
        if not conn._is_checksumming_enabled:
            raise RuntimeError("v5 handshake did not enable checksumming")
        if codec == "comp":
            # what _enable_checksumming() does with lz4 installed: segment_codec_lz4 = SegmentCodec(lz4_compress, lz4_decompress)
            conn._segment_codec = SegmentCodec(standin_compress, standin_decompress)
        rec = Recorder(conn)
        self.conns[codec] = (world, node, conn, rec)
        self.opened += 1

    def _clean(self, codec):
        e = self.conns.get(codec)
        if e is None:
            return False
        c = e[2]
        try:
            return (not c.is_defunct and not c.is_closed and c._current_frame is None
                    and _buflen(c._io_buffer.io_buffer) == 0
                    and _buflen(c._io_buffer.cql_frame_buffer) == 0)
        except Exception:
            return False

    def start(self, lay):
        if not self._clean(lay.codec):
            self._fresh(lay.codec)
        self.world, self.node, self.conn, self.rec = self.conns[lay.codec]
        self.lay = lay
        self.rec.load(lay.frames)
        self.rsent = 0
        self.error = None

    def read_to(self, r):
        """Hand the bytes up to real offset r to the connection (one read handler invocation)."""
        chunk = self.lay.wire[self.rsent:r]
        self.rsent = r
        c = self.conn
        if c.is_closed or c.is_defunct or not chunk:
            return
        self.error = rf.guarded_feed(c, chunk) or self.error

    def project(self):
        """The connection's state in model units."""
        c, r, lay = self.conn, self.rec, self.lay
        defunct = bool(c.is_defunct or c.is_closed)
        try:
            iolen = _buflen(c._io_buffer.io_buffer)
            cqllen = _buflen(c._io_buffer.cql_frame_buffer)
        except Exception:
            iolen = cqllen = -1
        nsent = lay.to_abs(self.rsent)
        b = self.rsent - iolen
        nseg = lay.rseg_start.index(b) if (iolen >= 0 and b in lay.rseg_start) else -1
        segbuf = nsent - lay.aseg_start[nseg] if nseg >= 0 else -1
        done_real = sum(len(lay.frames[i - 1].raw) for i in r.order if 1 <= i <= len(lay.frames))
        done_abs = sum(A_HDR + lay.frames[i - 1].ablen for i in r.order if 1 <= i <= len(lay.frames))
        fs_real = done_real + cqllen
        want_real = lay.segs[nseg - 1]["hi"] if nseg >= 1 else 0
        if nseg >= 0 and cqllen >= 0 and fs_real == want_real:
            sent = lay.segs[nseg - 1]["ahi"] if nseg >= 1 else 0
            buflen = sent - done_abs
        else:
            sent = buflen = -1

        def conv(lst):
            out = []
            for d in lst:
                f = lay.frames[d["idx"] - 1] if 1 <= d["idx"] <= len(lay.frames) else None
                out.append({"idx": d["idx"], "stream": d["stream"],
                            "len": f.ablen if (f is not None and d["len"] == f.blen) else -1, "exact": d["exact"]})
            return out
        # everything handed to process_msg must be a frame that was sent, unaltered, each once, in order
        altered = 0
        last = 0
        for m in r.msgs:
            hit = 0
            for f in lay.frames:
                if m == (5, f.stream, f.opcode, f.body) and f.idx > last:
                    hit = f.idx
                    break
            if hit:
                last = hit
            else:
                altered += 1
        crc = isinstance(c.last_error, CrcMismatchException)
        return {"nsent": nsent, "segbuf": segbuf, "nseg": nseg, "sent": sent, "buflen": buflen,
                "cur": c._current_frame is not None, "delivered": conv(r.delivered), "pushed": conv(r.pushed),
                "order": list(r.order), "nmsgs": len(r.msgs), "altered": altered, "defunct": defunct,
                "err": (type(c.last_error).__name__ if (defunct and c.last_error is not None) else ""),
                "crc": crc if defunct else False}


COMPARED = ("nsent", "segbuf", "nseg", "sent", "buflen", "cur", "delivered", "pushed", "order", "nmsgs", "altered", "defunct")


def spec_projection(state):
    return {"nsent": state["nsent"], "segbuf": len(state["segbuf"]), "nseg": state["nseg"], "sent": state["sent"],
            "buflen": len(state["buf"]), "cur": state["cur"] != 0,
            "delivered": [dict(d) for d in state["delivered"]], "pushed": [dict(d) for d in state["pushed"]],
            "order": list(state["order"]), "nmsgs": len(state["order"]), "altered": 0, "defunct": bool(state["defunct"])}


def compare(spec, code, corrupt_seen=False):
    """{} when the real connection conforms.  Before the specification's receiver has failed the connection the
    projections must be equal.  Once it has (a corruption was detected) the property only asks for a failed
    connection and no altered data: messages of untouched segments may or may not have been delivered.  The same
    holds when the real connection fails earlier than the specification's receiver would, provided the flipped
    bit has already been handed to it (`corrupt_seen`): failing on a corrupted stream is what the property asks."""
    if spec["defunct"] or (corrupt_seen and code.get("defunct")):
        d = {}
        if not code["defunct"]:
            d["defunct"] = {"spec": True, "code": False}
        if code["altered"]:
            d["altered"] = {"spec": 0, "code": code["altered"]}
        bad = [x for x in code["delivered"] + code["pushed"] if not x["exact"]]
        if bad:
            d["delivered"] = {"spec": "only unaltered messages", "code": bad}
        return d
    return {k: {"spec": spec[k], "code": code.get(k)} for k in COMPARED if spec[k] != code.get(k)}


def segment_at(lay, rsent):
    """Index (0-based) of the segment the byte before real offset rsent belongs to."""
    for s in range(len(lay.segs)):
        if lay.rseg_start[s] < rsent <= lay.rseg_start[s + 1]:
            return s
    return 0


def classify(lay, rsent, code, spec_defunct, keys=()):
    """Stable signature of a divergence: names the class of failure, not the instance."""
    s = segment_at(lay, rsent)
    kind = "compressed" if lay.segs[s]["z"] else "uncompressed"
    if any(not x.get("exact") for x in (code.get("delivered") or []) + (code.get("pushed") or [])):
        return "altered-data-delivered-to-handler"
    if code.get("altered"):
        return ("altered-frame-handed-to-process_msg-after-defunct" if code.get("defunct")
                else "altered-frame-handed-to-process_msg")
    if not spec_defunct and code.get("defunct"):
        return "spurious-defunct:codec=%s:segment=%s" % (lay.codec, kind)
    if spec_defunct and not code.get("defunct"):
        return "corruption-undetected:region=%s" % (lay.corrupt[1] if lay.corrupt else "?")
    if not spec_defunct and code.get("segbuf") == -1:
        x = rsent - lay.rseg_start[s]
        return "io-buffer-lost-bytes:%s" % ("partial-header" if x < lay.hl + 3 else "partial-segment")
    return "replay:SRead:%s" % ",".join(sorted(keys))


def replay_positions(h, lay, positions, expected, rng=None, reals=None):
    """Feed the real connection up to each model offset in turn; compare after every read.
    Returns None or {step, a (model offset), r (real offset), diff, signature}.  `reals` (out) collects the
    real offsets used."""
    h.start(lay)
    with rf.watchdog():
        for n, a in enumerate(positions):
            r = lay.to_real(a, rng)
            if reals is not None:
                reals.append(r)
            if r < h.rsent:
                raise ValueError("offset map is not monotone")
            h.read_to(r)
            if expected is not None:
                code = h.project()
                d = compare(expected[n], code, lay.corrupt_seen(r))
                if d:
                    return {"step": n, "a": a, "r": r, "diff": d, "error": h.error, "err": code.get("err"),
                            "signature": classify(lay, r, code, expected[n]["defunct"], d)}
    return None


# ------------------------------------------------------------------ code -> spec: recorded runs
SIZE_POOL = [FH, FH + 4, FH + 8, 60, 300, 5000, 70000, MAX - 1, MAX, MAX + 1, MAX + 2, MAX + 300, MAX + 70000,
             2 * MAX - 1, 2 * MAX, 2 * MAX + 1, 2 * MAX + 300, 3 * MAX + 5000]


def random_layout(rng, max_frames=3, corrupt_p=0.0):
    n = rng.randint(1, max_frames)
    codec = rng.choice(["plain", "comp"])
    shapes = []
    for i in range(n):
        if rng.random() < 0.25:
            shapes.append((True, FH + rng.choice([28, 30, 36, 40])))
        else:
            F = rng.choice(SIZE_POOL)
            if FH + 8 < F < FH + rf.ROWS_OVERHEAD:
                F = FH + rf.ROWS_OVERHEAD
            shapes.append((False, F))
    first = [True] * n
    for i in range(1, n):
        small = shapes[i][1] < 1000 and shapes[i - 1][1] < 1000
        if small and first[i - 1] and rng.random() < 0.4:
            first[i] = False          # packed pairs only (the model's payload holds two minimal frames)
    frames = []
    for i, (neg, F) in enumerate(shapes):
        packed = (not first[i]) or (i + 1 < n and not first[i + 1])
        frames.append(sframe(i + 1, neg, F - FH, abs_len_for(F, packed) - A_HDR))
    nsegs = len(build_abs_segs([A_HDR + f.ablen for f in frames], first))
    if codec == "comp":
        mode = rng.choice(["none", "all", "free", "free"])
        z = [mode == "all" or (mode == "free" and rng.random() < 0.5) for _ in range(nsegs)]
    else:
        z = [False] * nsegs
    corrupt = None
    if rng.random() < corrupt_p:
        corrupt = (rng.randint(1, nsegs), rng.choice(["h", "c", "p", "q"]), rng.randrange(1 << 30))
    return Layout(frames, first, codec, z, corrupt)


def random_real_cuts(rng, lay):
    style = rng.choice(["boundaries", "boundaries", "near", "few", "whole", "bytes-at-boundaries"])
    pts = lay.interesting_real_offsets()
    if style == "whole":
        cuts = []
    elif style == "few":
        cuts = [rng.randint(1, lay.rlen) for _ in range(rng.randint(1, 4))]
    elif style == "near":
        cuts = [min(lay.rlen, max(1, rng.choice(pts) + rng.randint(-3, 3))) for _ in range(rng.randint(2, 12))]
    elif style == "bytes-at-boundaries":
        cuts = list(pts)
    else:
        cuts = [p for p in pts if rng.random() < 0.4] + [rng.randint(1, lay.rlen) for _ in range(rng.randint(0, 3))]
    return sorted(set(cuts) | {lay.rlen})


def record(h, lay, cuts):
    """Run the real connection over `cuts` (real offsets), log model-level events."""
    h.start(lay)
    trace = [dict(e="Init", **lay.abs_config())]
    prev_a = 0
    prev_proj = None
    for r in cuts:
        with rf.watchdog():
            h.read_to(r)
        p = h.project()
        k = p["nsent"] - prev_a
        if k == 0 and prev_proj is not None and all(p[x] == prev_proj[x] for x in COMPARED):
            continue                     # a read inside one offset class that changed nothing observable
        p["seen"] = lay.corrupt_seen(r)
        trace.append({"e": "Read", "k": k, "r": r, "post": p})
        prev_a, prev_proj = p["nsent"], p
        if p["defunct"]:
            break
    return trace
