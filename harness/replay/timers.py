"""Binding between spec/Timers.tla and the real cassandra.connection.Timer / TimerManager and
cassandra.cluster._Scheduler.

Nothing of the classes under test is re-implemented: the real add_timer / service_timeouts / next_timeout /
Timer.cancel / Timer.finish and the real _Scheduler.schedule / schedule_unique / _insert_task / run / shutdown /
_log_if_failed run.  What the harness supplies is the outside world:

  * HClock        stands in for the `time` module inside cassandra.connection and cassandra.cluster (virtual
                  clock in integer ticks, BASE + ticks seconds); a clock read / a sleep by one of the two loop
                  threads is a DetSched yield point.
  * loop threads  service_timeouts() and _Scheduler.run() run as DetSched logical threads (greenlets).  Their
                  yield points sit on the objects they share with other threads, never on source lines:
                  Timer.finish (HTimer subclass, yields then calls the real finish), the clock, reads of
                  _Scheduler.is_shutdown by the scheduler thread (a property on the HSched subclass),
                  _queue.get (HQueue, a queue.PriorityQueue whose blocking get parks the logical thread),
                  time.sleep.  The scheduler thread is never started as an OS thread (HSched.start is a no-op);
                  Thread.join is "park until run() has returned".
  * HExecutor     Cluster.executor stand-in: submit() queues and returns a real concurrent.futures.Future;
                  run_next() executes the oldest task and completes the future (done callbacks run).
  * callbacks     timer callbacks / scheduled tasks are harness functions whose behaviour (raise, create a timer,
                  cancel a timer, schedule again) is fixed by the spec's constants.

project() reads the real objects (TimerManager._queue/_new_timers, Timer.end/.canceled, next_timeout,
_Scheduler._queue.queue/_scheduled_tasks/is_shutdown, the executor queue) plus what the callbacks observed.
"""
import concurrent.futures as cf
import queue as _queue

import greenlet

from harness import pyenv
from harness.sim.detsched import DetSched, yield_point

BASE = 1000.0
NONE = -1


class CallbackRaises(Exception):
    """Raised on purpose by a timer callback (Raise) or a scheduled task (RaiseTasks)."""


class HarnessStuck(Exception):
    """The code under test left the envelope the harness can drive (wrong yield point, endless loop, crash)."""


def _mods():
    cconn = pyenv.repo_import("cassandra.connection")
    ccluster = pyenv.repo_import("cassandra.cluster")
    return cconn, ccluster


class HClock:
    def __init__(self, harness):
        self.h = harness
        self.ticks = 0

    def _loop_thread(self):
        s = self.h.sched
        t = s.active
        if t is not None and t.atomic == 0 and greenlet.getcurrent() is t.g and t.name[0] in "SL":
            return t
        return None

    def time(self):
        t = self._loop_thread()
        if t is not None:
            self.h.sched.yield_point("clock")
            if t.name[0] == "S":
                self.h.snow = self.ticks
        return BASE + self.ticks

    def monotonic(self):
        return self.time()

    def sleep(self, dt):
        if self._loop_thread() is not None:
            self.h.sched.yield_point("sleep")

    def __getattr__(self, name):
        import time as _t
        return getattr(_t, name)


def ticks_of(x):
    """A clock value of the code (float seconds) as spec ticks; None -> NONE."""
    if x is None:
        return NONE
    return int(round(x - BASE))


class HExecutor:
    def __init__(self, harness):
        self.h = harness
        self.queue = []

    def submit(self, fn, *args, **kwargs):
        f = cf.Future()
        self.queue.append((fn, args, kwargs, f))
        self.h.on_submit(fn, args, kwargs)
        return f

    def run_next(self):
        fn, args, kwargs, f = self.queue.pop(0)
        f.set_running_or_notify_cancel()
        try:
            r = fn(*args, **kwargs)
        except BaseException as exc:       # what a ThreadPoolExecutor worker does
            f.set_exception(exc)
        else:
            f.set_result(r)
        return f


class HQueue(_queue.PriorityQueue):
    """queue.PriorityQueue whose blocking get parks the calling logical thread instead of blocking the process."""
    h = None

    def get(self, block=True, timeout=None):
        h = self.h
        inside = h.sched.active is not None and greenlet.getcurrent() is h.sched.active.g
        if inside:
            h.l_holding = None
            yield_point("get")
            while not self.queue:
                yield_point("get")
        item = _queue.PriorityQueue.get(self, block=False)
        if inside:
            h.l_holding = item
            h.l_cnt_at_get = h.cnt
        return item

    def put_nowait(self, item):
        h = self.h
        t = h.sched.active
        if t is not None and greenlet.getcurrent() is t.g and t.name == "X" and t.atomic == 0:
            yield_point("put")
        try:
            if item[2] is not None:
                h.cnt = max(h.cnt, item[1] + 1)
        except Exception:
            pass
        return _queue.PriorityQueue.put_nowait(self, item)


_classes = None


def _make_classes():
    global _classes
    if _classes is None:
        _classes = _define_classes()
    return _classes


def _define_classes():
    cconn, ccluster = _mods()

    class HTimer(cconn.Timer):
        h = None
        tid = None

        def finish(self, time_now):
            self.h.parked = self.tid
            yield_point("finish")
            return cconn.Timer.finish(self, time_now)

    class HSched(ccluster._Scheduler):
        h = None

        def start(self):                  # run() is driven as logical thread "L"
            pass

        def join(self, timeout=None):
            yield_point("join")
            while not self.h.loop_done():
                if greenlet.getcurrent() is self.h.sched.main:
                    raise HarnessStuck("join() from the main greenlet while the scheduler thread is alive")
                yield_point("join")

        def _get_shut(self):
            h = self.h
            if h is not None:
                t = h.sched.active
                if t is not None and t.name == "L" and t.atomic == 0 and greenlet.getcurrent() is t.g:
                    yield_point("rd:shut")
            return self.__dict__.get("_h_shut", False)

        def _set_shut(self, v):
            self.__dict__["_h_shut"] = v

        is_shutdown = property(_get_shut, _set_shut)

    return HTimer, HSched


SVC_LABELS = ("clock", "finish")
L_LABELS = ("rd:shut", "get", "clock", "sleep")


class Harness:
    """One TimerManager and one _Scheduler over one virtual clock."""
    TVARS = ("tst", "tend", "canc", "fired", "early", "svc", "snow", "ret", "flog", "next")
    SVARS = ("q", "cnt", "stasks", "lpc", "cur", "shut", "xpc", "execq", "ran", "log")

    def __init__(self, consts):
        c = self.c = consts
        self.with_timers = bool(c.get("WithTimers", True))
        self.with_sched = bool(c.get("WithSched", True))
        cconn, ccluster = _mods()
        self.cconn, self.ccluster = cconn, ccluster
        self.sched = DetSched()
        self.clock = HClock(self)
        self._saved = (cconn.time, ccluster.time)
        cconn.time = self.clock
        ccluster.time = self.clock
        self.HTimer, self.HSched = _make_classes()
        self.HTimer.h = self
        self.spawn = {t: [x % 10 for x in sorted(c.get("SpawnCodes", ())) if x // 10 == t] for t in range(1, c["NT"] + 1)}
        self.kill = {t: [x % 10 for x in sorted(c.get("KillCodes", ())) if x // 10 == t] for t in range(1, c["NT"] + 1)}
        # ---- TimerManager
        self.tm = cconn.TimerManager()
        self.timers = {}
        self.fired = {t: 0 for t in range(1, c["NT"] + 1)}
        self.early = {t: False for t in range(1, c["NT"] + 1)}
        self.flog = []
        self.snow = NONE
        self.ret = NONE
        self.parked = None
        self.svc_thread = None
        self.svc_n = 0
        # ---- _Scheduler
        self.ran = {k: 0 for k in range(1, c["NK"] + 1)}
        self.log = []
        self.cnt = 0
        self.l_holding = None
        self.l_cnt_at_get = NONE
        self.l_exc = None
        if self.with_sched:
            self.executor = HExecutor(self)
            self.HSched.h = None
            self.s = self.HSched(self.executor)
            self.HSched.h = self
            hq = HQueue()
            hq.h = self
            self.s._queue = hq
            self.sched.spawn("L", self._loop_body)
            self._step("L", L_LABELS)             # parked before the first read of is_shutdown

    def close(self):
        self.cconn.time, self.ccluster.time = self._saved
        self.HTimer.h = None
        self.HSched.h = None
        for t in self.sched.threads.values():
            if not t.done:
                try:
                    t.g.throw(greenlet.GreenletExit)
                except BaseException:
                    pass

    # ------------------------------------------------------------------ stepping
    def _step(self, name, labels, limit=2000):
        """Run logical thread `name` to its next yield point among `labels` (or to its end)."""
        n = 0
        while True:
            try:
                lab = self.sched.step(name)
            except HarnessStuck:
                raise
            except greenlet.GreenletExit:
                raise
            except BaseException as ex:      # the code under test raised out of its loop: the thread is dead
                self.sched.threads[name].crashed = "%s: %s" % (type(ex).__name__, ex)
                return "end"
            if lab == "end" or lab in labels:
                return lab
            n += 1
            if n > limit:
                raise HarnessStuck("thread %s does not reach one of %s" % (name, labels))

    # ------------------------------------------------------------------ part 1: timers
    def _callback(self, t):
        def cb():
            th = self.sched.active
            inside = th is not None and greenlet.getcurrent() is th.g
            if inside:
                th.atomic += 1
            try:
                self.fired[t] += 1
                self.flog.append(t)
                tm_ = self.timers[t]
                if self.clock.ticks < ticks_of(tm_.end):
                    self.early[t] = True
                for u in self.kill[t]:
                    if u in self.timers:
                        self.timers[u].cancel()
                for ch in self.spawn[t]:
                    if ch not in self.timers:
                        self._create(ch, self.c["SpawnDelay"])
                if t in self.c["Raise"] and self.fired[t] < self.c["MaxFire"]:
                    raise CallbackRaises("callback of timer %d raises" % t)
            finally:
                if inside:
                    th.atomic -= 1
        return cb

    def _create(self, t, d):
        """What every reactor's create_timer does: Timer(timeout, callback) then add_timer."""
        timer = self.HTimer(float(d), self._callback(t))
        timer.tid = t
        self.timers[t] = timer
        self.tm.add_timer(timer)
        return timer

    def act_AddTimer(self, a, b):
        if a in self.timers:
            raise HarnessStuck("timer %d exists" % a)
        self._create(a, b)

    def act_Cancel(self, a, b):
        self.timers[a].cancel()

    def act_Tick(self, a, b):
        self.clock.ticks += 1

    def _svc_body(self):
        self._svc_result = self.tm.service_timeouts()

    def _svc_after(self, lab):
        if lab == "end":
            th = self.sched.threads[self.svc_thread]
            self.ret = "crash:" + th.crashed if getattr(th, "crashed", None) else ticks_of(self._svc_result)
            self.parked = None

    def svc_state(self):
        if self.svc_thread is None:
            return "idle"
        th = self.sched.threads[self.svc_thread]
        if th.done:
            return "idle"
        return {"clock": "merged", "finish": "loop"}.get(th.at, "at:" + str(th.at))

    def act_SvcMerge(self, a, b):
        if self.svc_state() != "idle":
            raise HarnessStuck("service_timeouts already running")
        self.svc_n += 1
        self.svc_thread = "S%d" % self.svc_n
        self.flog = []
        self.snow = NONE
        self.ret = NONE
        self._svc_result = None
        self.sched.spawn(self.svc_thread, self._svc_body)
        self._svc_after(self._step(self.svc_thread, SVC_LABELS))

    def act_SvcReadClock(self, a, b):
        if self.svc_state() != "merged":
            raise HarnessStuck("service_timeouts is not before its clock read (%s)" % self.svc_state())
        self._svc_after(self._step(self.svc_thread, ("finish",)))

    def act_SvcStep(self, a, b):
        if self.svc_state() != "loop":
            raise HarnessStuck("service_timeouts is not in its loop (%s)" % self.svc_state())
        self._svc_after(self._step(self.svc_thread, ("finish",)))

    def layout(self):
        """Order of the entries in the real heap list and in _new_timers (decides ties; not part of the spec state)."""
        if not self.with_timers:
            return ()
        try:
            return (tuple(getattr(e[-1], "tid", None) for e in self.tm._queue),
                    tuple(getattr(e[-1], "tid", None) for e in self.tm._new_timers))
        except Exception:
            return ()

    def head(self):
        """The timer service_timeouts is about to call finish() on (it is parked inside that call)."""
        return self.parked if self.svc_state() == "loop" else None

    # ------------------------------------------------------------------ part 2: scheduler
    def _loop_body(self):
        self.s.run()

    def loop_done(self):
        return self.sched.threads["L"].done

    def task_fn(self, k):
        self.ran[k] += 1
        c = self.c
        if k in c["AgainTasks"] and self.ran[k] < c["MaxRuns"] and self.cnt < c["MaxIns"]:
            self.s.schedule(float(c["AgainDelay"]), self.task_fn, k)       # what _ReconnectionHandler.run does
        if k in c["RaiseTasks"]:
            raise CallbackRaises("task %d raises" % k)

    def on_submit(self, fn, args, kwargs):
        item = self.l_holding
        k = args[0] if (args and getattr(fn, "__func__", None) is Harness.task_fn) else 0
        if item is not None:
            at, i = ticks_of(item[0]), item[1]
        else:
            at, i = NONE, NONE
        self.log.append({"k": k, "at": at, "i": i, "e": self.clock.ticks < at, "c": self.l_cnt_at_get})

    def act_Schedule(self, a, b):
        self.s.schedule(float(b), self.task_fn, a)

    def act_ScheduleUnique(self, a, b):
        self.s.schedule_unique(float(b), self.task_fn, a)

    def _l(self):
        lab = self._step("L", L_LABELS)
        if lab != "get" or self.loop_done():
            pass
        return lab

    def lpc(self):
        th = self.sched.threads["L"]
        if th.done:
            return "ended" if not getattr(th, "crashed", None) else "crashed:" + th.crashed
        if th.at == "rd:shut":
            return "chk" if self.l_holding is not None else "top"
        return {"get": "get", "clock": "time", "sleep": "sleep"}.get(th.at, "at:" + str(th.at))

    def _l_step(self, want):
        if self.lpc() != want:
            raise HarnessStuck("scheduler thread is at %s, not %s" % (self.lpc(), want))
        self._step("L", L_LABELS)
        if self.lpc() in ("get", "sleep", "top") or self.loop_done():
            self.l_holding = None

    def act_LTop(self, a, b):
        self._l_step("top")

    def act_LGet(self, a, b):
        if not self.s._queue.queue:
            raise HarnessStuck("get on an empty queue would block")
        self._l_step("get")

    def act_LChk(self, a, b):
        self._l_step("chk")

    def act_LDispatch(self, a, b):
        self._l_step("time")

    def act_LWake(self, a, b):
        self._l_step("sleep")

    def act_RunTask(self, a, b):
        self.executor.run_next()

    def xpc(self):
        th = self.sched.threads.get("X")
        if th is None:
            return "none"
        if th.done:
            return "done" if not getattr(th, "crashed", None) else "crashed:" + th.crashed
        return {"put": "flag", "join": "put"}.get(th.at, "at:" + str(th.at))

    def act_XFlag(self, a, b):
        if "X" in self.sched.threads:
            raise HarnessStuck("shutdown() already called")
        self.sched.spawn("X", self.s.shutdown)
        self._step("X", ("put", "join"))

    def act_XPut(self, a, b):
        if self.xpc() != "flag":
            raise HarnessStuck("shutdown() is at %s" % self.xpc())
        self._step("X", ("join",))

    def act_XJoin(self, a, b):
        if self.xpc() != "put":
            raise HarnessStuck("shutdown() is at %s" % self.xpc())
        self._step("X", ("join",))

    # ------------------------------------------------------------------ driving / projection
    def do(self, act):
        getattr(self, "act_" + act["name"])(act["a"], act["b"])

    def _entry(self, item, c=None):
        try:
            at, i, task = item
            if task is None:
                e = {"at": -1, "i": 0, "k": 0}
            else:
                fn, args, kw = task
                k = args[0] if getattr(fn, "__func__", None) is Harness.task_fn else 0
                e = {"at": ticks_of(at), "i": i, "k": k}
        except Exception:
            e = {"at": -3, "i": -3, "k": repr(item)[:40]}
        if c is not None:
            e["c"] = c
        return e

    def project(self):
        p = {"now": self.clock.ticks}
        if self.with_timers:
            tm = self.tm
            try:
                newt = [e[-1] for e in tm._new_timers]
                heap = [e[-1] for e in tm._queue]
            except Exception:
                newt, heap = [], []
            tst, tend, canc = {}, {}, {}
            for t in range(1, self.c["NT"] + 1):
                timer = self.timers.get(t)
                if timer is None:
                    tst[t], tend[t], canc[t] = "unborn", NONE, False
                    continue
                n_new = sum(1 for x in newt if x is timer)
                n_heap = sum(1 for x in heap if x is timer)
                if n_new + n_heap > 1:
                    tst[t] = "dup:%d+%d" % (n_new, n_heap)
                else:
                    tst[t] = "new" if n_new else ("heap" if n_heap else "gone")
                tend[t] = ticks_of(timer.end)
                canc[t] = bool(timer.canceled)
            try:
                nxt = ticks_of(tm.next_timeout)
            except Exception as ex:
                nxt = "exc:" + type(ex).__name__
            p.update({"tst": tst, "tend": tend, "canc": canc, "fired": dict(self.fired), "early": dict(self.early),
                      "svc": self.svc_state(), "snow": self.snow, "ret": self.ret, "flog": tuple(self.flog), "next": nxt})
        if self.with_sched:
            s = self.s
            try:
                q = frozenset(tuple(sorted(self._entry(it).items())) for it in s._queue.queue)
            except Exception:
                q = frozenset()
            stasks = set()
            for task in s._scheduled_tasks:
                try:
                    stasks.add(task[1][0])
                except Exception:
                    stasks.add(repr(task)[:40])
            cur = self._entry(self.l_holding, self.l_cnt_at_get) if self.l_holding is not None else \
                {"at": -2, "i": -2, "k": 0, "c": -2}
            p.update({"q": q, "cnt": self.cnt, "stasks": frozenset(stasks), "lpc": self.lpc(), "cur": cur,
                      "shut": bool(s.__dict__.get("_h_shut", False)), "xpc": self.xpc(),
                      "execq": tuple(a[0] if a else 0 for (_, a, _, _) in self.executor.queue),
                      "ran": dict(self.ran), "log": tuple(tuple(sorted(e.items())) for e in self.log)})
        return p


# ---------------------------------------------------------------------- spec side
def _fn(v):
    if isinstance(v, tuple):
        return {i + 1: x for i, x in enumerate(v)}
    return dict(v)


def spec_view(state, consts):
    """Spec state -> the same shape as Harness.project()."""
    p = {"now": state["now"]}
    if consts.get("WithTimers", True):
        tst, tend = _fn(state["tst"]), _fn(state["tend"])
        heap_ends = [tend[t] for t in tst if tst[t] == "heap"]
        p.update({"tst": tst, "tend": tend, "canc": _fn(state["canc"]), "fired": _fn(state["fired"]),
                  "early": _fn(state["early"]), "svc": state["svc"], "snow": state["snow"], "ret": state["ret"],
                  "flog": tuple(state["flog"]), "next": min(heap_ends) if heap_ends else NONE})     # NextTimeout
    if consts.get("WithSched", True):
        p.update({"q": frozenset(tuple(sorted(dict(e).items())) for e in state["q"]), "cnt": state["cnt"],
                  "stasks": frozenset(state["stasks"]), "lpc": state["lpc"], "cur": dict(state["cur"]),
                  "shut": state["shut"], "xpc": state["xpc"], "execq": tuple(state["execq"]), "ran": _fn(state["ran"]),
                  "log": tuple(tuple(sorted(dict(e).items())) for e in state["log"])})
    return p


def diff(spec, real):
    return {k: {"spec": spec[k], "code": real.get(k)} for k in spec if spec[k] != real.get(k)}


def state_key(state):
    """A spec state without `act` (the abstract state a replay position is identified with)."""
    return tuple((k, state[k]) for k in sorted(state) if k != "act")


def env_key(act):
    """What the environment chooses in a step; for SvcStep the code chooses the head among equal end times."""
    if act["name"] == "SvcStep":
        return ("SvcStep",)
    return (act["name"], act["a"], act["b"])


# ---------------------------------------------------------------------- recording (code -> spec)
def _post(p, c):
    out = {"now": p["now"]}
    if "tst" in p:
        ts = range(1, c["NT"] + 1)
        out.update({"tst": [p["tst"][t] for t in ts], "tend": [p["tend"][t] for t in ts], "canc": [p["canc"][t] for t in ts],
                    "fired": [p["fired"][t] for t in ts], "early": [p["early"][t] for t in ts], "svc": p["svc"],
                    "snow": p["snow"], "ret": p["ret"], "flog": list(p["flog"]), "next": p["next"]})
    if "q" in p:
        ks = range(1, c["NK"] + 1)
        out.update({"q": sorted((dict(e) for e in p["q"]), key=lambda e: (e["at"], e["i"])), "cnt": p["cnt"],
                    "stasks": sorted(p["stasks"], key=repr), "lpc": p["lpc"], "cur": p["cur"], "shut": p["shut"], "xpc": p["xpc"],
                    "execq": list(p["execq"]), "ran": [p["ran"][k] for k in ks], "log": [dict(e) for e in p["log"]]})
    return out


def enabled_ops(h, rng):
    """Operations the environment may perform now on the real objects (weights by repetition)."""
    c = h.c
    ops = []
    if h.clock.ticks < c["MaxTime"]:
        ops += [("Tick", 0, 0)] * 2
    if h.with_timers:
        svc = h.svc_state()
        unborn = [t for t in range(1, c["NT"] + 1) if t not in h.timers]
        for t in unborn:
            ops.append(("AddTimer", t, rng.choice(sorted(c["Delays"]))))
        for t, timer in h.timers.items():
            if not timer.canceled and rng.random() < 0.4:
                ops.append(("Cancel", t, 0))
        if svc == "idle":
            ops += [("SvcMerge", 0, 0)] * 2
        elif svc == "merged":
            ops += [("SvcReadClock", 0, 0)] * 3
        elif svc == "loop":
            ops += [("SvcStep", h.parked, 0)] * 4
    if h.with_sched:
        if h.cnt < c["MaxIns"]:
            for k in range(1, c["NK"] + 1):
                if rng.random() < 0.5:
                    ops.append((rng.choice(["Schedule", "ScheduleUnique", "ScheduleUnique"]), k, rng.choice(sorted(c["SDelays"]))))
        lpc = h.lpc()
        lop = {"top": "LTop", "chk": "LChk", "time": "LDispatch", "sleep": "LWake"}.get(lpc)
        if lop:
            ops += [(lop, 0, 0)] * 3
        elif lpc == "get" and h.s._queue.queue:
            ops += [("LGet", 0, 0)] * 3
        if h.executor.queue:
            ops += [("RunTask", 0, 0)] * 2
        x = h.xpc()
        if x == "none" and rng.random() < 0.12:
            ops.append(("XFlag", 0, 0))
        elif x == "flag":
            ops.append(("XPut", 0, 0))
        elif x == "put" and h.loop_done():
            ops.append(("XJoin", 0, 0))
    return ops


def record(consts, rng, max_events=50):
    """Drive the real objects with random enabled operations; return the list of events."""
    h = Harness(consts)
    events = []
    try:
        while len(events) < max_events:
            ops = enabled_ops(h, rng)
            if not ops:
                break
            name, a, b = rng.choice(ops)
            ev = {"e": name, "a": a, "b": b}
            try:
                h.do({"name": name, "a": a, "b": b})
                ev["post"] = _post(h.project(), consts)
            except Exception as ex:          # the real objects left the envelope the harness can drive
                events.append({"e": "Anomaly", "during": dict(ev), "what": "%s: %s" % (type(ex).__name__, ex)})
                break
            events.append(ev)
        return events
    finally:
        h.close()


# ---------------------------------------------------------------------- direct probes
def pops_on_raise():
    """Does service_timeouts finish a timer whose callback raised (PopOnRaise), or call it again?"""
    c = {"WithTimers": True, "WithSched": False, "NT": 1, "NK": 1, "Raise": {1}, "MaxFire": 3, "SpawnCodes": set(),
         "KillCodes": set(), "SpawnDelay": 0, "MaxTime": 1}
    h = Harness(c)
    try:
        h.act_AddTimer(1, 0)
        h.act_Tick(0, 0)                    # well past its end: the answer must not depend on boundary behaviour
        h.act_SvcMerge(0, 0)
        h.act_SvcReadClock(0, 0)
        n = 0
        while h.svc_state() == "loop" and n < 10:
            h.act_SvcStep(0, 0)
            n += 1
        return h.fired[1] <= 1, h.fired[1]   # anything else that is wrong shows up as a replay divergence
    finally:
        h.close()
