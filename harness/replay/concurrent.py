"""Binding between spec/Concurrent.tla and the real cassandra.concurrent (spec -> code replay).

A fake session hands out controllable futures (add_callbacks invokes immediately when the future is already
done, exactly as ResponseFuture does); execute_async can raise.  The code under test runs on DetSched logical
threads: one *caller* thread (execute_concurrent / iterating the generator / execute_concurrent_async) and one
completing thread per later completion (the event loop calling the future's callbacks).  The executor's
Condition is replaced by a DCondition over a re-entrant DRLock (cassandra.concurrent.Condition is looked up at
call time), so every acquire / release / wait is a scheduling point and a caller blocked in _results() is
simply a parked logical thread - this is the sound option: completions really happen while the caller waits.
cassandra.concurrent.Future is replaced by a subclass that records every completion attempt (and who made it).

A completing thread is stopped right after it releases the lock; what is left of its callback runs at the spec's
FutCheck / LoopReturn step, so the caller and the generator's consumer are interleaved with it at lock granularity.

One *lock section* of the spec (BeginSubmit/Complete .. Ret with holder back to "none") is one real step:
the events seen by the fake session during it (execute_async calls, callback invocations) must be exactly the
section's Start / Put actions in order, and the projection of the real state must equal the spec state at the
end of the section.
"""
import concurrent.futures
import sys

from harness.pyenv import repo_import
from harness.sim.detsched import DetSched, DRLock, DCondition, Blocked

SYNC = ("raise", "done_ok", "done_err")
OK = ("done_ok", "later_ok")


class StmtError(Exception):
    def __init__(self, i):
        Exception.__init__(self, "statement %d failed" % i)
        self.i = i


class FakeFuture:
    """The part of ResponseFuture that cassandra.concurrent uses."""
    _col_names = None
    _col_types = None
    has_more_pages = False

    def __init__(self, h, i, beh):
        self.h, self.i = h, i
        self.final = None                    # None | ("ok", rows) | ("err", exc)
        self.cbs, self.ebs = [], []
        if beh == "done_ok":
            self.final = ("ok", [i])
        elif beh == "done_err":
            self.final = ("err", StmtError(i))

    def add_callback(self, fn, *a, **kw):
        if self.final is not None and self.final[0] == "ok":
            self.h.log("done", self.i)
            fn(self.final[1], *a, **kw)
        elif self.final is None:
            self.cbs.append((fn, a, kw))
        return self

    def add_errback(self, fn, *a, **kw):
        if self.final is not None and self.final[0] == "err":
            self.h.log("done", self.i)
            fn(self.final[1], *a, **kw)
        elif self.final is None:
            self.ebs.append((fn, a, kw))
        return self

    def add_callbacks(self, callback, errback, callback_args=(), callback_kwargs=None, errback_args=(), errback_kwargs=None):
        self.add_callback(callback, *callback_args, **(callback_kwargs or {}))
        self.add_errback(errback, *errback_args, **(errback_kwargs or {}))

    def clear_callbacks(self):
        self.cbs, self.ebs = [], []

    def complete(self, ok):
        """What the event loop does when the response arrives."""
        self.final = ("ok", [self.i]) if ok else ("err", StmtError(self.i))
        self.h.running.discard(self.i)
        self.h.log("done", self.i)
        todo = self.cbs if ok else self.ebs
        for fn, a, kw in list(todo):
            fn(self.final[1], *a, **kw)


class FakeSession:
    def __init__(self, h):
        self.h = h

    def execute_async(self, statement, params=None, timeout=None, execution_profile=None, **kw):
        h = self.h
        i = statement
        h.started.append(i)
        h.peak = max(h.peak, len(h.running) + 1)
        h.log("start", i)
        b = h.beh[i]
        if b == "raise":
            h.log("done", i)
            raise StmtError(i)
        f = FakeFuture(h, i, b)
        h.futures[i] = f
        if b not in SYNC:
            h.running.add(i)
        return f

    def submit(self, fn, *a, **kw):
        """Session.submit: hands the task to the executor.  It runs LATER, on an executor thread (a logical thread
        started at the spec's RunDeferred step), never inline - as with an already running pool thread."""
        self.h.tasks.append((fn, a, kw))
        self.h.log("submit", len(self.h.tasks))


def _entry(r):
    """ExecutionResult -> [statement, ok] (foreign objects by class name)."""
    try:
        ok, val = r
    except Exception:                                      # noqa
        return ["?" + type(r).__name__, False]
    if ok:
        rows = getattr(val, "current_rows", None)
        return [rows[0] if isinstance(rows, list) and len(rows) == 1 else "?" + type(val).__name__, True]
    return [val.i if isinstance(val, StmtError) else "?" + type(val).__name__, False]


class ConcHarness:
    def __init__(self, n, c, fail_fast, variant, beh, rec=100):
        repo_import("cassandra.cluster")
        self.conc = conc = repo_import("cassandra.concurrent")
        self.n, self.c, self.ff, self.variant = n, c, fail_fast, variant
        self.beh = {i + 1: b for i, b in enumerate(beh)}
        self.events = []
        self.started, self.running, self.futures, self.peak = [], set(), {}, 0
        self.outcome = None                # ("returned", value) | ("raised", exc) | ("finished", None)
        self.items = []                    # generator: results consumed so far
        self.fut_attempts = []             # (kind, payload, made by function)
        self.errors = []                   # (thread, exception) raised out of the code under test into a thread
        self.completers = {}
        self.tasks = []                    # tasks given to session.submit, in order
        self.tasks_run = 0
        # the recursion limit of the error path is shrunk on the real class (as id spaces are elsewhere)
        self.saved_rec = conc._ConcurrentExecutor.max_error_recursion
        conc._ConcurrentExecutor.max_error_recursion = rec
        self.nthreads = 0
        self.sched = DetSched()
        h = self

        class CountingFuture(concurrent.futures.Future):
            def set_result(self, r):
                h.fut_attempts.append(("result", r, sys._getframe(1).f_code.co_name))
                concurrent.futures.Future.set_result(self, r)

            def set_exception(self, e):
                h.fut_attempts.append(("exc", e, sys._getframe(1).f_code.co_name))
                concurrent.futures.Future.set_exception(self, e)

        self.saved = (conc.Future, conc.Condition)
        conc.Future = CountingFuture
        self.cond = None

        def make_condition():
            self.cond = DCondition(DRLock("cond", yield_on_release=True), name="cond")
            return self.cond
        conc.Condition = make_condition
        self.session = FakeSession(self)
        self.sched.spawn("caller", self._caller)

    def close(self):
        self.conc.Future, self.conc.Condition = self.saved
        self.conc._ConcurrentExecutor.max_error_recursion = self.saved_rec
        DetSched.current = None

    def log(self, kind, i):
        self.events.append((kind, i))

    # ---- the caller thread
    def _caller(self):
        stmts = [(i, None) for i in range(1, self.n + 1)]
        try:
            if self.variant == "list":
                r = self.conc.execute_concurrent(self.session, stmts, concurrency=self.c, raise_on_first_error=self.ff)
                self.outcome = ("returned", r)
            elif self.variant == "gen":
                g = self.conc.execute_concurrent(self.session, stmts, concurrency=self.c, raise_on_first_error=self.ff,
                                                 results_generator=True)
                for x in g:
                    self.items.append(x)
                    self.sched.yield_point("item")
                self.outcome = ("finished", None)
            else:
                f = self.conc.execute_concurrent_async(self.session, stmts, concurrency=self.c, raise_on_first_error=self.ff)
                self.outcome = ("returned", f)
        except Exception as ex:                             # noqa - part of the observable behaviour
            self.outcome = ("raised", ex)

    def _step(self, name):
        try:
            return self.sched.step(name)
        except Blocked:
            raise
        except Exception as ex:                             # noqa - the code under test raised into the thread
            self.errors.append((name, ex))
            return "end"

    def run(self, name, stops):
        """Step thread `name` until it parks at a label whose kind is in `stops` (or ends)."""
        for _ in range(10000):
            label = self._step(name)
            if label == "end" or label.split(":")[0] in stops:
                return label
        raise RuntimeError("thread %s does not park" % name)

    # ---- one real step per spec section / caller action
    def do(self, name, i):
        if name in ("BeginSubmit",):
            return self.run("caller", ("rel",))
        if name == "EmptyCall":
            return self.run("caller", ("never",))
        if name in ("Collect", "Wake"):
            return self.run("caller", ("wait",))
        if name in ("Consume", "GWake"):
            return self.run("caller", ("item", "wait"))
        if name == "Complete":
            self.nthreads += 1
            t = "L%d" % self.nthreads
            self.completers[i] = t
            self.last_completer = t
            self.sched.spawn(t, self.futures[i].complete, self.beh[i] in OK)
            # the completing thread is parked right after it has released the lock (yield on release); the rest of its
            # callback is a separate spec step (FutCheck for the future variant, LoopReturn otherwise) so that the
            # caller / consumer can be scheduled in between, at lock granularity
            return self.run(t, ("rel",))
        if name == "RunDeferred":
            # i = position of the task in submission order (the replayer maps the statement to it)
            self.nthreads += 1
            t = "X%d" % self.nthreads
            self.last_completer = t
            fn, a, kw = self.tasks[i]
            self.tasks_run += 1
            self.sched.spawn(t, fn, *a, **kw)
            return self.run(t, ("rel",))
        if name in ("FutCheck", "LoopReturn"):
            return self.run(self.last_completer, ("never",))
        raise RuntimeError("unknown action %s" % name)

    # ---- projection
    def phase(self):
        t = self.sched.threads["caller"]
        if self.outcome is not None and t.done:
            return {"returned": "returned", "raised": "raised", "finished": "finished"}[self.outcome[0]]
        if t.at.startswith("wait:"):
            return "gwaiting" if self.variant == "gen" else "waiting"
        if t.at == "item":
            return "gen"
        if t.at.startswith("rel:"):
            return "gen" if self.variant == "gen" else "collect"
        if t.at == "start":
            return "init"
        return "?" + t.at

    def project(self):
        p = {"next": len(self.started) + 1, "running": sorted(self.running), "peak": self.peak, "phase": self.phase(),
             "deferred": len(self.tasks) - self.tasks_run, "futN": len(self.fut_attempts), "errors": [(n, type(e).__name__) for n, e in self.errors]}
        if self.variant == "future":
            p["futVal"], p["futExc"], p["futOut"] = "none", 0, []
            if self.fut_attempts:
                kind, payload, _ = self.fut_attempts[0]
                if kind == "exc":
                    p["futVal"] = "exc"
                    p["futExc"] = payload.i if isinstance(payload, StmtError) else "?" + type(payload).__name__
                else:
                    p["futVal"] = "result"
                    p["futOut"] = [_entry(r) for r in payload] if isinstance(payload, list) else "?" + type(payload).__name__
            if self.outcome is not None and self.outcome[0] == "raised":
                p["errors"].append(("caller", type(self.outcome[1]).__name__))
        else:
            p["raised"] = 0
            if self.outcome is not None and self.outcome[0] == "raised":
                e = self.outcome[1]
                p["raised"] = e.i if isinstance(e, StmtError) else "?" + type(e).__name__
            if self.variant == "gen":
                p["out"] = [_entry(r) for r in self.items]
            elif self.outcome is not None and self.outcome[0] == "returned":
                r = self.outcome[1]
                p["out"] = [_entry(x) for x in r] if isinstance(r, list) else "?" + type(r).__name__
            else:
                p["out"] = []
        return p


def spec_view(st):
    variant = st["variant"]
    p = {"next": st["next"], "running": sorted(st["running"]), "peak": st["peak"], "phase": st["phase"],
         "deferred": len(st["deferred"]), "futN": st["futN"], "errors": []}
    if variant == "future":
        p["futVal"], p["futExc"] = st["futVal"], st["futExc"]
        p["futOut"] = [[e["i"], e["ok"]] for e in st["futOut"]]
    else:
        p["raised"] = st["raised"]
        p["out"] = [[e["i"], e["ok"]] for e in st["out"]]
    return p


def config_of(st):
    return {"n": st["n"], "c": st["c"], "failFast": st["failFast"], "variant": str(st["variant"]),
            "beh": [str(b) for b in st["beh"]], "rec": st.get("rec", 100)}


def classify(h, diff):
    """Stable signature of a divergence."""
    v = h.variant
    if v == "future":
        who = sorted(a[2] for a in h.fut_attempts[:2])
        if len(h.fut_attempts) >= 2:
            return "future:completed-twice:%s" % "+".join(who)
        if not h.fut_attempts and "futN" in diff:
            return "future:never-completed"
    errs = sorted(set("%s:%s" % ("caller" if n == "caller" else "loop", type(e).__name__) for n, e in h.errors))
    if errs:
        return "%s:raise:%s" % (v, ",".join(errs))
    # the differing observable that matters most for the property
    for key in ("peak", "out", "raised", "futVal", "futExc", "futOut", "futN", "phase", "events", "next", "running", "errors"):
        if key in diff:
            return "%s:diff:%s" % (v, key)
    return "%s:diff:%s" % (v, ",".join(sorted(diff)))


def replay(states, corrupt=None):
    """Replay one behaviour of Concurrent.tla (list of states, first = initial) on the real code.
    Returns (divergence or None, number of sections compared)."""
    cfg = config_of(states[0])
    h = ConcHarness(cfg["n"], cfg["c"], cfg["failFast"], cfg["variant"], cfg["beh"], cfg["rec"])
    deferred_order = []                          # statements whose result went through session.submit, in that order
    compared = 0
    try:
        i = 1
        while i < len(states):
            a = states[i]["act"]
            if states[i] == states[i - 1]:              # the stuttering step of a Terminal state (Finish)
                i += 1
                continue
            j = i
            while j < len(states) and states[j]["holder"] != "none":
                j += 1
            if j >= len(states):
                break                                   # the walk ends inside a section: nothing to compare
            expect = []
            for k in range(i, j + 1):
                b = states[k]["act"]
                if b["name"] == "Start":
                    expect.append(("start", b["i"]))
                elif b["name"] == "StartDeferred":
                    deferred_order.append(b["i"])
                    expect += [("start", b["i"]), ("done", b["i"]), ("submit", len(deferred_order))]
                elif b["name"] == "Put" and b["i"] not in deferred_order:
                    expect.append(("done", b["i"]))
            before = len(h.events)
            try:
                h.do(a["name"], deferred_order.index(a["i"]) if a["name"] == "RunDeferred" else a["i"])
            except (Blocked, IndexError) as ex:           # (IndexError: the task the spec runs was never submitted)
                return ({"step": j, "action": dict(a), "config": cfg, "kind": "blocked", "diff": {"blocked": str(ex)},
                         "signature": "%s:blocked:%s" % (h.variant, a["name"])}, compared)
            got_ev = h.events[before:]
            # a later completion logs its own "done" before entering _put_result; same order as the spec's Put
            want, got = spec_view(states[j]), h.project()
            if corrupt and corrupt[0] == j:
                want[corrupt[1]] = corrupt[2]
            compared += 1
            diff = {k: {"spec": want[k], "code": got.get(k)} for k in want if want[k] != got.get(k)}
            if got_ev != expect:
                diff["events"] = {"spec": expect, "code": got_ev}
            if diff:
                return ({"step": j, "action": dict(a), "config": cfg, "kind": "state", "diff": diff,
                         "attempts": [(k, type(p).__name__, w) for k, p, w in h.fut_attempts],
                         "signature": classify(h, diff)}, compared)
            i = j + 1
        return None, compared
    finally:
        h.close()
