"""Binding between spec/Hosts.tla and the real Cluster / Session / Host / reconnection handlers.

A real Cluster with 1-2 Sessions runs over FakeNodes (10.0.0.1 = contact point carrying the control
connection, 10.0.0.<h> = subject host h).  The thread pool and the scheduler thread are the simulation's
SimExecutor (inline=False) and SimScheduler, so each spec action is one harness operation:

  Exec(t)            run the queued executor task whose descriptor is t (a reconnector's run() as a logical thread that
                     stops where its connection attempt starts; Exec(ReconConn) lets the attempt finish)
  Fire(e)            let the scheduler hand entry e to the executor
  ConnFailure(s,h)   break the pool connection, then what the heartbeat does: pool.return_connection(conn)
  StatusEvent/TopologyEvent   push the event frame on the control connection (peers list of node 1 adjusted)
  SetMode(h,m)       the node refuses / accepts / demands credentials for new connections
  CtlFail            break the control connection, then control_connection.return_connection(conn)
  ShutdownA/S/E      Cluster.shutdown() run as a DetSched logical thread, stopped before the sessions loop
                     and before executor.shutdown()
  Request(s)         session.execute_async after shutdown() returned

ControlConnection._reconnect runs as a logical thread too and is parked where it calls _set_new_connection,
which makes the two halves (Exec(CtlReconnect), Exec(CtlSet)) separate steps.
After every step project() reads the state of the real objects in the shape of the spec's variables.
"""
import functools
import inspect
import sys
import weakref
from collections import Counter

from harness.sim import simcluster
from harness.sim.simcluster import SimWorld, FakeNode, make_cluster
from harness.sim.detsched import DetSched
from harness import wire

import cassandra.cluster as ccluster
import cassandra.pool as cpool
from cassandra.cluster import ExecutionProfile, EXEC_PROFILE_DEFAULT
from cassandra.policies import (RoundRobinPolicy, ConstantReconnectionPolicy, HostStateListener, HostDistance,
                                LoadBalancingPolicy)

CTL = 1
TASK_FIELDS = ("k", "s", "h", "kind", "f1", "f2", "n")


def T(k, s=0, h=0, kind="", f1=False, f2=False, n=0):
    return (k, s, h, kind, bool(f1), bool(f2), n)


def task_tuple(rec):
    """spec task record (dict) -> tuple"""
    return tuple(rec[f] for f in TASK_FIELDS)


def task_dict(t):
    return dict(zip(TASK_FIELDS, t))


def addr_of(h):
    return "10.0.0.%d" % h


def num_of(addr):
    return int(str(addr).split(".")[3].split(":")[0])


def _drop_handshake(node, conn, req, frame):
    """The node accepts the TCP connection and closes it on the first frame (mode "drop")."""
    conn.server_closed()
    return True


class HarnessError(AssertionError):
    """The harness cannot perform the requested step on the real objects (turned into a divergence)."""


class RecordingListener(HostStateListener):
    def __init__(self):
        self.log = []

    def on_up(self, host):
        self.log.append(("up", num_of(host.address)))

    def on_down(self, host):
        self.log.append(("down", num_of(host.address)))

    def on_add(self, host):
        self.log.append(("add", num_of(host.address)))

    def on_remove(self, host):
        self.log.append(("remove", num_of(host.address)))


class RecordingLBP(LoadBalancingPolicy):
    """Round-robin child; records every notification; IGNORED for the configured hosts; deterministic plans
    (live hosts by address) so that the control connection always prefers the contact point."""

    def __init__(self, ignored, remote=(), scan=False):
        self.child = RoundRobinPolicy()
        self.ignored = set(addr_of(h) for h in ignored)
        self.remote = set(addr_of(h) for h in remote)     # distance depends on liveness, as DCAwareRoundRobinPolicy's remote hosts
        self.scan = scan
        self.log = []

    def distance(self, host):
        if host.address in self.ignored:
            return HostDistance.IGNORED
        if host.address in self.remote:
            return HostDistance.REMOTE if host in self.child._live_hosts else HostDistance.IGNORED
        return HostDistance.LOCAL

    def populate(self, cluster, hosts):
        self.child.populate(cluster, hosts)

    def make_query_plan(self, working_keyspace=None, query=None):
        plan = sorted(self.child._live_hosts, key=lambda h: num_of(h.address))
        if self.scan:                                     # subject hosts first, the contact point last
            plan = [h for h in plan if num_of(h.address) != CTL] + [h for h in plan if num_of(h.address) == CTL]
        return plan

    def check_supported(self):
        pass

    def live(self):
        return frozenset(num_of(h.address) for h in self.child._live_hosts)

    def on_up(self, host):
        self.log.append(("up", num_of(host.address)))
        self.child.on_up(host)

    def on_down(self, host):
        self.log.append(("down", num_of(host.address)))
        self.child.on_down(host)

    def on_add(self, host):
        self.log.append(("add", num_of(host.address)))
        self.child.on_add(host)

    def on_remove(self, host):
        self.log.append(("remove", num_of(host.address)))
        self.child.on_remove(host)


class _OrderedSet(set):
    """A set iterated in insertion order."""

    def __init__(self, it=()):
        set.__init__(self)
        self._order = []
        for x in it:
            self.add(x)

    def add(self, x):
        if x not in self:
            set.add(self, x)
            self._order.append(x)

    def discard(self, x):
        if x in self:
            set.discard(self, x)
            self._order.remove(x)

    def __iter__(self):
        return iter(list(self._order))


class _YieldingWeakSet(weakref.WeakSet):
    """cluster.sessions with a DetSched yield point where a logical thread starts iterating it, and iterated in the
    order the sessions were created (a WeakSet's order depends on object addresses)."""
    order = None          # session -> number, set by the harness

    def __iter__(self):
        if DetSched.current is not None:
            DetSched.current.yield_point("iter:sessions")
        items = list(weakref.WeakSet.__iter__(self))
        if self.order is not None:
            items.sort(key=self.order)
        return iter(items)


class _DetSession(ccluster.Session):
    """Session.__init__ ends with `any(f.result() for f in self._initial_connect_futures)` over a set: with a
    queueing executor the scan blocks when it meets a future that has not run yet.  Iterating in submission order
    (the contact point's pool first, which the constructor has just waited for) keeps the constructor from
    depending on the hash order of Future objects; nothing else changes."""

    @property
    def _initial_connect_futures(self):
        return self.__dict__["_icf"]

    @_initial_connect_futures.setter
    def _initial_connect_futures(self, value):
        self.__dict__["_icf"] = _OrderedSet(value)


class HostsHarness:
    VARS = ("known", "removed", "up", "handling", "recon", "pools", "grp", "exec", "sched", "lbpLive", "flags",
            "ctl", "ctlPend", "req", "emL", "emP", "emC", "nopen")

    def __init__(self, consts):
        self.hosts = sorted(consts["Hosts"])
        self.known0 = set(consts["Known0"])
        self.sess_ids = sorted(consts["Sessions"])
        self.ignored = set(consts["Ignored"])
        self.objs = self.hosts + ([h + 10 for h in self.hosts] if "readd" in set(consts.get("Env", ())) else [])
        self.fine = bool(consts.get("FineUp")) and len(self.sess_ids) == 2
        self.world = w = SimWorld()
        self.nodes = {CTL: w.add_node(FakeNode(addr_of(CTL), tokens=["10"]))}
        for h in self.hosts:
            self.nodes[h] = w.add_node(FakeNode(addr_of(h), tokens=["%d0" % h]))
        self.peers = set(self.known0)
        self._set_peers()
        env = set(consts.get("Env", ()))
        self.remote = set(h for h in self.hosts if h >= 3) if "remote" in env else set()
        self.scan = "ctlscan" in env
        self.lbp = RecordingLBP(self.ignored, self.remote, self.scan)
        self.listener = RecordingListener()
        profile = ExecutionProfile(load_balancing_policy=self.lbp, request_timeout=10.0)
        # The graph profiles the Cluster would add by itself wrap the *default* policy object, which then hears every
        # notification once per profile; give them policies of their own so that self.lbp is one profile's policy.
        profiles = {EXEC_PROFILE_DEFAULT: profile}
        for key, cls in ((ccluster.EXEC_PROFILE_GRAPH_DEFAULT, ccluster.GraphExecutionProfile),
                         (ccluster.EXEC_PROFILE_GRAPH_SYSTEM_DEFAULT, ccluster.GraphExecutionProfile),
                         (ccluster.EXEC_PROFILE_GRAPH_ANALYTICS_DEFAULT, ccluster.GraphAnalyticsExecutionProfile)):
            profiles[key] = cls(load_balancing_policy=RecordingLBP(self.ignored, self.remote, self.scan))
        self.cluster = make_cluster(w, [addr_of(CTL)], inline=False,
                                    execution_profiles=profiles,
                                    reconnection_policy=ConstantReconnectionPolicy(1.0, max_attempts=None))
        self.cluster.register_listener(self.listener)
        ccluster.Session = _DetSession
        self.sessions = {}
        for s in self.sess_ids:
            self.sessions[s] = self.cluster.connect()
        self.cc = self.cluster.control_connection
        self.ex = self.cluster.executor
        self.sch = self.cluster.scheduler
        self.hostobj = {}
        self._see_hosts()
        # logical threads: Cluster.shutdown in phases, ControlConnection._reconnect in two halves
        self.ds = DetSched()
        set_new = self.cc._set_new_connection

        def set_new_connection_with_yield(conn):
            self.ds.yield_point("set_new_connection")
            return set_new(conn)
        self.cc._set_new_connection = set_new_connection_with_yield
        # a reconnector's connection attempt takes time: the logical thread running handler.run() stops where the
        # attempt starts (before the simulated connect, whose outcome is the node's mode when the thread goes on)
        make_factory = self.cluster._make_connection_factory

        def make_connection_factory_with_yield(host, *a, **k):
            real = make_factory(host, *a, **k)

            def factory():
                self.ds.yield_point("recon:connect")
                return real()
            return factory
        self.cluster._make_connection_factory = make_connection_factory_with_yield
        self.recon_threads = []       # parked _ReconnectionHandler.run calls: (thread, handler)
        # a control connection attempt takes time too: the logical thread running ControlConnection._reconnect stops
        # where _try_connect calls connection_factory(endpoint, is_control_connection=True)
        conn_factory = self.cluster.connection_factory

        def connection_factory_with_yield(endpoint, *a, **k):
            if k.get("is_control_connection") and self.ds.active is not None:
                self._ctl_dialling = num_of(endpoint.address)
                self.ds.yield_point("ctl:connect")
            return conn_factory(endpoint, *a, **k)
        self.cluster.connection_factory = connection_factory_with_yield
        self.dial_threads = []        # parked control connection attempts: (thread, host number)
        if self.scan:
            # only the contact point serves a control connection: a subject node answers system.local with an error
            def no_local(node, conn, frame, req):
                if "system.local" in req["query"]:
                    node.send(conn, frame.version, frame.stream, wire.ERROR, wire.body_error(wire.ERR_INVALID, "no system.local here"))
                    return True
                return False
            for hh in self.hosts:
                self.nodes[hh].system_hook = no_local
        # yield points of Cluster.shutdown: where it starts iterating the sessions, where it shuts the executor
        self.cluster.sessions = _YieldingWeakSet(self.cluster.sessions)
        self.cluster.sessions.order = self._sess_num
        self.up_threads = []          # parked Cluster.on_up calls: (thread, on_up frame, called by a reconnector)
        if self.fine:
            for sess in self.sessions.values():
                self._wrap_add_or_renew(sess)
        ex_shutdown = self.ex.shutdown

        def shutdown_with_yield(*a, **k):
            self.ds.yield_point("executor.shutdown")
            return ex_shutdown(*a, **k)
        self.ex.shutdown = shutdown_with_yield
        self.shut_thread = None
        self.cc_threads = []          # parked ControlConnection._reconnect threads
        self._nthreads = 0
        self.groups = {}              # id(futures set) -> dict(h, kind, n, futures, results)
        self.req = {s: "none" for s in self.sess_ids}
        self.req_futures = {}
        self._lmark = len(self.listener.log)
        self._pmark = len(self.lbp.log)
        self._cmark = len(self.world.conns)
        self.returned_conns = None    # number of connections ever opened when shutdown() returned

    # ------------------------------------------------------------------ helpers
    def _wrap_add_or_renew(self, sess):
        """FineUp: a logical thread running Cluster.on_up stops where its loop calls add_or_renew_pool for the second
        session (the first future is submitted, has its callback and is in `futures`)."""
        orig = sess.add_or_renew_pool

        def add_or_renew_pool(host, is_host_addition):
            if self.ds.active is not None:
                fr = sys._getframe(1)
                if fr.f_code.co_name == "on_up" and len(fr.f_locals.get("futures", ())) == 1:
                    self._parking = fr
                    self.ds.yield_point("on_up:second")
            return orig(host, is_host_addition)
        sess.add_or_renew_pool = add_or_renew_pool

    def _set_peers(self):
        self.nodes[CTL].peers = [self.nodes[h] for h in sorted(self.peers)]

    def _see_hosts(self):
        for host in self.cluster.metadata.all_hosts():
            self.oid(host)

    def oid(self, host):
        """Number of a Host object: the endpoint's number for the first object seen for it, +10 for the second
        (a node removed and added again at the same address is a new Host object)."""
        for n, obj in self.hostobj.items():
            if obj is host:
                return n
        n = num_of(host.address)
        while n in self.hostobj:
            n += 10
        self.hostobj[n] = host
        return n

    def host(self, h):
        self._see_hosts()
        return self.hostobj.get(h)

    def _sess_of_pool(self, pool):
        for s, sess in self.sessions.items():
            try:
                if pool._session._pools is sess._pools:
                    return s
            except ReferenceError:
                pass
        return 0

    def _sess_num(self, sess):
        for s, x in self.sessions.items():
            if x is sess:
                return s
        return 0

    # ------------------------------------------------------------------ classification of queued work
    def _freevars(self, fn):
        if fn.__closure__ is None:
            return {}
        out = {}
        for name, cell in zip(fn.__code__.co_freevars, fn.__closure__):
            try:
                out[name] = cell.cell_contents
            except ValueError:
                pass
        return out

    def _group_of(self, h, kind, futures, results):
        key = id(futures)
        g = self.groups.get(key)
        if g is None:
            live = set(id(fr.f_locals["futures"]) for _, fr, _ in self.up_threads)
            if getattr(self, "_parking", None) is not None:
                live.add(id(self._parking.f_locals["futures"]))
            used = set(x["n"] for k, x in self.groups.items()
                       if x["h"] == h and x["kind"] == kind and (x["futures"] or k in live))
            n = min(i for i in range(64) if i not in used)
            g = self.groups[key] = {"h": h, "kind": kind, "n": n, "futures": futures, "results": results}
        return g

    def describe(self, fn, args=(), kwargs=None, future=None):
        """Descriptor (tuple in TASK_FIELDS order) of a queued executor task / scheduler entry."""
        kwargs = dict(kwargs or {})
        name = getattr(fn, "__name__", None) or getattr(getattr(fn, "func", None), "__name__", "?")
        owner = getattr(fn, "__self__", None)
        try:
            if name == "on_down" and owner is None:
                ba = inspect.signature(fn).bind(*args, **kwargs)
                ba.apply_defaults()
                a = ba.arguments
                return T("OnDown", h=self.oid(a["host"]), f1=a["is_host_addition"], f2=a["expect_host_to_be_down"])
            if name == "run_add_or_renew_pool":
                fv = self._freevars(fn)
                h = self.oid(fv["host"])
                s = self._sess_num(fv["self"])
                kind, n = "upd", 0
                cbs = list(getattr(future, "_done_callbacks", ())) if future is not None else []
                for cb in cbs:
                    if isinstance(cb, functools.partial) and getattr(cb.func, "__name__", "") == "_on_up_future_completed":
                        g = self._group_of(h, "up", cb.args[1], cb.args[2])
                        kind, n = "up", g["n"]
                    elif getattr(cb, "__name__", "") == "future_completed":
                        cv = self._freevars(cb)
                        g = self._group_of(h, "add", cv["futures"], cv["futures_results"])
                        kind, n = "add", g["n"]
                if kind == "upd" and future is not None:
                    # a driver that attaches the callbacks after on_up's loop: the future already belongs to the group
                    frames = [fr for _, fr, _ in self.up_threads]
                    if getattr(self, "_parking", None) is not None:
                        frames.append(self._parking)
                    for fr in frames:
                        if future in fr.f_locals.get("futures", ()):
                            g = self._group_of(h, "up", fr.f_locals["futures"], fr.f_locals["futures_results"])
                            kind, n = "up", g["n"]
                if kind == "upd" and future is not None and future in fv["self"]._initial_connect_futures:
                    kind = "init"
                return T("AddPool", s=s, h=h, kind=kind, n=n)
            if name == "shutdown" and isinstance(owner, (cpool.HostConnection, cpool.HostConnectionPool)):
                cbs = list(getattr(future, "_done_callbacks", ())) if future is not None else []
                upd = any(getattr(cb, "__name__", "") == "<lambda>" for cb in cbs)
                return T("PoolShut", s=self._sess_of_pool(owner), h=num_of(owner.host.address),
                         f1=not owner.is_shutdown, f2=upd)
            if name == "run" and isinstance(owner, cpool._HostReconnectionHandler):
                host = owner.host
                att = host._reconnection_handler is owner
                return T("Recon", h=self.oid(host), kind="att" if att else "det", f1=owner._cancelled,
                         f2=owner.is_host_addition)
            if name == "on_up" and isinstance(owner, ccluster.Cluster):
                return T("OnUp", h=self.oid(args[0]))
            if name == "remove_host":
                return T("RemoveHost", h=self.oid(args[0]))
            if name == "_refresh_nodes_if_not_up":
                return T("RefreshIf", h=0 if args[0] is None else num_of(args[0].address))
            if name == "_reconnect" and isinstance(owner, ccluster.ControlConnection):
                return T("CtlReconnect")
        except Exception as ex:          # a mutated driver may queue things of another shape
            return T("?%s:%s" % (name, type(ex).__name__))
        return T("?" + str(name))

    def _ctl_advance(self, th):
        """Run a ControlConnection._reconnect thread to its next stop: the next connection attempt, _set_new_connection,
        or its end."""
        lab = self.ds.run_until(th, lambda l: l in ("ctl:connect", "set_new_connection"))
        if lab == "ctl:connect":
            self.dial_threads.append((th, self._ctl_dialling))
        elif lab == "set_new_connection":
            self.cc_threads.append(th)

    def _recon_desc(self, handler):
        host = handler.host
        return T("ReconConn", h=self.oid(host), kind="att" if host._reconnection_handler is handler else "det",
                 f1=handler._cancelled, f2=handler.is_host_addition)

    def _cont_desc(self, frame, rec):
        loc = frame.f_locals
        h = self.oid(loc["host"])
        g = self._group_of(h, "up", loc["futures"], loc["futures_results"])
        return T("OnUpCont", h=h, f1=rec, n=g["n"])

    def exec_items(self):
        out = []
        for t in self.ex.queue:
            if t.future.cancelled():
                continue
            out.append((self.describe(t.fn, t.args, t.kwargs, t.future), t))
        return out

    def sched_items(self):
        out = []
        for e in self.sch.tasks:
            fn, args, kwargs = e[2]
            out.append((self.describe(fn, args, dict(kwargs)), e))
        return out

    # ------------------------------------------------------------------ actions
    def do(self, act):
        name = act["name"]
        getattr(self, "act_" + name)(act)
        return self.project()

    def _spawn(self, prefix, fn, *args):
        self._nthreads += 1
        name = "%s%d" % (prefix, self._nthreads)
        self.ds.spawn(name, fn, *args)
        return name

    def act_Exec(self, act):
        want = task_tuple(act["t"])
        if want[0] == "CtlSet":
            if not self.cc_threads:
                raise HarnessError("no control connection reconnect is waiting to install its connection")
            self.ds.finish(self.cc_threads.pop(0))
            return
        if want[0] == "CtlDial":
            for i, (th, hh) in enumerate(self.dial_threads):
                if hh == want[2]:
                    del self.dial_threads[i]
                    self._ctl_advance(th)
                    return
            raise HarnessError("no control connection attempt to host %s in flight; in flight=%s"
                               % (want[2], [x for _, x in self.dial_threads]))
        if want[0] == "ReconConn":
            for i, (th, handler) in enumerate(self.recon_threads):
                if self._recon_desc(handler) == want:
                    del self.recon_threads[i]
                    self._parking = None
                    if self.ds.run_until(th, "on_up:second") != "end":      # FineUp: on_up called by the reconnector
                        self.up_threads.append((th, self._parking, True))
                    return
            raise HarnessError("no reconnection attempt in flight %s; in flight=%s"
                               % (want, [self._recon_desc(x) for _, x in self.recon_threads]))
        if want[0] == "OnUpCont":
            for i, (th, fr, rec) in enumerate(self.up_threads):
                if self._cont_desc(fr, rec) == want:
                    del self.up_threads[i]
                    self.ds.finish(th)
                    return
            raise HarnessError("no parked on_up %s; parked=%s" % (want, [self._cont_desc(f, r) for _, f, r in self.up_threads]))
        for d, t in self.exec_items():
            if d == want:
                break
        else:
            raise HarnessError("no queued executor task %s; queue=%s" % (want, [d for d, _ in self.exec_items()]))
        if want[0] == "Recon":
            th = self._spawn("RC", self.ex.run, t)
            if self.ds.run_until(th, "recon:connect") != "end":
                self.recon_threads.append((th, t.fn.__self__))
            return
        if self.fine and want[0] == "OnUp":
            th = self._spawn("UP", self.ex.run, t)
            self._parking = None
            lab = self.ds.run_until(th, "on_up:second")
            if lab != "end":
                self.up_threads.append((th, self._parking, False))
            return
        if want[0] == "CtlReconnect":
            th = self._spawn("CC", self.ex.run, t)
            self._ctl_advance(th)
            return
        self.ex.run(t)

    def act_Fire(self, act):
        want = task_tuple(act["t"])
        for d, e in self.sched_items():
            if d == want:
                self.sch.fire(e)
                return
        raise HarnessError("no scheduler entry %s; entries=%s" % (want, [d for d, _ in self.sched_items()]))

    def act_ConnFailure(self, act):
        s, h = act["s"], act["h"]
        pool = self._pool(s, h)
        if pool is None or pool.is_shutdown or not pool._connection:
            raise HarnessError("session %s has no open pool for host %s" % (s, h))
        conn = pool._connection
        conn.socket_error()
        pool.return_connection(conn)          # ConnectionHeartbeat.run: owner.return_connection(connection)

    def _ctl_conn(self):
        c = self.cc._connection
        if c is None or c.is_closed or c.is_defunct:
            raise HarnessError("no usable control connection to push an event on")
        return c

    def act_StatusEvent(self, act):
        self.nodes[CTL].push_event(self._ctl_conn(), wire.body_event_status(act["x"], addr_of(act["h"]), 9042))

    def act_TopologyEvent(self, act):
        h, x = act["h"], act["x"]
        c = self._ctl_conn()
        if x == "NEW_NODE":
            self.peers.add(h)
        else:
            self.peers.discard(h)
        self._set_peers()
        self.nodes[CTL].push_event(c, wire.body_event_topology(x, addr_of(h), 9042))

    def act_SetMode(self, act):
        node = self.nodes[act["h"]]
        node.accepting = act["x"] != "refuse"
        node.require_auth = act["x"] == "auth"
        # keep whatever hook a subclass installed on the node (the system harness taps every frame there)
        if not hasattr(node, "_base_handshake_script"):
            node._base_handshake_script = None if node.handshake_script is _drop_handshake else node.handshake_script
        node.handshake_script = _drop_handshake if act["x"] == "drop" else node._base_handshake_script

    def act_CtlFail(self, act):
        c = self._ctl_conn()
        c.socket_error()
        self.cc.return_connection(c)          # ConnectionHeartbeat.run: owner.return_connection(connection)

    def _shut_step(self, stops):
        """Advance the Cluster.shutdown thread to the first of the yield points `stops` (empty: to its end)."""
        if self.shut_thread is None:
            self.shut_thread = self._spawn("SD", self.cluster.shutdown)
            self.shut_at = "start"
        th = self.ds.threads[self.shut_thread]
        if th.done:
            return
        if not stops:
            self.ds.finish(self.shut_thread)
            self.shut_at = "end"
        elif self.shut_at not in stops:
            self.shut_at = self.ds.run_until(self.shut_thread, lambda lab: lab in stops)

    def act_ShutdownA(self, act):
        self._shut_step(("iter:sessions", "executor.shutdown"))

    def act_ShutdownS(self, act):
        if self.shut_thread is not None and self.shut_at == "executor.shutdown":
            return                        # the sessions loop never showed up: nothing between the two points
        self.shut_at = "passed"
        self._shut_step(("executor.shutdown",))

    def act_ShutdownE(self, act):
        self._shut_step(())

    def act_Request(self, act):
        s = act["s"]
        if self.returned_conns is None:
            self.returned_conns = len(self.world.conns)
        try:
            f = self.sessions[s].execute_async("SELECT * FROM ks.t")
        except Exception:
            self.req[s] = "refused"
            return
        self.req_futures[s] = f
        if f._final_exception is not None:
            self.req[s] = "refused"
        elif f._final_result is not ccluster._NOT_SET:
            self.req[s] = "answered"
        else:
            self.req[s] = "pending"

    # ------------------------------------------------------------------ projection
    def _pool(self, s, h):
        sess = self.sessions[s]
        host = self.host(h)
        if host is not None:
            return sess._pools.get(host)
        for k, p in list(sess._pools.items()):
            if num_of(k.address) == h:
                return p
        return None

    def project(self):
        self._see_hosts()
        md = self.cluster.metadata
        known, removed, up, handling, recon = {}, {}, {}, {}, {}
        for h in self.objs:
            obj = self.hostobj.get(h)
            inmd = obj is not None and md.get_host(obj.endpoint) is obj
            known[h] = inmd
            removed[h] = obj is not None and not inmd
            if obj is None:
                up[h], handling[h], recon[h] = "N", False, "none"
                continue
            up[h] = "T" if obj.is_up is True else "F" if obj.is_up is False else "N"
            handling[h] = bool(obj._currently_handling_node_up)
            r = obj._reconnection_handler
            recon[h] = "none" if r is None else ("canc" if r._cancelled else "live")
        pools = {}
        for s in self.sess_ids:
            pools[s] = {}
            for h in [CTL] + self.hosts:
                p = self._pool(s, h)
                pools[s][h] = "none" if p is None else ("shut" if p.is_shutdown else "open")
        ex = Counter(d for d, _ in self.exec_items())
        for _ in self.cc_threads:
            ex[T("CtlSet")] += 1
        for _, handler in self.recon_threads:
            ex[self._recon_desc(handler)] += 1
        for _, hh in self.dial_threads:
            ex[T("CtlDial", h=hh)] += 1
        open_sets = set()
        for th, fr, rec in self.up_threads:
            ex[self._cont_desc(fr, rec)] += 1
            open_sets.add(id(fr.f_locals["futures"]))
        sc = Counter(d for d, _ in self.sched_items())
        # groups of futures awaited by on_up / on_add (discovered while describing the queued tasks)
        fut_sess = {}
        for d, t in self.exec_items():
            if d[0] == "AddPool":
                fut_sess[t.future] = d[1]
        grp = {}
        for key in list(self.groups):
            g = self.groups[key]
            if not g["futures"] and key not in open_sets:
                del self.groups[key]
                continue
            left = frozenset(fut_sess.get(f, 0) for f in g["futures"] if not f.done())
            ok = all((r is True) for r in g["results"])
            for f in g["futures"]:            # done, callback not attached yet (a driver that attaches after the loop)
                if f.done() and not f.cancelled():
                    ok = ok and f.exception() is None and f.result() is True
            grp[(g["h"], g["kind"], g["n"])] = {"left": left, "ok": ok, "open": key in open_sets}
        c = self.cc._connection
        ctl = "closed" if c is None else ("broken" if (c.is_closed or c.is_defunct) else "open")
        flags = (bool(self.cluster.is_shutdown), bool(self.sch.is_shutdown), bool(self.cc._is_shutdown),
                 all(x.is_shutdown for x in self.sessions.values()), bool(self.ex.is_shutdown))
        emL = sorted(self.listener.log[self._lmark:])
        emP = sorted(self.lbp.log[self._pmark:])
        self._lmark, self._pmark = len(self.listener.log), len(self.lbp.log)
        emC = len(self.world.conns) - self._cmark
        self._cmark = len(self.world.conns)
        nopen = len(self.world.open_connections())
        nnode = sum(len(n.open_connections()) for n in self.nodes.values())
        return {"known": known, "removed": removed, "up": up, "handling": handling, "recon": recon, "pools": pools,
                "grp": grp, "exec": dict(ex), "sched": dict(sc), "lbpLive": self.lbp.live(),
                "flags": flags, "ctl": ctl, "ctlPend": bool(self.cc_threads), "req": dict(self.req),
                "emL": emL, "emP": emP, "emC": emC, "nopen": nopen if nopen == nnode else (nopen, nnode)}

    # ------------------------------------------------------------------ after shutdown() returned
    def returned(self):
        th = self.shut_thread and self.ds.threads[self.shut_thread]
        return bool(th and th.done and not self.exec_items() and not self.cc_threads and not self.up_threads
                    and not self.recon_threads and not self.dial_threads)

    def after_return_probe(self):
        """Everything that could still run once shutdown() has returned is given the chance to: scheduler entries,
        reactor timers, left-over executor tasks.  Returns a dict of what the property forbids (empty = fine)."""
        bad = {}
        before = len(self.world.conns) if self.returned_conns is None else self.returned_conns
        fired = 0
        for _ in range(20):
            progressed = False
            for e in list(self.sch.tasks):
                try:
                    if self.sch.fire(e) is not None:
                        fired += 1
                        progressed = True
                except Exception:
                    pass
            try:
                if self.world.run_due_timers():
                    progressed = True
            except Exception:
                pass
            try:
                if self.ex.drain(limit=200):
                    progressed = True
            except Exception:
                pass
            if not progressed:
                break
        if fired:
            bad["scheduled_work_ran_after_shutdown"] = fired
        if len(self.world.conns) > before:
            bad["connections_opened_after_shutdown"] = len(self.world.conns) - before
        still = [str(c.endpoint) for c in self.world.open_connections()]
        if still:
            bad["connections_still_open"] = sorted(still)
        nn = {addr: len(n.open_connections()) for addr, n in self.nodes.items() if n.open_connections()}
        if nn and not still:
            bad["node_side_open"] = nn
        for s, sess in self.sessions.items():
            if self.req.get(s) == "none":
                self.act_Request({"s": s})
            if self.req.get(s) in ("pending", "answered"):
                bad.setdefault("request_not_refused", []).append(s)
        return bad

    def close(self):
        try:
            if self.shut_thread is None:
                self.cluster.shutdown()
            else:
                self._shut_step(())
        except Exception:
            pass
        for th in self.cc_threads + [x[0] for x in self.up_threads] + [x[0] for x in self.recon_threads] + \
                [x[0] for x in self.dial_threads]:
            try:
                self.ds.finish(th)
            except Exception:
                pass


# ---------------------------------------------------------------------- spec state -> projection shape
def _fn(v, base=1):
    """TLC prints a function with domain 1..n as a tuple."""
    if isinstance(v, tuple):
        return {i + base: x for i, x in enumerate(v)}
    return dict(v)


def _bag(v):
    if isinstance(v, tuple):            # empty function
        if v:
            raise ValueError("bag printed as a non-empty tuple: %r" % (v,))
        return {}
    return {task_tuple(k): n for k, n in v.items()}


def flat(state):
    """TLC state (variables cs, mode, peers, ...) -> one dict with the fields of cs at top level."""
    out = dict(state["cs"])
    for k, v in state.items():
        if k != "cs":
            out[k] = v
    return out


def spec_view(state, consts):
    st = flat(state)
    hosts = sorted(consts["Hosts"])
    sess = sorted(consts["Sessions"])
    phase = st["phase"]
    pools = {s: _fn(p) for s, p in _fn(st["pools"]).items()}
    ex = _bag(st["exec"])
    grp = {}
    if not isinstance(st["grp"], tuple):
        for k, g in st["grp"].items():
            grp[tuple(k)] = {"left": frozenset(g["left"]), "ok": g["ok"], "open": g["open"]}
    nopen = (1 if st["ctl"] == "open" else 0) + (1 if st["ctlPend"] else 0) + st["leaked"]
    nopen += sum(1 for s in sess for h in pools[s] if pools[s][h] == "open")
    nopen += sum(n for t, n in ex.items() if t[0] in ("PoolShut", "OnUpCont") and t[4])
    return {
        "known": _hf(st["known"], hosts),
        "removed": _hf(st["removed"], hosts), "up": _hf(st["up"], hosts), "handling": _hf(st["handling"], hosts),
        "recon": _hf(st["recon"], hosts), "pools": pools, "grp": grp, "exec": ex, "sched": _bag(st["sched"]),
        "lbpLive": frozenset(st["lbpLive"]),
        "flags": (phase >= 1, phase >= 1, phase >= 1, phase >= 2, phase >= 3),
        "ctl": st["ctl"], "ctlPend": st["ctlPend"], "req": _fn(st["req"]),
        "emL": sorted(tuple(x) for x in st["emL"]), "emP": sorted(tuple(x) for x in st["emP"]), "emC": st["emC"], "nopen": nopen,
    }


def _hf(v, hosts):
    if isinstance(v, tuple):
        return {hosts[0] + i: x for i, x in enumerate(v)}     # only when Hosts = 1..n, which it never is (hosts start at 2)
    return dict(v)


def diff(spec, real):
    out = {}
    for k in HostsHarness.VARS:
        a, b = spec[k], real[k]
        if a != b:
            out[k] = {"spec": _show(a), "code": _show(b)}
    return out


def _show(v):
    if isinstance(v, dict):
        return {str(k): _show(x) for k, x in v.items()}
    if isinstance(v, (frozenset, set)):
        return sorted(_show(x) for x in v)
    if isinstance(v, tuple):
        return [_show(x) for x in v]
    return v


def act_of(state):
    a = dict(state["act"])
    a["t"] = dict(a["t"])
    return a


def replay(consts, states, probe_after=True):
    """Replay one behaviour (list of spec states, first = Init). Returns (divergence or None, after-shutdown findings)."""
    h = HostsHarness(consts)
    try:
        d = diff(spec_view(states[0], consts), h.project())
        if d:
            return {"step": 0, "action": "Init", "diff": d}, {}
        for i, s in enumerate(states[1:], 1):
            act = act_of(s)
            try:
                real = h.do(act)
            except HarnessError as ex:
                return {"step": i, "action": act, "diff": {"_enabled": {"spec": "enabled", "code": str(ex)}}}, {}
            except Exception as ex:            # the code under test blew up inside a step
                return {"step": i, "action": act,
                        "diff": {"_exception": {"spec": "no exception", "code": "%s: %s" % (type(ex).__name__, ex)}}}, {}
            d = diff(spec_view(s, consts), real)
            if d:
                return {"step": i, "action": act, "diff": d}, {}
        bad = {}
        if probe_after and h.returned():
            bad = h.after_return_probe()
        return None, bad
    finally:
        h.close()


# ---------------------------------------------------------------------- recording (code -> spec)
PHASES = {(False, False, False, False, False): 0, (True, True, True, False, False): 1,
          (True, True, True, True, False): 2, (True, True, True, True, True): 3}


def _bag_arr(b):
    out = []
    for t, c in sorted(b.items(), key=lambda kv: repr(kv[0])):
        d = task_dict(t)
        d["c"] = c
        out.append(d)
    return out


def to_post(p, consts):
    """Projection -> the JSON shape Trace_Hosts.tla's Post() expects."""
    hosts = sorted(consts["Hosts"])
    sess = sorted(consts["Sessions"])
    allh = [CTL] + hosts
    objs = hosts + ([h + 10 for h in hosts] if "readd" in consts.get("Env", ()) else [])
    return {
        "known": [p["known"][h] for h in objs], "removed": [p["removed"][h] for h in objs],
        "up": [p["up"][h] for h in objs], "handling": [p["handling"][h] for h in objs],
        "recon": [p["recon"][h] for h in objs],
        "pools": [[p["pools"][s][h] for h in allh] for s in sess],
        "grp": [{"h": k[0], "kind": k[1], "n": k[2], "left": sorted(g["left"]), "ok": g["ok"], "open": g["open"]}
                for k, g in sorted(p["grp"].items())],
        "exec": _bag_arr(p["exec"]), "sched": _bag_arr(p["sched"]),
        "lbpLive": sorted(p["lbpLive"]), "phase": PHASES.get(tuple(p["flags"]), -1),
        "ctl": p["ctl"], "ctlPend": p["ctlPend"], "req": [p["req"][s] for s in sess],
        "emL": [list(x) for x in p["emL"]], "emP": [list(x) for x in p["emP"]], "emC": p["emC"],
        "nopen": p["nopen"] if isinstance(p["nopen"], int) else -1,
    }


def event_of(act, post):
    ev = {"e": act["name"], "post": post}
    if act["name"] in ("Exec", "Fire"):
        ev["t"] = dict(act["t"])
    for k in ("s", "h", "x"):
        if act.get(k) not in (None, 0, ""):
            ev[k] = act[k]
    return ev


def A(name, t=None, s=0, h=0, x=""):
    return {"name": name, "t": t if t is not None else task_dict(T("none")), "s": s, "h": h, "x": x}


def enabled_ops(h, p, consts, state):
    """Operations the specification's Next could take from where the real objects are (state: budget, mode, peers)."""
    env = consts["Env"]
    ops = []
    phase = PHASES.get(tuple(p["flags"]), -1)
    started = h.shut_thread is not None
    for d in sorted(set(p["exec"]), key=repr):
        ops.append(("task", A("Exec", task_dict(d))))
    if not p["flags"][1] and not started:
        for d in sorted(set(p["sched"]), key=repr):
            ops.append(("task", A("Fire", task_dict(d))))
    if phase == 0 and not started and state["budget"] < consts["MaxEvents"]:
        for hh in h.hosts:
            if "fail" in env:
                for s in h.sess_ids:
                    if p["pools"][s][hh] == "open":
                        ops.append(("env", A("ConnFailure", s=s, h=hh)))
            objs_h = [o for o in p["known"] if o % 10 == hh]
            known_h = any(p["known"][o] for o in objs_h)
            fresh_h = any(not p["known"][o] and not p["removed"][o] for o in objs_h)
            removing = any(t[0] == "RemoveHost" and t[2] % 10 == hh for t in list(p["exec"]) + list(p["sched"]))
            if "status" in env and p["ctl"] == "open" and known_h:
                ops.append(("env", A("StatusEvent", h=hh, x="UP")))
                ops.append(("env", A("StatusEvent", h=hh, x="DOWN")))
            if "topo" in env and p["ctl"] == "open":
                if hh not in state["peers"] and not known_h and fresh_h and not removing:
                    ops.append(("env", A("TopologyEvent", h=hh, x="NEW_NODE")))
                if hh in state["peers"] and known_h:
                    ops.append(("env", A("TopologyEvent", h=hh, x="REMOVED_NODE")))
            for m in ("ok", "refuse", "auth", "drop"):
                if m != state["mode"][hh] and (m == "ok" or (m == "refuse" and "mode" in env) or (m == "auth" and "auth" in env)
                                               or (m == "drop" and "drop" in env)):
                    ops.append(("env", A("SetMode", h=hh, x=m)))
        if "ctl" in env and p["ctl"] == "open" and not p["ctlPend"]:
            ops.append(("env", A("CtlFail")))
    if phase in (0, 1, 2) and (phase == 0) == (not started):
        ops.append(("shut", A(("ShutdownA", "ShutdownS", "ShutdownE")[phase])))
    if phase == 3 and not p["exec"]:
        for s in h.sess_ids:
            if p["req"][s] == "none":
                ops.append(("req", A("Request", s=s)))
    return ops


def record(consts, rng, max_events=40, p_shut=0.06, p_env=0.35):
    """Drive the real objects with random enabled operations; return the list of events (with post-states)."""
    h = HostsHarness(consts)
    state = {"budget": 0, "mode": {x: "ok" for x in h.hosts}, "peers": set(consts["Known0"])}
    events = []
    try:
        p = h.project()
        while len(events) < max_events:
            ops = enabled_ops(h, p, consts, state)
            if not ops:
                break
            groups = {}
            for kind, a in ops:
                groups.setdefault(kind, []).append(a)
            r = rng.random()
            if "shut" in groups and (r < p_shut or len(groups) == 1 or PHASES.get(tuple(p["flags"]), 0) > 0 and r < 0.4):
                act = groups["shut"][0]
            elif "env" in groups and ("task" not in groups or r < p_env):
                act = rng.choice(groups["env"])
            elif "task" in groups:
                act = rng.choice(groups["task"])
            elif "req" in groups:
                act = rng.choice(groups["req"])
            else:
                act = rng.choice([a for _, a in ops])
            try:
                p = h.do(act)
            except Exception as ex:          # the real objects left the envelope the harness can drive
                events.append({"e": "Anomaly", "during": {k: v for k, v in act.items() if k != "t"} | {"t": act["t"]},
                               "what": "%s: %s" % (type(ex).__name__, ex), "post": {}})
                break
            if act["name"] in ("ConnFailure", "StatusEvent", "TopologyEvent", "SetMode", "CtlFail"):
                state["budget"] += 1
            if act["name"] == "SetMode":
                state["mode"][act["h"]] = act["x"]
            if act["name"] == "TopologyEvent":
                (state["peers"].add if act["x"] == "NEW_NODE" else state["peers"].discard)(act["h"])
            events.append(event_of(act, to_post(p, consts)))
        bad = h.after_return_probe() if h.returned() else {}
        return events, bad, p
    finally:
        h.close()


def run_script(consts, acts):
    """Perform a fixed list of actions on fresh real objects.  Returns (events, final projection, after-return
    findings, error or None)."""
    h = HostsHarness(consts)
    events = []
    p = h.project()
    try:
        for act in acts:
            try:
                p = h.do(act)
            except Exception as ex:
                return events, p, {}, "%s at %s: %s" % (type(ex).__name__, act["name"], ex)
            events.append(event_of(act, to_post(p, consts)))
        bad = h.after_return_probe() if h.returned() else {}
        p = dict(p, _listener_log=list(h.listener.log), _lbp_log=list(h.lbp.log))
        return events, p, bad, None
    finally:
        h.close()
