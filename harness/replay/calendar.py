"""Binding between spec/Calendar.tla and cassandra.util / cassandra.cqltypes (C34; reused by C36).

A TLC state of Calendar.tla is a case: fam (family), c (the input), x (the specification's answer).  States are read
with harness.replay.wire_bind.enumerate_fast: records -> dict, sequences and sets -> list.

Abstract value                      Python value
  day count n                       int
  <<y, m, d>>                       datetime.date(y, m, d)
  text (ASCII codes)                str
  [secs, ns] time of day            int nanoseconds = secs * 10**9 + ns
  [neg, secs, ns]                   +-(secs * 10**9 + ns)
  [days, sod, us] instant           unix microseconds = (days * 86400 + sod) * 10**6 + us; naive UTC datetime
  byte sequences (limbs results)    bytes; int.from_bytes(.., "big")
Every wide number the specification states (limb arithmetic, Limbs.tla) is recomputed here with Python integers and
compared: a disagreement is a machinery failure (`LimbMismatch`), never a verdict about the driver.

judge_*(drv, state) -> (evaluations, [(signature, message, detail)], open_notes) ; nothing here raises when the driver
misbehaves (a mutated driver): every call into the driver is wrapped.
"""
import datetime
import fractions
import uuid

EPOCH = datetime.datetime(1970, 1, 1)
UUID_OFFSET = 0x01B21DD213814000          # 100-ns intervals from 1582-10-15 to 1970-01-01 (cross-checked against the spec)
ONE_US = datetime.timedelta(microseconds=1)


class LimbMismatch(Exception):
    """the specification's limb arithmetic and Python's integers disagree (machinery failure)"""


class Driver(object):
    def __init__(self, util, cqltypes):
        self.util = util
        self.cqltypes = cqltypes

    @classmethod
    def pure(cls):
        from harness.pyenv import repo_import
        return cls(repo_import("cassandra.util"), repo_import("cassandra.cqltypes"))


# ------------------------------------------------------------------ conversions

def text(codes):
    return bytes(codes).decode("ascii")


def inst_us(i):
    return (i["days"] * 86400 + i["sod"]) * 10 ** 6 + i["us"]


def inst_datetime(i):
    return EPOCH + datetime.timedelta(days=i["days"], seconds=i["sod"], microseconds=i["us"])


def node_int(node):
    return int.from_bytes(bytes(node), "big")


def _call(fn, *a):
    """('ok', value) | ('raised', 'Class: text') - the code under test may fail in any way"""
    try:
        return ("ok", fn(*a))
    except Exception as ex:                                  # noqa: BLE001
        return ("raised", "%s: %s" % (type(ex).__name__, str(ex)[:120]))


def _need(cond, what):
    if not cond:
        raise LimbMismatch(what)


class Judge(object):
    """collects the deviations of one case"""

    def __init__(self):
        self.n = 0
        self.devs = []
        self.open = []

    def eq(self, sig, what, got, want, **detail):
        """one evaluation on the real code: got = _call(...) result; want = the specification's answer"""
        self.n += 1
        if got[0] == "raised":
            self.devs.append((sig + ":raised", "%s raised %s" % (what, got[1]), dict(detail, spec=_j(want))))
        elif got[1] != want:
            self.devs.append((sig, "%s is not the specification's answer" % what, dict(detail, real=_j(got[1]), spec=_j(want))))

    def must_raise(self, sig, what, got, **detail):
        self.n += 1
        if got[0] != "raised":
            self.devs.append((sig, "%s was accepted (%s)" % (what, _j(got[1])), dict(detail, real=_j(got[1]))))

    def holds(self, sig, what, ok, **detail):
        self.n += 1
        if not ok:
            self.devs.append((sig, what, detail))

    def note_open(self, key):
        self.open.append(key)

    def result(self):
        return self.n, self.devs, self.open


def _j(v):
    if isinstance(v, (bytes, bytearray)):
        return bytes(v).hex()
    if isinstance(v, (int, str, bool, type(None))):
        return v
    if isinstance(v, (list, tuple)):
        return [_j(e) for e in v]
    return repr(v)


# ------------------------------------------------------------------ (a) dates

def check_date_limbs(st):
    c, x = st["c"], st["x"]
    n = c["n"]
    _need(bytes(x["enc"]) == (n + 2 ** 31).to_bytes(4, "big"), "DateEnc(%d)" % n)
    if x["inrange"]:
        y, m, d = x["ymd"]
        _need(datetime.date.fromordinal(n + 719163) == datetime.date(y, m, d), "Civil(%d) = %s" % (n, x["ymd"]))
        _need(text(x["text"]) == "%04d-%02d-%02d" % (y, m, d), "DateText%s" % (x["ymd"],))


def judge_date(drv, st, full=True, crosscheck=True):
    """one day count: Date <-> days <-> datetime.date <-> 'yyyy-mm-dd' and the CQL date encoding"""
    c, x = st["c"], st["x"]
    n = c["n"]
    if crosscheck:
        check_date_limbs(st)
    Date, SD = drv.util.Date, drv.cqltypes.SimpleDateType
    enc = bytes(x["enc"])
    J = Judge()
    made = _call(Date, n)
    J.eq("date:days->Date", "Date(%d).days_from_epoch" % n, _call(lambda: made[1].days_from_epoch) if made[0] == "ok" else made, n)
    J.eq("date:cql-deserialize", "SimpleDateType.deserialize(%s).days_from_epoch" % enc.hex(),
         _call(lambda: SD.deserialize(enc, 4).days_from_epoch), n)
    if made[0] == "ok":
        D = made[1]
        J.eq("date:cql-serialize", "SimpleDateType.serialize(Date(%d))" % n, _call(SD.serialize, D, 4), enc)
        J.eq("date:seconds", "Date(%d).seconds" % n, _call(lambda: D.seconds), n * 86400)
    if not x["inrange"]:
        if made[0] == "ok":
            J.note_open("str(Date) outside the years 1..9999: %s" % _call(str, made[1])[0])
        return J.result()
    y, m, d = x["ymd"]
    s = text(x["text"])
    pd = datetime.date(y, m, d)
    if made[0] == "ok":
        D = made[1]
        J.eq("date:days->text", "str(Date(%d))" % n, _call(str, D), s)
        J.eq("date:days->date", "Date(%d).date()" % n, _call(D.date), pd)
    J.eq("date:text->days", "Date(%r).days_from_epoch" % s, _call(lambda: Date(s).days_from_epoch), n)
    J.eq("date:date->days", "Date(datetime.date%s).days_from_epoch" % ((y, m, d),), _call(lambda: Date(pd).days_from_epoch), n)
    if full:
        last = datetime.datetime(y, m, d, 23, 59, 59, 999999)
        J.eq("date:datetime->days", "Date(%r).days_from_epoch" % last, _call(lambda: Date(last).days_from_epoch), n)
        J.eq("date:cql-serialize", "SimpleDateType.serialize(datetime.date%s)" % ((y, m, d),), _call(SD.serialize, pd, 4), enc)
        J.eq("date:cql-serialize", "SimpleDateType.serialize(%r)" % s, _call(SD.serialize, s, 4), enc)
    return J.result()


def judge_date_block(drv, start, packed, limit=20):
    """a run of consecutive days (the "dateall" family): -> (evaluations, deviations (at most `limit`), month ends seen)"""
    n_eval = 0
    devs = []
    for k, p in enumerate(packed):
        n = start + k
        y, m, d = p // 10000, (p // 100) % 100, p % 100
        if datetime.date.fromordinal(n + 719163) != datetime.date(y, m, d):
            raise LimbMismatch("Civil(%d) = %s" % (n, (y, m, d)))
        st = {"c": {"n": n, "from": []},
              "x": {"inrange": True, "ymd": [y, m, d], "text": list(("%04d-%02d-%02d" % (y, m, d)).encode()),
                    "enc": list((n + 2 ** 31).to_bytes(4, "big"))}}
        ne, dv, _ = judge_date(drv, st, full=False)
        n_eval += ne
        if dv and len(devs) < limit:
            devs.extend((sig, msg, dict(detail, n=n)) for sig, msg, detail in dv)
    return n_eval, devs[:limit]


def _block_worker(args):
    start, packed = args
    try:
        return ("ok",) + judge_date_block(Driver.pure(), start, packed)
    except LimbMismatch as ex:
        return ("limb", str(ex))


def run_blocks(blocks, workers):
    """blocks: [(start, packed)] -> (evaluations, deviations); forks worker processes (the driver is already imported)"""
    import multiprocessing
    Driver.pure()
    n_eval, devs = 0, []
    if workers <= 1:
        results = map(_block_worker, blocks)
        pool = None
    else:
        pool = multiprocessing.get_context("fork").Pool(processes=workers)
        results = pool.imap_unordered(_block_worker, blocks, chunksize=8)
    try:
        for r in results:
            if r[0] == "limb":
                raise LimbMismatch(r[1])
            n_eval += r[1]
            devs.extend(r[2])
    finally:
        if pool is not None:
            pool.terminate()
            pool.join()
    return n_eval, devs


# ------------------------------------------------------------------ (b) times

def check_time_limbs(st):
    c, x = st["c"], st["x"]
    if x["expect"] == "within":
        t = text(c["text"])
        h, mi, s = c["fields"]
        _need(t[:9] == "%02d:%02d:%02d." % (h, mi, s) and t[9:].isdigit() and len(t[9:]) == c["digits"] > 9
              and x["nine"]["secs"] == h * 3600 + mi * 60 + s < 86400 and x["nine"]["ns"] == int(t[9:18]), "long fraction %r" % t)
    if x["expect"] != "ok":
        return
    n = c["secs"] * 10 ** 9 + c["ns"]
    _need(int.from_bytes(bytes(x["enc"]), "big") == n, "TimeEnc(%d, %d)" % (c["secs"], c["ns"]))
    h, mi, s, ns = x["hmsn"]
    _need((h * 3600 + mi * 60 + s) * 10 ** 9 + ns == n, "Hms(%d)" % c["secs"])
    full = "%02d:%02d:%02d.%09d" % (h, mi, s, ns)
    for f in x["forms"] + x["openforms"]:
        t = text(f)
        _need(full.startswith(t) and set(full[len(t):]) <= {"0", "."}, "TimeText %r for %r" % (t, full))


def judge_time(drv, st, crosscheck=True):
    c, x = st["c"], st["x"]
    if crosscheck:
        check_time_limbs(st)
    Time, TT = drv.util.Time, drv.cqltypes.TimeType
    J = Judge()
    if c["kind"] == "int":                       # an integer that is not a time of day must be refused
        n = (-1 if c["neg"] else 1) * (c["secs"] * 10 ** 9 + c["ns"])
        sig = "time:int:%s-accepted" % x["why"]                # TimeType.serialize(int) is another door to the same constructor
        J.must_raise(sig, "Time(%d)" % n, _call(lambda: Time(n).nanosecond_time), n=n)
        J.must_raise(sig, "TimeType.serialize(%d)" % n, _call(TT.serialize, n, 4), n=n)
        return J.result()
    if c["kind"] == "longfraction":              # more than nine fractional digits: refusing is fine, so is any value of the
        s = text(c["text"])                      # day (both recorded); a time outside the day is not ("only accepts times
        nine = x["nine"]["secs"] * 10 ** 9 + x["nine"]["ns"]                                   # within one day")
        for what, got in (("Time(%r).nanosecond_time" % s, _call(lambda: Time(s).nanosecond_time)),
                          ("TimeType.serialize(%r)" % s, _call(lambda: int.from_bytes(TT.serialize(s, 4), "big", signed=True)))):
            J.n += 1
            if got[0] == "raised":
                J.note_open("fraction of more than nine digits: refused")
                continue
            inside = isinstance(got[1], int) and 0 <= got[1] < 86400 * 10 ** 9
            J.note_open("fraction of more than nine digits: accepted as %s" % ("the first nine digits" if got[1] == nine else "another time of the day" if inside else "a time outside the day"))
            if not inside:
                J.devs.append(("time:string:long-fraction:outside-the-day-accepted", "%s = %r: not a time within one day" % (what, got[1]),
                               {"text": s, "real": _j(got[1])}))
        return J.result()
    if c["kind"] == "string":
        s = text(c["text"])
        got = _call(lambda: Time(s).nanosecond_time)
        if x["expect"] == "reject":
            J.must_raise("time:string:beyond-the-day-accepted", "Time(%r)" % s, got, text=s)
        else:
            J.n += 1
            J.note_open("string with a field out of its range but within the day: %s" % ("refused" if got[0] == "raised" else "accepted"))
        return J.result()
    n = c["secs"] * 10 ** 9 + c["ns"]
    h, mi, s, ns = x["hmsn"]
    enc = bytes(x["enc"])
    forms = [text(f) for f in x["forms"]]
    made = _call(Time, n)
    J.eq("time:ns->Time", "Time(%d).nanosecond_time" % n, _call(lambda: made[1].nanosecond_time) if made[0] == "ok" else made, n)
    if made[0] == "ok":
        T = made[1]
        J.eq("time:ns->fields", "(hour, minute, second, nanosecond) of Time(%d)" % n,
             _call(lambda: (T.hour, T.minute, T.second, T.nanosecond)), (h, mi, s, ns))
        J.eq("time:ns->time()", "Time(%d).time()" % n, _call(T.time), datetime.time(h, mi, s, ns // 1000))
        got = _call(str, T)
        J.n += 1
        if got[0] == "raised":
            J.devs.append(("time:ns->text:raised", "str(Time(%d)) raised %s" % (n, got[1]), {}))
        else:
            if got[1] not in forms and got[1] not in [text(f) for f in x["openforms"]]:
                J.devs.append(("time:ns->text", "str(Time(%d)) is not a text form of the value" % n, {"real": got[1], "spec": forms}))
            J.eq("time:text-roundtrip", "Time(str(Time(%d))).nanosecond_time" % n, _call(lambda: Time(got[1]).nanosecond_time), n)
        J.eq("time:cql-serialize", "TimeType.serialize(Time(%d))" % n, _call(TT.serialize, T, 4), enc)
    J.eq("time:cql-serialize", "TimeType.serialize(%d)" % n, _call(TT.serialize, n, 4), enc)
    J.eq("time:cql-deserialize", "TimeType.deserialize(%s).nanosecond_time" % enc.hex(), _call(lambda: TT.deserialize(enc, 4).nanosecond_time), n)
    for f in forms:
        J.eq("time:text->ns", "Time(%r).nanosecond_time" % f, _call(lambda: Time(f).nanosecond_time), n, form=f)
    J.eq("time:cql-serialize", "TimeType.serialize(%r)" % forms[-1], _call(TT.serialize, forms[-1], 4), enc)
    for f in x["openforms"]:
        f = text(f)
        got = _call(lambda: Time(f).nanosecond_time)
        J.note_open("fraction of %d digits: %s" % (len(f) - 9, "refused" if got[0] == "raised" else "same value" if got[1] == n else "OTHER VALUE"))
    if x["whole_us"]:
        pt = datetime.time(h, mi, s, ns // 1000)
        J.eq("time:time->ns", "Time(%r).nanosecond_time" % pt, _call(lambda: Time(pt).nanosecond_time), n)
    return J.result()


# ------------------------------------------------------------------ (c) time-UUIDs

def cass_key(u):
    """Cassandra's order on version-1 UUIDs as a sort key: the timestamp (time_hi with the version, time_mid, time_low),
    then the last 8 bytes as signed bytes.  Cross-checked against CassLess of Calendar.tla on the "pair" family."""
    b = u.bytes
    return (b[6:8] + b[4:6] + b[0:4], tuple(v - 256 if v >= 128 else v for v in b[8:]))


def cass_rel(u, v):
    a, b = cass_key(u), cass_key(v)
    return "lt" if a < b else "gt" if a > b else "eq"


def check_uuid_limbs(st):
    c, x = st["c"], st["x"]
    count = 10 * inst_us(c["inst"]) + UUID_OFFSET
    _need(0 <= count < 2 ** 60, "instant in the 60-bit range")
    _need(int.from_bytes(bytes(x["ts"]), "big") == count, "Count100 of %s" % (c["inst"],))
    u = uuid.UUID(bytes=bytes(x["uuid"]))
    _need(u.time == count and u.version == 1 and u.variant == uuid.RFC_4122 and u.clock_seq == c["cs"]
          and u.node == node_int(c["node"]), "Layout of %s" % (c,))
    for k, tail in (("min", "8080808080808080"), ("max", "bf7f7f7f7f7f7f7f")):
        w = uuid.UUID(bytes=bytes(x[k]))
        _need(w.time == count and w.version == 1 and w.bytes[8:].hex() == tail, "%s uuid" % k)


def time_forms(i):
    """the ways the instant is handed to uuid_from_time: exact ones only"""
    us = inst_us(i)
    dt = inst_datetime(i)
    forms = [("datetime", dt)]
    tz = datetime.timezone(datetime.timedelta(hours=5, minutes=30))
    try:
        forms.append(("aware", (dt + datetime.timedelta(hours=5, minutes=30)).replace(tzinfo=tz)))
    except OverflowError:
        pass
    if i["us"] == 0:
        forms.append(("int", us // 10 ** 6))
    f = us / 1e6
    if fractions.Fraction(f) == fractions.Fraction(us, 10 ** 6):          # the float IS the instant
        forms.append(("float", f))
    return forms


FAR_US = 2 ** 53                 # beyond this many microseconds from the unix epoch a double no longer holds a microsecond count
FAR_DECODE_US = 2 ** 55 // 10    # beyond 2^55 intervals (2084-03-02 / 1855-10-31) int -> double -> seconds no longer rounds back to
#                                  the microsecond (error up to 0.4 us from the conversion + 0.24 us from the quotient)
FLOAT_US = 2 ** 32 * 10 ** 6     # unix_time_from_uuid1 returns a double of seconds: it separates microseconds below 2^32 s only


def generate_sig(form, us):
    """signature of a lost instant in uuid_from_time / min_ / max_uuid_from_time: by code path (datetime objects, naive or
    aware, take one path; numbers the other) and by whether the instant lies where double arithmetic is exact"""
    path = "datetime" if form in ("datetime", "aware") else "number"
    return "uuid:generate:%s:%s" % (path, "far-from-epoch" if abs(us) >= FAR_US else "instant-not-kept-to-the-microsecond")


def judge_uuid(drv, st, crosscheck=True):
    c, x = st["c"], st["x"]
    if crosscheck:
        check_uuid_limbs(st)
    U = drv.util
    i = c["inst"]
    us = inst_us(i)
    count = 10 * us + UUID_OFFSET
    node, cs = node_int(c["node"]), c["cs"]
    spec_u = uuid.UUID(bytes=bytes(x["uuid"]))
    J = Judge()
    for fname, tval in time_forms(i):
        got = _call(U.uuid_from_time, tval, node, cs)
        J.n += 1
        if got[0] == "raised":
            J.devs.append(("uuid:generate:%s:raised" % fname, "uuid_from_time(%r, ..) raised %s" % (tval, got[1]), {"form": fname}))
            continue
        u = got[1]
        shape = _call(lambda: (u.version, u.variant == uuid.RFC_4122, u.clock_seq, u.node))
        J.eq("uuid:generate:fields", "(version, variant, clock_seq, node) of uuid_from_time(%r, %#x, %#x)" % (tval, node, cs),
             shape, (1, True, cs, node), form=fname)
        d = u.time - count
        if 0 < abs(d) < 10:
            J.note_open("uuid_from_time(%s): the timestamp field is off by less than a microsecond" % fname)
        gsig = generate_sig(fname, us)
        J.holds(gsig, "uuid_from_time(%r): the timestamp field is %+d x 100 ns away from the instant" % (tval, d), abs(d) < 10,
                form=fname, real=str(u), spec=str(spec_u))
        lo, hi = _call(U.min_uuid_from_time, tval), _call(U.max_uuid_from_time, tval)
        for k, w, tail in (("min", lo, "8080808080808080"), ("max", hi, "bf7f7f7f7f7f7f7f")):
            J.n += 1
            if w[0] == "raised":
                J.devs.append(("uuid:%s:raised" % k, "%s_uuid_from_time(%r) raised %s" % (k, tval, w[1]), {"form": fname}))
                continue
            J.holds("uuid:%s:tail" % k, "%s_uuid_from_time: the last 8 bytes are not the %s in Cassandra's order" % (k, k + "imum"),
                    w[1].bytes[8:].hex() == tail and w[1].version == 1, real=str(w[1]), spec=str(uuid.UUID(bytes=bytes(x[k]))))
            J.holds(gsig, "%s_uuid_from_time(%r): the timestamp field is %+d x 100 ns away from the instant" % (k, tval, w[1].time - count),
                    abs(w[1].time - count) < 10, form=fname)
        if lo[0] == "ok" and hi[0] == "ok":
            J.holds("uuid:bounds", "min_uuid_from_time(t) <= uuid_from_time(t, node, clock_seq) <= max_uuid_from_time(t) fails in Cassandra's order",
                    cass_rel(lo[1], u) != "gt" and cass_rel(u, hi[1]) != "gt", form=fname, real=[str(lo[1]), str(u), str(hi[1])])
    judge_decode(J, U, spec_u, us, 0)
    TU = drv.cqltypes.TimeUUIDType
    J.eq("uuid:cql-serialize", "TimeUUIDType.serialize", _call(TU.serialize, spec_u, 4), spec_u.bytes)
    J.eq("uuid:cql-deserialize", "TimeUUIDType.deserialize", _call(TU.deserialize, spec_u.bytes, 4), spec_u)
    return J.result()


def judge_decode(J, U, u, us, rem):
    """the driver's decoders on a UUID whose count is 10 * us + rem + offset: the instant, to the microsecond"""
    exact = fractions.Fraction(10 * us + rem, 10 ** 7)                     # seconds
    got = _call(U.unix_time_from_uuid1, u)
    far = abs(us) >= FAR_DECODE_US
    if abs(us) < FLOAT_US:                         # a double carries microseconds only below 2^32 s (documented: "the same
        J.n += 1                                   # precision as time.time()")
        if got[0] == "raised":
            J.devs.append(("uuid:decode:unix_time:raised", "unix_time_from_uuid1 raised %s" % got[1], {}))
        else:
            J.holds("uuid:decode:unix_time", "unix_time_from_uuid1(%s) = %r is a microsecond or more away from the instant" % (u, got[1]),
                    isinstance(got[1], (int, float)) and abs(fractions.Fraction(got[1]) - exact) < fractions.Fraction(1, 10 ** 6),
                    real=repr(got[1]), spec=str(exact))
    else:
        J.note_open("unix_time_from_uuid1 beyond 2^32 s (a double cannot carry microseconds): %s"
                    % ("raised" if got[0] == "raised" else "within a microsecond" if abs(fractions.Fraction(got[1]) - exact) < fractions.Fraction(1, 10 ** 6) else "further away"))
    got = _call(U.datetime_from_uuid1, u)
    J.n += 1
    if got[0] == "raised":
        J.devs.append(("uuid:decode:datetime:raised", "datetime_from_uuid1 raised %s" % got[1], {}))
        return
    lo = EPOCH + datetime.timedelta(microseconds=us)
    ok = got[1] == lo or (rem != 0 and got[1] == lo + ONE_US)
    J.holds("uuid:decode:datetime:%s" % ("far-from-epoch" if far else "instant-not-kept-to-the-microsecond"),
            "datetime_from_uuid1(%s) = %s, the instant is %s%s" % (u, got[1], lo, " + %d00 ns" % rem if rem else ""), ok,
            real=str(got[1]), spec=str(lo))


def judge_uuid100(drv, st, crosscheck=True):
    c, x = st["c"], st["x"]
    us = inst_us(c["inst"])
    u = uuid.UUID(bytes=bytes(x["uuid"]))
    _need(u.time == 10 * us + c["rem"] + UUID_OFFSET and u.version == 1, "Layout with a 100-ns rest")
    J = Judge()
    judge_decode(J, drv.util, u, us, c["rem"])
    return J.result()


def check_pair(st):
    """the harness's comparator against the specification's (machinery)"""
    x = st["x"]
    ua, ub = uuid.UUID(bytes=bytes(x["ua"])), uuid.UUID(bytes=bytes(x["ub"]))
    _need(cass_rel(ua, ub) == x["rel"], "CassLess on %s / %s: spec %s" % (ua, ub, x["rel"]))
    plain = "lt" if ua.bytes < ub.bytes else "gt" if ua.bytes > ub.bytes else "eq"
    _need(plain == x["plain"], "PlainLess on %s / %s" % (ua, ub))


JUDGES = {"date": judge_date, "time": judge_time, "uuid": judge_uuid, "uuid100": judge_uuid100}


def judge(drv, st, crosscheck=True):
    """crosscheck=False (binding self-test only): skip the comparison of the specification's answer with Python's own
    integers / calendar, so that a deliberately corrupted answer reaches the comparison with the real code"""
    return JUDGES[st["fam"]](drv, st, crosscheck=crosscheck)


def verdict(devs):
    import json
    return sorted((d[0], json.dumps(_j(list(d[2].items())), sort_keys=True, default=repr)) for d in devs)
