"""Binding between spec/PoolV12.tla and the real HostConnectionPool (protocol v1/v2) / Connection / ResponseFuture.

One FakeNode speaking protocol v2, one simulated Cluster/Session, hence one HostConnectionPool whose sizing
(core / max connections, max / min requests per connection) is the spec's constants.  Same threading and grain
as harness/replay/pool.py (whose scheduling lock, conviction double and refusal exception are reused): client
calls, the executor tasks _create_new_connection / _retrying_replace and pool.shutdown() run as DetSched
logical threads suspended only before an outermost lock acquisition (and around connection_factory);
process_msg and socket errors run atomically on the main greenlet.  The pool's clock is virtual: it moves only
when the schedule says that _MIN_TRASH_INTERVAL has passed (and, per thread, by what that thread waited).
"""
from collections import deque

import greenlet                                                           # noqa: F401

from harness.sim import simcluster                                       # noqa: F401
from harness.sim.simcluster import SimWorld, FakeNode, make_cluster
from harness.sim.detsched import DetSched
from harness import wire
from harness.replay.pool import PLock, Verdict, HarnessRefusal

import cassandra
import cassandra.pool as cpool
from cassandra.connection import ConnectionShutdown
from cassandra.policies import FallthroughRetryPolicy, RoundRobinPolicy, HostDistance
from cassandra.cluster import ExecutionProfile, EXEC_PROFILE_DEFAULT, NoHostAvailable
from cassandra.query import SimpleStatement

V12_PUBLISH_AFTER_SHUTDOWN = "HostConnectionPool._add_conn_if_under_max:publishes-new-connection-after-shutdown"
LEAK_SIGNATURES = (V12_PUBLISH_AFTER_SHUTDOWN,)
TASK_LABELS = {"_create_new_connection": "create", "_retrying_replace": "replace"}


def _key():
    s = DetSched.current
    return s.active.name if s is not None and s.active is not None else None


class V12Clock:
    """`time` as seen by cassandra.pool."""

    def __init__(self, clock):
        self._clock = clock
        self.now = clock.now
        self.waited = {}

    def time(self):
        return self.now + self.waited.get(_key(), 0.0)

    def __getattr__(self, name):
        return getattr(self._clock, name)


class WaitCond:
    """_conn_available_condition: wait() never blocks, the waiting thread's own time advances."""

    def __init__(self, clock):
        self.clock = clock

    def __enter__(self):
        return True

    def __exit__(self, *a):
        pass

    def wait(self, timeout=None):
        k = _key()
        self.clock.waited[k] = self.clock.waited.get(k, 0.0) + (timeout if timeout else 1.0)
        return False

    def notify(self, n=1):
        pass

    def notify_all(self):
        pass


class V12Harness:
    CVARS = ("inflight", "reg", "owed", "closed", "defunct", "signaled")
    VARS = CVARS + ("conns", "trash", "openCount", "sched", "shutdown", "trashOk", "queued", "ntasks", "opened", "st", "on")

    def __init__(self, k):
        self.k = k
        self.nconns, self.ntasks = k["NConns"], k["NTasks"]
        self.req_names = sorted(k["Reqs"])
        self.world = SimWorld()
        self.node = self.world.add_node(FakeNode("10.0.0.1", versions=(1, 2, 3, 4)))
        profile = ExecutionProfile(load_balancing_policy=RoundRobinPolicy(), retry_policy=FallthroughRetryPolicy(),
                                   request_timeout=10.0)
        Verdict.down = False
        self.cluster = make_cluster(self.world, ["10.0.0.1"], protocol_version=2,
                                    execution_profiles={EXEC_PROFILE_DEFAULT: profile}, conviction_policy_factory=Verdict)
        c = self.cluster
        c._core_connections_per_host[HostDistance.LOCAL] = k["Core"]
        c._max_connections_per_host[HostDistance.LOCAL] = k["MaxConns"]
        c._max_requests_per_connection[HostDistance.LOCAL] = k["MaxReqs"]
        c._min_requests_per_connection[HostDistance.LOCAL] = k["MinReqs"]
        self.sched = DetSched()
        self.conns = []
        self._owner = {}
        self.took = {}
        orig_factory = c.connection_factory

        def factory(endpoint, *a, **kw):
            mine = kw.get("on_orphaned_stream_released") is not None
            if mine:
                self.sched.yield_point("opening")
            conn = orig_factory(endpoint, *a, **kw)
            if mine:
                self._adopt(conn)
                self.sched.yield_point("opened")
            return conn
        c.connection_factory = factory
        self.session = c.connect()
        c.executor.inline = False
        self.clock = V12Clock(self.world.clock)
        cpool.time = self.clock
        self.host = list(c.metadata.all_hosts())[0]
        self.pool = self.session._pools[self.host]
        if type(self.pool).__name__ != "HostConnectionPool":
            raise RuntimeError("protocol v2 session did not build a HostConnectionPool")
        self.pool._lock = PLock("pool")
        self.pool._conn_available_condition = WaitCond(self.clock)
        if len(self.conns) != k["Core"] or list(self.pool._connections) != self.conns:
            raise RuntimeError("pool did not open its core connections through the factory")
        self.futures, self.started, self.pick = {}, set(), {}
        self.tasks = []              # executor tasks of the pool in submission order (spec task id = index + 1)
        self.tphase = {}
        self.sphase = "none"

    def _adopt(self, c):
        idx = len(self.conns) + 1
        self.conns.append(c)
        c.max_request_id = self.k["MaxId"]
        c.request_ids = deque(range(1))
        c.highest_request_id = 0
        c.lock = PLock("conn%d" % idx)
        orig_get = c.get_request_id

        def get_request_id(idx=idx, orig_get=orig_get):
            i = orig_get()
            t = self.sched.current_thread()
            if t is not None and t.name.startswith("C"):
                r = int(t.name[1:])
                self._owner[(idx, i)] = r
                self.took[r] = idx
            return i
        c.get_request_id = get_request_id

    # ------------------------------------------------------------ threads
    def _run(self, name, stop, limit=400):
        n = 0
        while True:
            lab = self.sched.step(name)
            n += 1
            if lab == "end" or stop(lab):
                return lab
            if n > limit:
                raise HarnessRefusal("thread %s does not reach its next phase (last label %s)" % (name, lab))

    def _finish(self, name, limit=2000):
        t = self.sched.threads[name]
        n = 0
        while not t.done:
            self.sched.step(name)
            n += 1
            if n > limit:
                raise HarnessRefusal("thread %s does not finish" % name)

    def _client(self, r):
        f = self.session.execute_async(SimpleStatement("SELECT %d" % r), timeout=10.0)
        self.futures[r] = f
        return f

    def _scan_tasks(self):
        for t in self.cluster.executor.queue:
            if t.label in TASK_LABELS and t not in self.tasks:
                self.tasks.append(t)

    def do(self, act):
        name = act["name"]
        Verdict.down = bool(act["f"]) if name in ("Send", "ConnFails") else bool(self.pool.is_shutdown)
        getattr(self, "act_" + name)(act)
        self._scan_tasks()

    # ------------------------------------------------------------ actions
    def act_BorrowStart(self, a):
        r = a["r"]
        if r in self.started:
            raise HarnessRefusal("request %s already started" % r)
        self.sched.spawn("C%d" % r, self._client, r)
        self.started.add(r)
        lab = self._run("C%d" % r, lambda l: l.startswith("acq:"))
        if lab != "end":
            self.pick[r] = int(lab[len("acq:conn"):lab.index("@")]) if lab.startswith("acq:conn") else 0

    def act_BorrowTake(self, a):
        r = a["r"]
        t = self.sched.threads.get("C%d" % r)
        if t is None or t.done or r in self.took:
            raise HarnessRefusal("request %s is not between pick and take" % r)
        self._run("C%d" % r, lambda l: r in self.took and l.startswith("rel:conn"))
        self.pick.pop(r, None)

    def act_Send(self, a):
        r = a["r"]
        t = self.sched.threads.get("C%d" % r)
        if t is None or t.done or r not in self.took:
            raise HarnessRefusal("request %s holds no borrowed connection" % r)
        self._finish("C%d" % r)

    def act_Respond(self, a):
        conn = self.conns[a["c"] - 1]
        cands = [p for p in self.node.pending if p.conn is conn and p.req.get("query") == "SELECT %d" % a["r"]]
        if len(cands) != 1:
            raise HarnessRefusal("node owes %d answers to request %s on connection %s" % (len(cands), a["r"], a["c"]))
        self.node.respond_rows(cands[0], [("tag", wire.T_INT)], [[wire.w_int(a["r"])]])

    def act_ConnFails(self, a):
        c = self.conns[a["c"] - 1]
        if c.is_closed:
            raise HarnessRefusal("connection %s already closed" % a["c"])
        c.socket_error()

    def act_ClockAdvance(self, a):
        self.clock.now += 1000.0

    def _task(self, t, want):
        if t > len(self.tasks):
            raise HarnessRefusal("the pool has submitted %d tasks, not %d" % (len(self.tasks), t))
        ph = self.tphase.get(t, "queued" if self.tasks[t - 1] in self.cluster.executor.queue else "none")
        if ph != want:
            raise HarnessRefusal("task %d is in phase %s, not %s" % (t, ph, want))
        return self.tasks[t - 1]

    def act_TaskCheck(self, a):
        t = a["r"]
        task = self._task(t, "queued")
        self.sched.spawn("T%d" % t, self.cluster.executor.run, task)
        lab = self._run("T%d" % t, lambda l: l == "opening")
        self.tphase[t] = "none" if lab == "end" else "open"

    def act_TaskOpen(self, a):
        t = a["r"]
        self._task(t, "open")
        if a["f"]:
            lab = self._run("T%d" % t, lambda l: l == "acq:pool@_add_conn_if_under_max")
            self.tphase[t] = "none" if lab == "end" else "publish"
        else:
            self.node.accepting = False
            try:
                self._finish("T%d" % t)
            finally:
                self.node.accepting = True
            self.tphase[t] = "none"

    def act_TaskPublish(self, a):
        t = a["r"]
        self._task(t, "publish")
        self._finish("T%d" % t)
        self.tphase[t] = "none"

    def act_ShutdownMark(self, a):
        if self.sphase != "none":
            raise HarnessRefusal("shutdown() already running")
        self.sched.spawn("S", self.pool.shutdown)
        lab = self._run("S", lambda l: l == "rel:pool@shutdown")
        self.sphase = "done" if lab == "end" else "marked"

    def act_ShutdownClose(self, a):
        if self.sphase != "marked":
            raise HarnessRefusal("shutdown() is in phase %s" % self.sphase)
        self._finish("S")
        self.sphase = "done"

    def repair(self, signature, info):
        Verdict.down = True
        if signature == V12_PUBLISH_AFTER_SHUTDOWN:
            new = self.conns[info["new"] - 1]
            self.pool._connections = [c for c in self.pool._connections if c is not new]
            self.pool.open_count -= 1
            new.close()
            return True
        return False

    # ------------------------------------------------------------ projection
    def project(self):
        out = {k: {} for k in self.CVARS}
        for i in range(1, self.nconns + 1):
            if i <= len(self.conns):
                c = self.conns[i - 1]
                out["inflight"][i] = c.in_flight
                out["reg"][i] = frozenset(self._owner.get((i, s), "?%s" % s) for s in c._requests)
                out["owed"][i] = frozenset(int(p.req["query"].split()[1]) for p in self.node.pending
                                           if p.conn is c and p.req.get("op") == "QUERY")
                out["closed"][i], out["defunct"][i], out["signaled"][i] = bool(c.is_closed), bool(c.is_defunct), bool(c.signaled_error)
            else:
                out["inflight"][i], out["reg"][i], out["owed"][i] = 0, frozenset(), frozenset()
                out["closed"][i] = out["defunct"][i] = out["signaled"][i] = False
        p = self.pool
        idx = lambda c: self.conns.index(c) + 1 if c in self.conns else -1       # noqa: E731
        out["conns"] = tuple(idx(c) for c in p._connections)
        out["trash"] = frozenset(idx(c) for c in p._trash if not c.is_closed)
        out["shutdown"] = bool(p.is_shutdown)
        out["openCount"] = None if p.is_shutdown else p.open_count          # bookkeeping, meaningless once shut down
        out["sched"] = p._scheduled_for_creation
        out["trashOk"] = bool(self.clock.now >= p._next_trash_allowed_at)
        self._scan_tasks()
        out["queued"] = frozenset(i + 1 for i, t in enumerate(self.tasks) if t in self.cluster.executor.queue)
        out["ntasks"] = len(self.tasks)
        out["opened"] = len(self.conns)
        st, on = {}, {}
        for r in self.req_names:
            on[r] = self.took.get(r, self.pick.get(r, 0))
            if r not in self.started:
                st[r] = "new"
                continue
            t = self.sched.threads["C%d" % r]
            f = self.futures.get(r)
            if not t.done or f is None:
                st[r] = "borrowed" if r in self.took else "picked"
                continue
            e = f._final_exception
            if e is not None:
                if isinstance(e, ConnectionShutdown):
                    st[r] = "errored"
                elif isinstance(e, NoHostAvailable):
                    errs = list(getattr(e, "errors", {}).values())
                    st[r] = "refused" if errs and isinstance(errs[0], ConnectionShutdown) else "nohost"
                else:
                    st[r] = "exc:" + type(e).__name__
            elif f._final_result is not cassandra.cluster._NOT_SET:
                st[r] = "done"
            else:
                st[r] = "sent"
        out["st"], out["on"] = st, on
        return out

    def open_pool_connections(self):
        return [i for i, c in enumerate(self.conns, 1) if not c.is_closed]

    def teardown(self):
        for name, t in list(self.sched.threads.items()):
            if not t.done:
                t.done = True
                try:
                    t.g.throw(greenlet.GreenletExit)
                except Exception:
                    pass
        try:
            self.cluster.executor.queue[:] = []
            self.cluster.shutdown()
        except Exception:
            pass


def _fn(v):
    if isinstance(v, tuple):
        return {i + 1: x for i, x in enumerate(v)}
    return dict(v)


def spec_view(s):
    out = {}
    for k in ("inflight", "closed", "defunct", "signaled", "st", "on"):
        out[k] = _fn(s[k])
    for k in ("reg", "owed"):
        out[k] = {i: frozenset(x) for i, x in _fn(s[k]).items()}
    p = s["pool"]
    out["conns"], out["trash"] = tuple(p["conns"]), frozenset(p["trash"])
    out["shutdown"], out["sched"], out["trashOk"] = p["shutdown"], p["sched"], p["trashOk"]
    out["openCount"] = None if p["shutdown"] else p["openCount"]
    tasks = _fn(p["tasks"])
    out["queued"] = frozenset(t for t, rec in tasks.items() if rec["ph"] == "queued")
    out["ntasks"], out["opened"] = p["ntasks"], s["opened"]
    return out


def diff(spec, real):
    return {k: {"spec": spec[k], "code": real[k]} for k in V12Harness.VARS if spec[k] != real[k]}


def classify(act, prev, d):
    if act["name"] == "TaskPublish" and prev["pool"]["shutdown"]:
        return V12_PUBLISH_AFTER_SHUTDOWN
    return "replay:v12:%s:%s" % (act["name"], ",".join(sorted(d)))


def other_choice(act, prev, d, real, k):
    """The specification leaves open which of the least busy connections a borrow picks; did the code just
    resolve that choice differently from the behaviour being replayed (and legally)?"""
    if act["name"] not in ("BorrowStart", "BorrowTake") or "on" not in d:
        return False
    r = act["r"]
    pv = spec_view(prev)
    conns, infl, got = pv["conns"], pv["inflight"], real["on"][r]
    if not conns or got not in conns:
        return False
    least = {c for c in conns if infl[c] == min(infl[x] for x in conns)}
    if act["name"] == "BorrowStart":
        return set(d) <= {"on"} and got in least and real["st"][r] == "picked"
    c = pv["on"][r]
    if c != 0 and infl[c] < k["MaxId"]:
        return False                     # the picked connection had room: no choice to make
    return set(d) <= {"on", "inflight"} and got in least and infl[got] < k["MaxId"] and real["st"][r] == "borrowed"


def harness_act(act):
    """Spec action record -> harness action (tasks are named in field r)."""
    return act


def replay(constants, states, repair=True):
    h = V12Harness(constants)
    met = []
    try:
        d = diff(spec_view(states[0]), h.project())
        if d:
            return {"step": 0, "action": {"name": "Init"}, "diff": d, "signature": "replay:v12:Init"}, met
        for i, s in enumerate(states[1:], 1):
            act = dict(s["act"])
            try:
                h.do(act)
            except HarnessRefusal as ex:
                return {"step": i, "action": act, "signature": "replay:v12:%s:refused" % act["name"],
                        "diff": {"_refused": {"spec": "enabled", "code": str(ex)}}}, met
            except Exception as ex:
                return {"step": i, "action": act, "signature": "replay:v12:%s:exception:%s" % (act["name"], type(ex).__name__),
                        "diff": {"_exception": {"spec": "no exception", "code": "%s: %s" % (type(ex).__name__, ex)}}}, met
            sv = spec_view(s)
            real = h.project()
            d = diff(sv, real)
            if d and other_choice(act, states[i - 1], d, real, constants):
                return {"step": i, "action": act, "choice": True, "diff": d, "signature": "choice"}, met
            if d:
                sig = classify(act, states[i - 1], d)
                rec = {"step": i, "action": act, "diff": d, "signature": sig}
                if repair and sig in LEAK_SIGNATURES:
                    rec["repair"] = {"new": _fn(states[i - 1]["pool"]["tasks"])[act["r"]]["new"]}
                    try:
                        h.repair(sig, rec["repair"])
                    except Exception as ex:
                        rec["repair_failed"] = "%s: %s" % (type(ex).__name__, ex)
                        return rec, met
                    d2 = diff(sv, h.project())
                    if d2:
                        rec["after_repair"] = d2
                        rec["signature"] = sig + "+other"
                        return rec, met
                    met.append(rec)
                    continue
                return rec, met
        return None, met
    finally:
        h.teardown()


# ---------------------------------------------------------------------- recording (code -> spec)
def _post(p, reqs, n):
    rng = range(1, n + 1)
    return {"inflight": [p["inflight"][i] for i in rng], "reg": [sorted(p["reg"][i], key=str) for i in rng],
            "owed": [sorted(p["owed"][i]) for i in rng], "closed": [p["closed"][i] for i in rng],
            "defunct": [p["defunct"][i] for i in rng], "signaled": [p["signaled"][i] for i in rng],
            "conns": list(p["conns"]), "trash": sorted(p["trash"]), "openCount": -1 if p["openCount"] is None else p["openCount"],
            "sched": p["sched"], "shutdown": p["shutdown"], "trashOk": p["trashOk"], "queued": sorted(p["queued"]),
            "ntasks": p["ntasks"], "opened": p["opened"], "st": [p["st"][r] for r in reqs], "on": [p["on"][r] for r in reqs]}


def record(constants, rng, max_events=60, p_fail=0.08, p_shutdown=0.06):
    reqs = sorted(constants["Reqs"])
    n = constants["NConns"]
    h = V12Harness(constants)
    events = []
    fails = cfails = 0
    try:
        while len(events) < max_events:
            ops = []
            for r in reqs:
                t = h.sched.threads.get("C%d" % r)
                f = h.futures.get(r)
                if r not in h.started:
                    ops += [{"e": "BorrowStart", "r": r}] * 2
                elif not t.done and r not in h.took:
                    if h.pick.get(r, 0) != 0 or len(h.tasks) < constants["NTasks"]:
                        ops += [{"e": "BorrowTake", "r": r}] * 2
                elif not t.done:
                    c = h.conns[h.took[r] - 1]
                    if not c.is_closed:
                        down = False
                    elif c.signaled_error or h.pool.is_shutdown:
                        down = bool(h.pool.is_shutdown)
                    else:
                        down = rng.random() < 0.4
                    if len(h.tasks) < constants["NTasks"]:
                        ops += [{"e": "Send", "r": r, "f": down}] * 2
            for p in h.node.pending:
                if p.conn in h.conns and not p.conn.is_closed and p.req.get("op") == "QUERY":
                    ops.append({"e": "Respond", "c": h.conns.index(p.conn) + 1, "r": int(p.req["query"].split()[1])})
            publishing = [h.tasks[t - 1] for t, ph in h.tphase.items() if ph == "publish"]
            if cfails < constants["MaxConnFails"] and rng.random() < p_fail and len(h.tasks) < constants["NTasks"]:
                for i, c in enumerate(h.conns, 1):
                    if not c.is_closed and not (publishing and i == len(h.conns)):
                        down = False if not c._requests else (True if h.pool.is_shutdown else rng.random() < 0.4)
                        ops.append({"e": "ConnFails", "c": i, "f": down})
            if h.clock.now < h.pool._next_trash_allowed_at and rng.random() < 0.3:
                ops.append({"e": "ClockAdvance"})
            for i, task in enumerate(h.tasks, 1):
                ph = h.tphase.get(i, "queued" if task in h.cluster.executor.queue else "none")
                if ph == "queued":
                    ops += [{"e": "TaskCheck", "r": i}] * 3
                elif ph == "open":
                    if len(h.conns) < n:
                        ops += [{"e": "TaskOpen", "r": i, "f": True}] * 3
                    if fails < constants["MaxFails"] and (TASK_LABELS[task.label] == "create" or len(h.tasks) < constants["NTasks"]):
                        ops.append({"e": "TaskOpen", "r": i, "f": False})
                elif ph == "publish":
                    ops += [{"e": "TaskPublish", "r": i}] * 3
            if h.sphase == "none" and not h.pool.is_shutdown and rng.random() < p_shutdown:
                ops.append({"e": "ShutdownMark"})
            elif h.sphase == "marked":
                ops += [{"e": "ShutdownClose"}] * 2
            if not ops:
                break
            ev = dict(rng.choice(ops))
            act = {"name": ev["e"], "r": ev.get("r", 0), "c": ev.get("c", 0), "f": ev.get("f", False)}
            try:
                h.do(act)
                if ev["e"] == "ConnFails":
                    cfails += 1
                if ev["e"] == "TaskOpen" and not ev["f"]:
                    fails += 1
                ev["post"] = _post(h.project(), reqs, n)
            except Exception as ex:
                events.append({"e": "Anomaly", "during": {k: v for k, v in ev.items() if k != "post"},
                               "what": "%s: %s" % (type(ex).__name__, ex)})
                break
            events.append(ev)
        return events
    finally:
        h.teardown()


def classify_event(ev, before):
    e = ev.get("e")
    if e == "Anomaly":
        return "trace:v12:Anomaly:%s" % ev.get("during", {}).get("e")
    if e == "TaskPublish" and before is not None and before["shutdown"]:
        return V12_PUBLISH_AFTER_SHUTDOWN
    return "trace:v12:%s" % e
