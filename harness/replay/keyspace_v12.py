"""Binding between spec/SessionKeyspaceV12.tla and the real Session / HostConnectionPool (protocol v2) / Connection.

A simulated protocol-v2 cluster with one FakeNode per pool and NConn core connections per host.  A real
ResponseFuture executes `USE ks2`; the node answers SET_KEYSPACE, the pools fan the USE out over all their
connections (queries appear in the nodes' pending lists, one per connection) and the behaviour answers them in
its order with its outcomes.  All steps are loop-thread callbacks, run atomically on the main greenlet.
"""
from harness.sim import simcluster                                       # noqa: F401
from harness.sim.simcluster import SimWorld, FakeNode, make_cluster
from harness import wire

import cassandra
from cassandra.policies import FallthroughRetryPolicy, RoundRobinPolicy, ConvictionPolicy, HostDistance
from cassandra.cluster import ExecutionProfile, EXEC_PROFILE_DEFAULT

NEW = "ks2"


class HarnessRefusal(Exception):
    pass


class NeverConvict(ConvictionPolicy):
    def add_failure(self, connection_exc):
        return False

    def reset(self):
        pass


def _fn(v):
    if isinstance(v, tuple):
        return {i + 1: x for i, x in enumerate(v)}
    return dict(v)


class KsV12Harness:
    VARS = ("completions", "result", "connks", "outstanding")

    def __init__(self, outcome):
        """outcome: {host: {slot: outcome}} (spec's Init)."""
        self.outcome = {h: dict(v) for h, v in outcome.items()}
        self.nh = len(outcome)
        self.nc = len(next(iter(outcome.values())))
        self.world = SimWorld()
        self.addr = {h: "10.0.0.%d" % h for h in range(1, self.nh + 1)}
        self.nodes = {h: self.world.add_node(FakeNode(self.addr[h], tokens=["%02x" % (h * 16)], versions=(1, 2, 3, 4)))
                      for h in self.addr}
        profile = ExecutionProfile(load_balancing_policy=RoundRobinPolicy(), retry_policy=FallthroughRetryPolicy(),
                                   request_timeout=10.0)
        self.cluster = make_cluster(self.world, [self.addr[h] for h in sorted(self.addr)], protocol_version=2,   # v2 peers rows of the simulated node are not decodable: every host is a contact point
                                    execution_profiles={EXEC_PROFILE_DEFAULT: profile}, conviction_policy_factory=NeverConvict)
        self.cluster._core_connections_per_host[HostDistance.LOCAL] = self.nc
        self.cluster._max_connections_per_host[HostDistance.LOCAL] = max(self.nc, 2)
        self.session = self.cluster.connect()
        self.cluster.executor.inline = False
        hosts = {x.endpoint.address: x for x in self.cluster.metadata.all_hosts()}
        self.host = {h: hosts[self.addr[h]] for h in self.addr}
        self.pool = {h: self.session._pools[self.host[h]] for h in self.addr}
        self.conns = {}
        for h, pool in self.pool.items():
            if type(pool).__name__ != "HostConnectionPool" or len(pool._connections) != self.nc:
                raise RuntimeError("pool %d is not a HostConnectionPool with %d connections" % (h, self.nc))
            self.conns[h] = {i + 1: c for i, c in enumerate(pool._connections)}       # slot = position in the pool's list
        self.cbs = self.ebs = 0
        self.exc = None
        self.fut = None

    def _use_pending(self, h, i=None):
        out = []
        for x in self.nodes[h].pending:
            if x.req.get("op") == "QUERY" and x.req.get("query", "").upper().startswith("USE"):
                if i is None or x.conn is self.conns[h][i]:
                    out.append(x)
        return out

    def do(self, act):
        getattr(self, "act_" + act["name"])(act)

    def act_Start(self, a):
        self.fut = self.session.execute_async("USE %s" % NEW, host=self.host[1])
        self.fut.add_callbacks(self._cb, self._eb)
        pend = self._use_pending(1)
        if len(pend) != 1:
            raise HarnessRefusal("the USE statement did not reach node 1")
        self.nodes[1].respond(pend[0], wire.RESULT, wire.body_set_keyspace(NEW))

    def _cb(self, res):
        self.cbs += 1

    def _eb(self, exc):
        self.ebs += 1
        self.exc = exc

    def act_ConnFinish(self, a):
        h, i = a["h"], a["i"]
        pend = self._use_pending(h, i)
        if len(pend) != 1:
            raise HarnessRefusal("connection %d of pool %d has %d USE queries outstanding" % (i, h, len(pend)))
        x, node, o = pend[0], self.nodes[h], self.outcome[h][i]
        if o == "ok":
            node.respond(x, wire.RESULT, wire.body_set_keyspace(NEW))
        elif o == "invalid":
            node.respond_error(x, wire.ERR_INVALID, "Keyspace '%s' does not exist" % NEW)
        elif o == "srverr":
            node.respond_error(x, wire.ERR_SERVER, "boom")
        elif o == "died":
            x.conn.socket_error()
        else:
            raise HarnessRefusal("unknown outcome %s" % o)

    def project(self):
        f = self.fut
        result = "none"
        if f is not None:
            if f._final_exception is not None:
                result = "error"
            elif f._final_result is not cassandra.cluster._NOT_SET:
                result = "ok"
        connks = {}
        for h in self.conns:
            connks[h] = {}
            for i, c in self.conns[h].items():
                connks[h][i] = "none" if (c.is_closed or c.is_defunct) else ("new" if c.keyspace == NEW else "old")
        outstanding = frozenset((h, i) for h in self.conns for i in self.conns[h] if self._use_pending(h, i))
        return {"completions": self.cbs + self.ebs, "result": result, "connks": connks, "outstanding": outstanding}

    def teardown(self):
        try:
            self.cluster.executor.queue[:] = []
            self.cluster.shutdown()
        except Exception:
            pass


def spec_view(s):
    return {"completions": s["completions"], "result": s["result"],
            "connks": {h: _fn(v) for h, v in _fn(s["connks"]).items()},
            "outstanding": frozenset(tuple(x) for x in s["asked"])}


def config_of(s0):
    return {h: _fn(v) for h, v in _fn(s0["outcome"]).items()}


def diff(spec, real):
    return {k: {"spec": spec[k], "code": real[k]} for k in KsV12Harness.VARS if spec[k] != real[k]}


def replay(states):
    """Replay one behaviour; returns the first divergence or None."""
    try:
        h = KsV12Harness(config_of(states[0]))
    except Exception as ex:
        return {"step": 0, "action": {"name": "Init", "h": 0, "i": 0}, "signature": "replay:v12ks:Init:%s" % type(ex).__name__,
                "diff": {"_setup": {"spec": "configuration", "code": "%s: %s" % (type(ex).__name__, ex)}}}
    try:
        for i, s in enumerate(states):
            act = dict(s["act"])
            if i > 0:
                try:
                    h.do(act)
                except HarnessRefusal as ex:
                    return {"step": i, "action": act, "signature": "replay:v12ks:%s:refused" % act["name"],
                            "diff": {"_refused": {"spec": "enabled", "code": str(ex)}}}
                except Exception as ex:
                    return {"step": i, "action": act, "signature": "replay:v12ks:%s:exception:%s" % (act["name"], type(ex).__name__),
                            "diff": {"_exception": {"spec": "no exception", "code": "%s: %s" % (type(ex).__name__, ex)}}}
            d = diff(spec_view(s), h.project())
            if d:
                return {"step": i, "action": act, "diff": d,
                        "signature": "replay:v12ks:%s:%s" % (act["name"], ",".join(sorted(d)))}
        return None
    finally:
        h.teardown()


def record(nh, nc, rng):
    """A random configuration and completion order driven on the real objects (first event: Config)."""
    outcome = {h: {i: rng.choice(["ok", "ok", "ok", "invalid", "srverr", "died"]) for i in range(1, nc + 1)} for h in range(1, nh + 1)}
    h = KsV12Harness(outcome)

    def post():
        p = h.project()
        return {"completions": p["completions"], "result": p["result"],
                "connks": [[p["connks"][a][b] for b in range(1, nc + 1)] for a in range(1, nh + 1)],
                "outstanding": sorted(list(x) for x in p["outstanding"])}
    events = [{"e": "Config", "outcome": [[outcome[a][b] for b in range(1, nc + 1)] for a in range(1, nh + 1)], "post": post()}]
    try:
        h.do({"name": "Start", "h": 0, "i": 0})
        events.append({"e": "Start", "h": 0, "i": 0, "post": post()})
        while True:
            out = sorted(h.project()["outstanding"])
            if not out:
                break
            a, b = rng.choice(out)
            h.do({"name": "ConnFinish", "h": a, "i": b})
            events.append({"e": "ConnFinish", "h": a, "i": b, "post": post()})
        return events
    except Exception as ex:
        events.append({"e": "Anomaly", "h": 0, "i": 0, "what": "%s: %s" % (type(ex).__name__, ex)})
        return events
    finally:
        h.teardown()
