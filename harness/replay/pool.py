"""Binding between spec/Pool.tla and the real HostConnection / Connection / ResponseFuture.

One FakeNode, one simulated Cluster/Session (protocol v4), hence one HostConnection pool.  Every connection
the pool opens goes through a wrapper of cluster.connection_factory that shrinks its id space and orphan
threshold to the spec's constants and replaces its lock by a scheduling lock.

Threads (spec/Pool.tla header): client calls (execute_async), the _replace executor task and pool.shutdown()
run as DetSched logical threads; loop-thread callbacks (process_msg, _on_timeout, socket error) are invoked
atomically from the main greenlet.  A logical thread is suspended only *outside* critical sections (before an
outermost lock acquisition, after an outermost release, after connection_factory returned), so one spec action
= one outermost critical section plus the lock-free code up to the next one.  Yield labels carry the name of
the driver function that takes the lock ("acq:pool@shutdown"), which keeps the binding independent of line
numbers.
"""
import sys
from collections import deque

import greenlet

from harness.sim import simcluster                                       # noqa: F401  (installs the shim)
from harness.sim.simcluster import SimWorld, FakeNode, make_cluster
from harness.sim.simconn import SimCondition
from harness.sim.detsched import DetSched
from harness import wire

import cassandra
import cassandra.pool as cpool
from cassandra.connection import ConnectionShutdown
from cassandra.policies import FallthroughRetryPolicy, RoundRobinPolicy, ConvictionPolicy
from cassandra.cluster import ExecutionProfile, EXEC_PROFILE_DEFAULT, NoHostAvailable
from cassandra.query import SimpleStatement

_HARNESS_DIR = __file__.rsplit("/", 2)[0]        # .../harness


class HarnessRefusal(Exception):
    """The real objects cannot perform the step the specification takes (a divergence, not a crash)."""


def _caller():
    """Name of the driver function taking the lock; a re-entered function (shutdown() called from a
    callback running inside shutdown()) is marked '^2'."""
    f = sys._getframe(2)
    while f is not None and f.f_code.co_filename.startswith(_HARNESS_DIR):
        f = f.f_back
    if f is None:
        return "?"
    code, n, g = f.f_code, 0, f
    while g is not None:
        if g.f_code is code:
            n += 1
        g = g.f_back
    return code.co_name if n == 1 else "%s^%d" % (code.co_name, n)


class PLock:
    """Re-entrant lock for DetSched logical threads.  Yields before an *outermost* acquisition and after an
    *outermost* release only (a thread never waits while it holds a lock), with labels
    'acq:<name>@<function>' / 'rel:<name>@<function>'.  From the main greenlet it only counts."""

    def __init__(self, name):
        self.name = name
        self.owner = None
        self.count = 0

    @staticmethod
    def _me():
        s = DetSched.current
        if s is None or s.active is None or greenlet.getcurrent() is not s.active.g:
            return None
        return s.active

    def _can_acquire(self, t):
        return self.owner is None or self.owner is t

    def acquire(self, blocking=True, timeout=-1):
        me = self._me()
        if me is None:
            if self.owner is not None:
                raise RuntimeError("lock %s held by suspended logical thread %s" % (self.name, self.owner))
            self.count += 1
            return True
        held = getattr(me, "held", 0)
        if self.owner is not me:
            if held == 0 and me.atomic == 0:
                me.waiting_for = self
                DetSched.current.yield_point("acq:%s@%s" % (self.name, _caller()))
                me.waiting_for = None
            if self.owner is not None:
                raise RuntimeError("scheduler resumed a thread on a held lock")
            me.held = held + 1
            self.owner = me
        self.count += 1
        return True

    def release(self):
        me = self._me()
        if me is None or self.owner is not me:
            self.count -= 1
            return
        self.count -= 1
        if self.count == 0:
            self.owner = None
            me.held -= 1
            if me.held == 0 and me.atomic == 0:
                DetSched.current.yield_point("rel:%s@%s" % (self.name, _caller()))

    __enter__ = acquire

    def __exit__(self, *a):
        self.release()

    def locked(self):
        return self.count > 0


class TickClock:
    """`time` as seen by cassandra.pool: a per-thread virtual time that advances a little with every reading.
    The spin in borrow_connection (a retired connection that is still the current one) then ends as it does
    in real time, and a borrow suspended between pick and take does not time out because *other* threads
    were scheduled meanwhile (the specification has no borrow timeout between the two steps)."""

    def __init__(self, clock, tick=0.5):
        self._clock, self._tick, self._base = clock, tick, clock.now
        self._reads = {}

    def time(self):
        s = DetSched.current
        key = s.active.name if s is not None and s.active is not None else None
        n = self._reads.get(key, 0)
        self._reads[key] = n + 1
        return self._base + n * self._tick

    def __getattr__(self, name):
        return getattr(self._clock, name)


class Verdict(ConvictionPolicy):
    """Conviction policy whose verdict the schedule chooses."""
    down = False

    def add_failure(self, connection_exc):
        return Verdict.down

    def reset(self):
        pass


A_SHUTDOWN_TRASH = "HostConnection.shutdown:trashed-connections-not-closed"
B_PUBLISH_AFTER_SHUTDOWN = "HostConnection._replace:publishes-new-connection-after-shutdown"
C_DEAD_OLD_CLEARS_CURRENT = "HostConnection.return_connection:dead-old-connection-clears-current"
D_RETIRE_AFTER_SHUTDOWN = "HostConnection._replace:old-connection-kept-open-after-shutdown"
E_REPLACE_NOT_CURRENT = "HostConnection.borrow_connection:replace-submitted-for-a-connection-that-is-no-longer-current"
LEAK_SIGNATURES = (A_SHUTDOWN_TRASH, B_PUBLISH_AFTER_SHUTDOWN, C_DEAD_OLD_CLEARS_CURRENT, D_RETIRE_AFTER_SHUTDOWN,
                   E_REPLACE_NOT_CURRENT)


def establish_keyspace(session, nodes, keyspace):
    """session.set_keyspace() driven step by step: every USE is answered from the top level, as a reactor would
    (answering inside push() would re-enter process_io_buffer and process a frame twice)."""
    fut = session.execute_async("USE %s" % keyspace)
    for _ in range(100):
        pend = [(n, p) for n in nodes for p in n.pending if p.req.get("query", "").upper().startswith("USE")]
        if not pend:
            break
        n, p = pend[0]
        n.respond(p, wire.RESULT, wire.body_set_keyspace(keyspace))
    if fut._final_exception is not None or fut._final_result is cassandra.cluster._NOT_SET or session.keyspace != keyspace:
        raise RuntimeError("could not establish the session keyspace %r" % keyspace)


class PoolHarness:
    CVARS = ("inflight", "orph", "reg", "owed", "thr", "closed", "defunct", "signaled")
    VARS = CVARS + ("cur", "trash", "replacing", "shutdown", "queued", "opened", "st", "on")

    def __init__(self, constants):
        self.k = constants
        self.max_id, self.threshold = constants["MaxId"], constants["Threshold"]
        self.nconns = constants["NConns"]
        self.ks = bool(constants.get("Ks", False))
        self.req_names = sorted(constants["Reqs"])
        self.world = SimWorld()
        self.node = self.world.add_node(FakeNode("10.0.0.1"))
        profile = ExecutionProfile(load_balancing_policy=RoundRobinPolicy(), retry_policy=FallthroughRetryPolicy(),
                                   request_timeout=10.0)
        Verdict.down = False
        self.cluster = make_cluster(self.world, ["10.0.0.1"], execution_profiles={EXEC_PROFILE_DEFAULT: profile},
                                    conviction_policy_factory=Verdict)
        self.sched = DetSched()
        self.conns = []             # connections of the pool in the order they were opened (spec id = index + 1)
        self._owner = {}            # (conn index, stream id) -> request that borrowed it last
        self.took = {}              # request -> conn index it borrowed
        orig_factory = self.cluster.connection_factory

        def factory(endpoint, *a, **kw):
            mine = kw.get("on_orphaned_stream_released") is not None
            if mine:
                self.sched.yield_point("opening")
            conn = orig_factory(endpoint, *a, **kw)
            if mine:
                self._adopt(conn)
                orig_skb = conn.set_keyspace_blocking

                def set_keyspace_blocking(keyspace, orig_skb=orig_skb):
                    # the USE round trip on a connection the pool has not published yet: answered at once by the
                    # node, but a step of its own for the schedule (the thread is parked when it returns)
                    self.node.auto = True
                    try:
                        orig_skb(keyspace)
                    finally:
                        self.node.auto = False
                    self.sched.yield_point("use:done")
                conn.set_keyspace_blocking = set_keyspace_blocking
                self.sched.yield_point("opened")
            return conn
        self.cluster.connection_factory = factory
        self.session = self.cluster.connect()
        if self.ks:
            establish_keyspace(self.session, [self.node], "ks")
        self.cluster.executor.inline = False
        cpool.time = TickClock(self.world.clock)
        self.host = list(self.cluster.metadata.all_hosts())[0]
        self.pool = self.session._pools[self.host]
        self.pool._lock = PLock("pool")
        self.pool._stream_available_condition = SimCondition(self.pool._lock)
        if len(self.conns) != 1 or self.pool._connection is not self.conns[0]:
            raise RuntimeError("pool did not open exactly one connection through the factory")
        if self.ks and not (self.pool._keyspace == "ks" and self.conns[0].keyspace == "ks" and self.conns[0].in_flight == 0):
            raise RuntimeError("session keyspace was not established on the pool")
        self.futures = {}
        self.started = set()
        self.pick = {}
        self.marking = set()        # borrowers parked between reading _connection and the pool lock
        self.late = 0               # connection whose late response the loop thread is in the middle of
        self.tphase = None          # phase of the running _replace thread: open / publish / retire
        self.tname = None
        self.tcount = 0
        self.sphase = "none"
        self.closes_seen = {}

    def _adopt(self, c):
        idx = len(self.conns) + 1
        self.conns.append(c)
        if c.in_flight != 0:
            raise RuntimeError("fresh pool connection has requests in flight")
        c.max_request_id = self.max_id
        c.request_ids = deque(range(1))
        c.highest_request_id = 0
        c.orphaned_threshold = self.threshold
        c.lock = PLock("conn%d" % idx)
        orig_get = c.get_request_id

        def get_request_id(idx=idx, orig_get=orig_get):
            i = orig_get()
            t = self.sched.current_thread()
            if t is not None and t.name.startswith("C"):
                r = int(t.name[1:])
                self._owner[(idx, i)] = r
                self.took[r] = idx
            return i
        c.get_request_id = get_request_id

    # ------------------------------------------------------------ running logical threads
    def _run(self, name, stop, limit=400):
        n = 0
        while True:
            lab = self.sched.step(name)
            n += 1
            if lab == "end" or stop(lab):
                return lab
            if n > limit:
                raise HarnessRefusal("thread %s does not reach its next phase (last label %s)" % (name, lab))

    def _finish(self, name, limit=2000):
        n = 0
        t = self.sched.threads[name]
        while not t.done:
            self.sched.step(name)
            n += 1
            if n > limit:
                raise HarnessRefusal("thread %s does not finish" % name)

    def _client(self, r):
        f = self.session.execute_async(SimpleStatement("SELECT %d" % r), timeout=10.0)
        self.futures[r] = f
        return f

    def _set_verdict(self, down=None):
        Verdict.down = bool(self.pool.is_shutdown) if down is None else bool(down)

    # ------------------------------------------------------------ actions
    def do(self, act):
        name = act["name"]
        if name not in ("Send", "ConnFails"):
            self._set_verdict()
        getattr(self, "act_" + name)(act)

    def act_BorrowStart(self, a):
        r = a["r"]
        if r in self.started:
            raise HarnessRefusal("request %s already started" % r)
        self.sched.spawn("C%d" % r, self._client, r)
        self.started.add(r)
        # the first lock borrow_connection goes for: the pool lock (threshold reached) or the picked connection's
        lab = self._run("C%d" % r, lambda l: l.startswith("acq:") and l.endswith("@borrow_connection"))
        if lab.startswith("acq:pool"):
            cur = self.pool._connection          # what _get_connection() just returned to the parked borrower
            self.pick[r] = self.conns.index(cur) + 1 if cur in self.conns else -1
            self.marking.add(r)
        elif lab != "end":
            self.pick[r] = int(lab[len("acq:conn"):lab.index("@")])

    def act_BorrowMark(self, a):
        r = a["r"]
        t = self.sched.threads.get("C%d" % r)
        if t is None or t.done or r not in self.marking:
            raise HarnessRefusal("request %s is not waiting for the pool lock in borrow_connection" % r)
        self._run("C%d" % r, lambda l: l.startswith("acq:conn") and l.endswith("@borrow_connection"))
        self.marking.discard(r)

    def act_BorrowTake(self, a):
        r = a["r"]
        t = self.sched.threads.get("C%d" % r)
        if t is None or t.done or r in self.took or r in self.marking:
            raise HarnessRefusal("request %s is not between pick and take" % r)
        self._run("C%d" % r, lambda l: r in self.took and l.startswith("rel:conn") and l.endswith("@borrow_connection"))
        self.pick.pop(r, None)

    def act_Send(self, a):
        r = a["r"]
        t = self.sched.threads.get("C%d" % r)
        if t is None or t.done or r not in self.took:
            raise HarnessRefusal("request %s holds no borrowed connection" % r)
        self._set_verdict(a["f"])
        self._finish("C%d" % r)

    def _pending(self, c, q):
        if not 1 <= c <= len(self.conns):
            raise HarnessRefusal("the pool has opened %d connections, there is no connection %s" % (len(self.conns), c))
        conn = self.conns[c - 1]
        cands = [p for p in self.node.pending if p.conn is conn and p.req.get("query") == "SELECT %d" % q]
        if len(cands) != 1:
            raise HarnessRefusal("node owes %d answers to request %s on connection %s" % (len(cands), q, c))
        return cands[0]

    def act_Respond(self, a):
        p = self._pending(a["c"], a["r"])
        self.node.respond_rows(p, [("tag", wire.T_INT)], [[wire.w_int(a["r"])]])

    def act_LateStart(self, a):
        """The loop thread handles a late answer: as a logical thread, up to the end of the critical section on the
        connection's lock in which process_msg releases the orphaned stream."""
        p = self._pending(a["c"], a["r"])
        if self.late:
            raise HarnessRefusal("the loop thread is still inside another late response")
        self.lcount = getattr(self, "lcount", 0) + 1
        self.lname = "L%d" % self.lcount
        self.sched.spawn(self.lname, self.node.respond_rows, p, [("tag", wire.T_INT)], [[wire.w_int(a["r"])]])
        self._run(self.lname, lambda l: l == "rel:conn%d@process_msg" % a["c"])
        self.late = a["c"]

    def act_LateFinish(self, a):
        if not self.late:
            raise HarnessRefusal("the loop thread is not inside a late response")
        if not self.sched.threads[self.lname].done:
            self._finish(self.lname)
        self.late = 0

    def act_RespondLate(self, a):          # both halves at once (older replay files and reproductions)
        self.act_LateStart(a)
        self.act_LateFinish(a)

    def act_Timeout(self, a):
        f = self.futures.get(a["r"])
        if f is None or f._timer is None:
            raise HarnessRefusal("request %s has no timer" % a["r"])
        self.world.fire(f._timer, advance=False)

    def act_ConnFails(self, a):
        c = self.conns[a["c"] - 1]
        if c.is_closed:
            raise HarnessRefusal("connection %s already closed" % a["c"])
        self._set_verdict(a["f"])
        c.socket_error()

    def replace_tasks(self):
        return [t for t in self.cluster.executor.queue if t.label == "_replace"]

    def act_ReplaceCheck(self, a):
        tasks = self.replace_tasks()
        if not tasks or self.tphase is not None:
            raise HarnessRefusal("no _replace task waits in the executor")
        self.tcount += 1
        self.tname = "T%d" % self.tcount
        old = tasks[0].args[0] if tasks[0].args else None
        self.told = self.conns.index(old) + 1 if old in self.conns else 0
        self.sched.spawn(self.tname, self.cluster.executor.run, tasks[0])
        lab = self._run(self.tname, lambda l: l == "opening")        # past the is_shutdown check, about to connect
        self.tphase = None if lab == "end" else "open"

    def _tphase(self, want):
        if self.tphase != want:
            raise HarnessRefusal("_replace task is in phase %s, not %s" % (self.tphase, want))

    def act_ReplaceOpen(self, a):
        self._tphase("open")
        self.node.accepting = bool(a["f"])
        try:
            lab = self._run(self.tname, lambda l: l == "opened")
        finally:
            self.node.accepting = True
        self.tphase = None if lab == "end" else ("use" if self.ks else "publish")

    def act_ReplaceUse(self, a):
        self._tphase("use")
        lab = self._run(self.tname, lambda l: l == "use:done")
        self.tphase = None if lab == "end" else "publish"

    def act_ReplacePublish(self, a):
        self._tphase("publish")
        # up to the critical section that retires the old connection (its lock is taken first)
        lab = self._run(self.tname, lambda l: l == "acq:conn%d@_replace" % self.told)
        self.tphase = None if lab == "end" else "retire"

    def act_ReplaceRetire(self, a):
        self._tphase("retire")
        self._finish(self.tname)
        self.tphase = None

    def act_ShutdownMark(self, a):
        if self.sphase != "none":
            raise HarnessRefusal("shutdown() already running")
        self.sched.spawn("S", self.pool.shutdown)
        lab = self._run("S", lambda l: l == "rel:pool@shutdown")
        self.sphase = "done" if lab == "end" else "marked"

    def act_ShutdownCloseCur(self, a):
        if self.sphase != "marked":
            raise HarnessRefusal("shutdown() is in phase %s" % self.sphase)
        lab = self._run("S", lambda l: l == "acq:pool@shutdown")
        self.sphase = "done" if lab == "end" else "curclosed"

    def act_ShutdownCloseTrash(self, a):
        if self.sphase == "curclosed":
            self._finish("S")
        elif self.sphase != "done":
            raise HarnessRefusal("shutdown() is in phase %s" % self.sphase)
        self.sphase = "done"

    # ------------------------------------------------------------ repairs of the known leaks (so that a walk can go on)
    def repair(self, signature, info):
        """Put the real objects where the specification's intended step leaves them (info: repair_info())."""
        Verdict.down = True
        if signature == A_SHUTDOWN_TRASH:
            for c in info["trash"]:
                self.conns[c - 1].close()
        elif signature == B_PUBLISH_AFTER_SHUTDOWN:
            self.pool._connection = self.conns[info["cur"] - 1] if info["cur"] else None
            self.conns[info["new"] - 1].close()
            self._kill(self.tname)
            self.tphase = None
        elif signature == D_RETIRE_AFTER_SHUTDOWN:
            self.conns[info["old"] - 1].close()
        elif signature in (C_DEAD_OLD_CLEARS_CURRENT, E_REPLACE_NOT_CURRENT):
            self.pool._connection = self.conns[info["cur"] - 1] if info["cur"] else None
            if not info["queued"]:
                for t in self.replace_tasks():
                    self.cluster.executor.queue.remove(t)
            self.pool._is_replacing = bool(info["replacing"])
        else:
            return False
        return True

    def _kill(self, name):
        t = self.sched.threads.get(name)
        if t is not None and not t.done:
            t.done = True
            try:
                t.g.throw(greenlet.GreenletExit)
            except Exception:
                pass

    # ------------------------------------------------------------ projection
    def project(self):
        n = self.nconns
        out = {k: {} for k in self.CVARS}
        for i in range(1, n + 1):
            if i <= len(self.conns):
                c = self.conns[i - 1]
                out["inflight"][i] = c.in_flight
                out["orph"][i] = frozenset(self._owner.get((i, s), "?%s" % s) for s in c.orphaned_request_ids)
                out["reg"][i] = frozenset(self._owner.get((i, s), "?%s" % s) for s in c._requests)
                out["owed"][i] = frozenset(int(p.req["query"].split()[1]) for p in self.node.pending
                                           if p.conn is c and p.req.get("op") == "QUERY")
                out["thr"][i] = bool(c.orphaned_threshold_reached)
                out["closed"][i] = bool(c.is_closed)
                out["defunct"][i] = bool(c.is_defunct)
                out["signaled"][i] = bool(c.signaled_error)
            else:
                out["inflight"][i], out["orph"][i], out["reg"][i], out["owed"][i] = 0, frozenset(), frozenset(), frozenset()
                out["thr"][i] = out["closed"][i] = out["defunct"][i] = out["signaled"][i] = False
        p = self.pool
        cur = p._connection
        out["cur"] = 0 if cur is None else (self.conns.index(cur) + 1 if cur in self.conns else -1)
        out["trash"] = frozenset(self.conns.index(c) + 1 for c in p._trash if c in self.conns and not c.is_closed)
        out["replacing"] = bool(p._is_replacing)
        out["shutdown"] = bool(p.is_shutdown)
        out["queued"] = len(self.replace_tasks())
        out["opened"] = len(self.conns)
        st, on = {}, {}
        for r in self.req_names:
            on[r] = self.took.get(r, self.pick.get(r, 0))
            if r not in self.started:
                st[r] = "new"
                continue
            t = self.sched.threads["C%d" % r]
            f = self.futures.get(r)
            if not t.done or f is None:
                st[r] = "borrowed" if r in self.took else ("marking" if r in self.marking else "picked")
                continue
            e = f._final_exception
            if e is not None:
                if isinstance(e, cassandra.OperationTimedOut):
                    st[r] = "timedout"
                elif isinstance(e, ConnectionShutdown):
                    st[r] = "errored"
                elif isinstance(e, NoHostAvailable):
                    errs = list(getattr(e, "errors", {}).values())
                    st[r] = "refused" if errs and isinstance(errs[0], ConnectionShutdown) else "nohost"
                else:
                    st[r] = "exc:" + type(e).__name__
            elif f._final_result is not cassandra.cluster._NOT_SET:
                st[r] = "done"
            else:
                st[r] = "sent"
        out["st"], out["on"] = st, on
        out["late"] = self.late
        return out

    def abandoned(self):
        """C13 read directly off the connections' close log: a connection that is neither defunct nor
        closed by a pool shutdown must have had only orphaned streams in flight when it was closed."""
        bad = []
        for i, c in enumerate(self.conns, 1):
            for j, (_, infl, orphans) in enumerate(c.close_log):
                if (i, j) in self.closes_seen:
                    continue
                self.closes_seen[(i, j)] = True
                if not c.is_defunct and not self.pool.is_shutdown and infl != orphans:
                    bad.append({"conn": i, "in_flight": infl, "orphans": orphans})
        return bad

    def open_pool_connections(self):
        return [i for i, c in enumerate(self.conns, 1) if not c.is_closed]

    def teardown(self):
        for name in list(self.sched.threads):
            self._kill(name)
        try:
            self.cluster.executor.queue[:] = []
            self.cluster.shutdown()
        except Exception:
            pass


def submits_at_timeout():
    """Which of the two designs Pool.tla allows does the code under test follow: is the replacement of a connection
    that reached its orphan threshold requested by the timeout that finds it reached (True) or by the next borrow?"""
    h = PoolHarness({"MaxId": 2, "Threshold": 1, "Reqs": {1}, "NConns": 2, "MaxFails": 0, "MaxConnFails": 0})
    try:
        for name in ("BorrowStart", "BorrowTake", "Send", "Timeout"):
            h.do({"name": name, "r": 1, "c": 0, "f": False})
        return bool(h.pool._is_replacing)
    except Exception:
        return False
    finally:
        h.teardown()


# ---------------------------------------------------------------------- spec state <-> projection
def _fn(v):
    if isinstance(v, tuple):
        return {i + 1: x for i, x in enumerate(v)}
    return dict(v)


def spec_view(s):
    out = {}
    for k in ("inflight", "thr", "closed", "defunct", "signaled", "st", "on"):
        out[k] = _fn(s[k])
    for k in ("orph", "reg", "owed"):
        out[k] = {i: frozenset(x) for i, x in _fn(s[k]).items()}
    out["cur"], out["trash"] = s["cur"], frozenset(s["trash"])
    out["replacing"], out["shutdown"], out["opened"] = s["replacing"], s["shutdown"], s["opened"]
    out["queued"] = 1 if dict(s["rep"])["ph"] == "queued" else 0
    return out


def diff(spec, real, late=0, shut=None, window=False):
    """`late`: connection whose late response is half handled - its in_flight / orphan set are in flux inside
    process_msg and are not compared until the callback is over.
    `shut`: the connections a running shutdown() has to close (current and trashed ones when is_shutdown was set).
    C12 fixes neither the step at which shutdown() empties _trash / _connection nor the order in which it closes them:
    while it runs (`window`) the bookkeeping fields and the state of those connections (and of the requests on them)
    are not compared; when it has returned everything is compared again, a request on one of those connections
    counting as failed whether its send was refused or its handler got the connection error."""
    out = {}
    shut = set(shut or ())
    for k in PoolHarness.VARS:
        a, b = spec[k], real[k]
        if late and k in ("inflight", "orph"):
            a = {c: v for c, v in a.items() if c != late}
            b = {c: v for c, v in b.items() if c != late}
        if shut and window:
            if k in ("cur", "trash"):
                continue
            if k in PoolHarness.CVARS:
                a = {c: v for c, v in a.items() if c not in shut}
                b = {c: v for c, v in b.items() if c not in shut}
        if shut and not window and k in ("inflight", "orph", "reg", "owed", "signaled"):
            # closed by shutdown(): C12 asks that they are closed and that in_flight is not negative (checked below)
            a = {c: v for c, v in a.items() if c not in shut}
            b = {c: v for c, v in b.items() if c not in shut}
            if k == "inflight" and any(v < 0 for v in real[k].values()):
                b = dict(b, _negative=True)
        if shut and k == "st":
            on_shut = {r for r in a if spec["on"].get(r) in shut or real["on"].get(r) in shut}
            if window:
                a = {r: v for r, v in a.items() if r not in on_shut}
                b = {r: v for r, v in b.items() if r not in on_shut}
            else:
                norm = lambda r, v: "failed" if r in on_shut and v in ("errored", "refused", "timedout") else v      # noqa: E731
                a = {r: norm(r, v) for r, v in a.items()}
                b = {r: norm(r, v) for r, v in b.items()}
        if a != b:
            out[k] = {"spec": spec[k], "code": real[k]}
    return out


def repair_info(prev, post):
    """What PoolHarness.repair needs to know of the spec states around the step (JSON-able)."""
    rep = dict(prev["rep"])
    return {"trash": sorted(prev["trash"]), "old": rep["old"], "new": rep["new"], "cur": post["cur"],
            "queued": dict(post["rep"])["ph"] == "queued", "replacing": bool(post["replacing"])}


def classify(act, prev, post, d):
    """Stable signature of a divergence.  The four leaks of DESIGN section 7 / the C12 report are recognised by
    the step and the spec state they occur in; everything else is named by action and fields."""
    name = act["name"]
    pv = spec_view(prev)

    def spec_closed_code_open(among):
        c = d.get("closed")
        return c is not None and any(c["spec"][i] and not c["code"][i] for i in among)

    if name == "BorrowMark" and pv["on"][act["r"]] != pv["cur"] and not pv["replacing"] and \
            ("queued" in d or "replacing" in d) and d.get("queued", {"code": 1})["code"] == 1:
        return E_REPLACE_NOT_CURRENT
    if name == "ShutdownCloseTrash" and spec_closed_code_open(pv["trash"]):
        return A_SHUTDOWN_TRASH
    if name in ("ConnFails", "Send") and act["f"] and not pv["shutdown"] and spec_closed_code_open(pv["trash"]):
        return A_SHUTDOWN_TRASH
    if name == "ReplacePublish" and pv["shutdown"]:
        return B_PUBLISH_AFTER_SHUTDOWN
    if name == "ReplaceRetire" and pv["shutdown"] and spec_closed_code_open([dict(prev["rep"])["old"]]):
        return D_RETIRE_AFTER_SHUTDOWN
    if name in ("ConnFails", "Send") and not act["f"] and "cur" in d and d["cur"]["spec"] not in (0, None) \
            and d["cur"]["code"] == 0 and d["cur"]["spec"] == pv["cur"]:
        return C_DEAD_OLD_CLEARS_CURRENT
    return "replay:%s:%s" % (name, ",".join(sorted(d)))


def owner(signature, act, post, d):
    """C13 owns: a close the spec does not make (or a missing close of a drained trashed connection) while
    the pool is alive, and a borrow that goes to another connection than the spec's; the rest is C12's."""
    if signature in LEAK_SIGNATURES:
        return "C12"
    if signature.startswith("close_log:"):
        return "C13"
    if "thr" in d:
        return "C13"          # the latched "orphan threshold reached" flag decides whether the old connection is ever retired
    if not post["shutdown"]:
        if "trash" in d:
            return "C13"
        c = d.get("closed")
        if c is not None and any(c["spec"][i] != c["code"][i] and not post["defunct"][i] for i in c["spec"]):
            return "C13"
        if act["name"] in ("BorrowStart", "BorrowTake") and "on" in d:
            st = d.get("st")
            if st is not None and st["spec"].get(act["r"]) == "nohost":
                return "C12"          # the code handed out a connection the spec refuses (capacity, shutdown)
            return "C13"              # the borrow went to another connection than the spec's (or nowhere)
    return "C12"


def replay(constants, states, repair=True):
    """Replay one behaviour (list of spec states, first = Init).
    Returns (divergence or None, [known leaks met and repaired on the way])."""
    h = PoolHarness(constants)
    met = []
    try:
        d = diff(spec_view(states[0]), h.project())
        if d:
            return {"step": 0, "action": {"name": "Init"}, "diff": d, "signature": "replay:Init"}, met
        shut = set()
        for i, s in enumerate(states[1:], 1):
            act = dict(s["act"])
            if act["name"] == "ShutdownMark":
                shut = ({states[i - 1]["cur"]} | set(states[i - 1]["trash"])) - {0}
            window = s["sd"] in ("marked", "curclosed")
            try:
                h.do(act)
            except HarnessRefusal as ex:
                target = act["c"] if act["name"] in ("Respond", "LateStart", "ConnFails") else \
                    (_fn(states[i - 1]["on"]).get(act["r"]) if act["name"] == "Timeout" else None)
                if shut and states[i - 1]["sd"] in ("marked", "curclosed") and target in shut:
                    # the running shutdown() of the code has already closed this connection (it is free to close them
                    # in another order than the behaviour being replayed): the behaviour ends here, nothing is judged
                    return {"step": i, "action": act, "choice": True, "signature": "choice", "diff": {}}, met
                return {"step": i, "action": act, "signature": "replay:%s:refused" % act["name"],
                        "diff": {"_refused": {"spec": "enabled", "code": str(ex)}}}, met
            except Exception as ex:                     # the code under test left the envelope
                return {"step": i, "action": act, "signature": "replay:%s:exception:%s" % (act["name"], type(ex).__name__),
                        "diff": {"_exception": {"spec": "no exception", "code": "%s: %s" % (type(ex).__name__, ex)}}}, met
            sv = spec_view(s)
            d = diff(sv, h.project(), s["late"], shut, window)
            if d:
                sig = classify(act, states[i - 1], s, d)
                rec = {"step": i, "action": act, "diff": d, "signature": sig}
                if repair and sig in LEAK_SIGNATURES:
                    rec["repair"] = repair_info(states[i - 1], s)
                    try:
                        h.repair(sig, rec["repair"])
                    except Exception as ex:
                        rec["repair_failed"] = "%s: %s" % (type(ex).__name__, ex)
                        return rec, met
                    d2 = diff(sv, h.project(), s["late"], shut, window)
                    if d2:
                        rec["after_repair"] = d2
                        rec["signature"] = sig + "+other"
                        return rec, met
                    met.append(rec)
                    h.abandoned()
                    continue
                return rec, met
            bad = h.abandoned()
            if bad:
                return {"step": i, "action": act, "signature": "close_log:closed-with-live-requests",
                        "diff": {"_close_log": {"spec": "only orphaned streams in flight at close", "code": bad}}}, met
        return None, met
    finally:
        h.teardown()


# ---------------------------------------------------------------------- recording (code -> spec)
def _post(p, reqs, n):
    rng = range(1, n + 1)
    return {
        "inflight": [p["inflight"][i] for i in rng],
        "orph": [sorted(p["orph"][i], key=str) for i in rng],
        "reg": [sorted(p["reg"][i], key=str) for i in rng],
        "owed": [sorted(p["owed"][i]) for i in rng],
        "thr": [p["thr"][i] for i in rng], "closed": [p["closed"][i] for i in rng],
        "defunct": [p["defunct"][i] for i in rng], "signaled": [p["signaled"][i] for i in rng],
        "cur": p["cur"], "trash": sorted(p["trash"]), "replacing": p["replacing"], "shutdown": p["shutdown"],
        "queued": p["queued"], "opened": p["opened"],
        "st": [p["st"][r] for r in reqs], "on": [p["on"][r] for r in reqs], "late": p.get("late", 0),
        "win": False,
    }


def record(constants, rng, max_events=60, p_fail=0.08, p_shutdown=0.08):
    """Drive the real objects with random operations the harness can perform; return the list of events
    (operation, arguments, projected post-state)."""
    reqs = sorted(constants["Reqs"])
    n = constants["NConns"]
    h = PoolHarness(constants)
    events = []
    fails = cfails = 0
    sstep = 0                            # 0 none, 1 marked, 2 current closed, 3 shutdown() over (events emitted so far)
    staggered = rng.random() < 0.6       # mostly one request at a time: timeouts pile up before the next borrow
    try:
        while len(events) < max_events:
            ops = []
            busy = any(st in ("picked", "borrowed", "sent") for st in h.project()["st"].values())
            for r in reqs:
                t = h.sched.threads.get("C%d" % r)
                f = h.futures.get(r)
                if r not in h.started:
                    if not (staggered and busy and rng.random() < 0.85):
                        ops += [{"e": "BorrowStart", "r": r}] * 2
                elif not t.done and r in h.marking:
                    ops += [{"e": "BorrowMark", "r": r}] * 2
                elif not t.done and r not in h.took:
                    ops += [{"e": "BorrowTake", "r": r}] * 2
                elif not t.done:
                    c = h.conns[h.took[r] - 1]
                    if not c.is_closed:
                        down = False
                    elif c.signaled_error or h.pool.is_shutdown:
                        down = bool(h.pool.is_shutdown)
                    else:
                        down = rng.random() < 0.5
                    ops += [{"e": "Send", "r": r, "f": down}] * 2
                elif f is not None and f._final_exception is None and f._final_result is cassandra.cluster._NOT_SET \
                        and f._timer is not None and not f._timer.canceled:
                    if not h.late:
                        ops += [{"e": "Timeout", "r": r}] * 3
            for p in h.node.pending:
                if p.conn in h.conns and not p.conn.is_closed and p.req.get("op") == "QUERY":
                    late = p.frame.stream not in p.conn._requests
                    if h.late:
                        continue                       # the loop thread is busy
                    op = {"e": "LateStart" if late else "Respond", "c": h.conns.index(p.conn) + 1, "r": int(p.req["query"].split()[1])}
                    ops.append(op)
            if h.late:
                ops += [{"e": "LateFinish"}] * 2
            if cfails < constants["MaxConnFails"] and rng.random() < p_fail and not h.late:
                for i, c in enumerate(h.conns, 1):
                    if not c.is_closed and not (h.tphase in ("use", "publish") and i == len(h.conns)):
                        if not c._requests:
                            down = False
                        elif h.pool.is_shutdown:
                            down = True
                        else:
                            down = rng.random() < 0.5
                        ops.append({"e": "ConnFails", "c": i, "f": down})
            if h.tphase is None and h.replace_tasks():
                ops += [{"e": "ReplaceCheck"}] * 3
            elif h.tphase == "open":
                if len(h.conns) < n:
                    ops += [{"e": "ReplaceOpen", "f": True}] * 3
                if fails < constants["MaxFails"]:
                    ops.append({"e": "ReplaceOpen", "f": False})
            elif h.tphase == "use":
                ops += [{"e": "ReplaceUse"}] * 3
            elif h.tphase == "publish":
                ops += [{"e": "ReplacePublish"}] * 3
            elif h.tphase == "retire":
                ops += [{"e": "ReplaceRetire"}] * 3
            if sstep == 0 and h.sphase == "none" and not h.pool.is_shutdown and rng.random() < p_shutdown:
                ops.append({"e": "ShutdownMark"})
            elif sstep == 1:
                ops = [{"e": "ShutdownCloseCur"}]            # recorded runs do not interleave inside shutdown() (the replay does)
            elif sstep == 2:
                ops = [{"e": "ShutdownCloseTrash"}]          # a no-op for the harness when shutdown() has already returned
            if not ops:
                break
            ev = dict(rng.choice(ops))
            act = {"name": ev["e"], "r": ev.get("r", 0), "c": ev.get("c", 0), "f": ev.get("f", False)}
            try:
                h.do(act)
                if ev["e"] == "ConnFails":
                    cfails += 1
                if ev["e"] == "ReplaceOpen" and not ev["f"]:
                    fails += 1
                if ev["e"].startswith("Shutdown"):
                    sstep += 1
                ev["post"] = _post(h.project(), reqs, n)
                ev["post"]["win"] = sstep in (1, 2)
                bad = h.abandoned()
                if bad:
                    ev["close_log"] = bad
            except Exception as ex:          # the real objects left the envelope the harness can drive
                events.append({"e": "Anomaly", "during": {k: v for k, v in ev.items() if k != "post"},
                               "what": "%s: %s" % (type(ex).__name__, ex)})
                break
            events.append(ev)
        return events
    finally:
        h.teardown()


def classify_event(ev, before):
    """Signature for a recorded event the specification rejects, from the event and the projected state
    before it (`before` is the previous event's post, None for the first event)."""
    e = ev.get("e")
    if e == "Anomaly":
        return "trace:Anomaly:%s" % ev.get("during", {}).get("e")
    if before is None:
        return "trace:%s" % e
    trash_open = [c for c in before["trash"] if not before["closed"][c - 1]]
    if e == "BorrowMark" and before["on"][ev["r"] - 1] != before["cur"] and not before["replacing"]:
        return E_REPLACE_NOT_CURRENT
    if e == "ShutdownCloseTrash" and trash_open:
        return A_SHUTDOWN_TRASH
    if e in ("ConnFails", "Send") and ev.get("f") and not before["shutdown"] and trash_open:
        return A_SHUTDOWN_TRASH
    if e == "ReplacePublish" and before["shutdown"]:
        return B_PUBLISH_AFTER_SHUTDOWN
    if e == "ReplaceRetire" and before["shutdown"]:
        return D_RETIRE_AFTER_SHUTDOWN
    if e in ("ConnFails", "Send") and not ev.get("f") and before["cur"] != 0 and "post" in ev and ev["post"]["cur"] == 0:
        dead = ev["c"] if e == "ConnFails" else before["on"][ev["r"] - 1]
        if dead != before["cur"]:
            return C_DEAD_OLD_CLEARS_CURRENT
    return "trace:%s" % e
