"""Binding between spec/Callbacks.tla and the real ResponseFuture (C14, callback hand-over race).

A real ResponseFuture (created by Session.execute_async over one FakeNode; its request stays unanswered) is
completed and registered on by logical threads under DetSched *line mode*: every source line of
_set_final_result, _set_final_exception, add_callback, add_errback, add_callbacks is a pre-emption point and
fut._callback_lock is an instrumented DLock.  Nothing in /repo is edited.

Observation is by effects, not by line numbers (so it also works on a changed driver):
    acq / rel   the lock was acquired / is released by the logical thread
    set k       _final_result ("res") / _final_exception ("err") assigned (properties of a probe subclass)
    iter w ids  _callbacks ("cb") / _errbacks ("eb") iterated - the snapshot (a list subclass)
    evt         _event.set()
    append w h  a handler of owner h appended to _callbacks / _errbacks
    call h w o  handler (h, w) invoked with outcome o

spec -> code: replay() drives the threads action by action along a TLC behaviour, requires exactly the effects
of that action, compares (lock owner, final, event, handler lists, invocation counts) after each action and checks
that every thread whose Acq is disabled in the spec is really blocked on the lock.
code -> spec: record() runs a seeded random line-level schedule and returns the event list for
Trace_Callbacks.tla together with the invocation counts (checked directly against the property as well).
"""
from harness.sim import simcluster                      # noqa: F401
from harness.sim.simcluster import SimWorld, FakeNode, make_cluster
from harness.sim.detsched import DetSched, DLock, Blocked

import cassandra.cluster as ccluster
from cassandra.cluster import ResponseFuture

ROWS = [("row",)]


class Divergence(Exception):
    pass


class _Exc(Exception):
    pass


class LoggingLock(DLock):
    def __init__(self, name, harness):
        DLock.__init__(self, name)
        self.h = harness

    def acquire(self, blocking=True, timeout=-1):
        r = DLock.acquire(self, blocking, timeout)
        self.h.log("acq")
        return r

    __enter__ = acquire

    def release(self):
        self.h.log("rel")
        DLock.release(self)

    def __exit__(self, *a):
        self.release()


class LoggingList(list):
    h = None
    which = "cb"

    def __iter__(self):
        self.h.log("iter", self.which, [self.h.owner_of(x) for x in list.__iter__(self)])
        return list.__iter__(self)

    def append(self, item):
        self.h.log("append", self.which, self.h.owner_of(item))
        return list.append(self, item)


class LoggingEvent:
    def __init__(self, harness, flag=False):
        self.h = harness
        self.flag = flag

    def set(self):
        self.flag = True
        self.h.log("evt")

    def is_set(self):
        return self.flag

    isSet = is_set

    def clear(self):
        self.flag = False

    def wait(self, timeout=None):
        return self.flag


class World:
    """One simulated cluster/session shared by all replays of a run (every replay gets a fresh future)."""
    current = None

    def __init__(self):
        self.world = SimWorld()
        self.node = self.world.add_node(FakeNode("10.0.0.1"))
        self.cluster = make_cluster(self.world, ["10.0.0.1"])
        self.session = self.cluster.connect(wait_for_all_pools=True)

    @classmethod
    def get(cls):
        if cls.current is None or SimWorld.current is not cls.current.world:
            cls.current = World()
        return cls.current

    def new_future(self):
        f = self.session.execute_async("SELECT v FROM ks.t", timeout=None)
        del self.node.pending[:]           # the node never answers
        return f


def _probe_class():
    class Probe(ResponseFuture):
        def _gr(self):
            return self.__dict__.get("_p_result", ccluster._NOT_SET)

        def _sr(self, v):
            self.__dict__["_p_result"] = v
            if v is not ccluster._NOT_SET:
                self._p_h.log("set", "res")
        _final_result = property(_gr, _sr)

        def _ge(self):
            return self.__dict__.get("_p_exc", None)

        def _se(self, v):
            self.__dict__["_p_exc"] = v
            if v is not None:
                self._p_h.log("set", "err")
        _final_exception = property(_ge, _se)
    return Probe


class CbHarness:
    FUNCS = ("_set_final_result", "_set_final_exception", "add_callback", "add_errback", "add_callbacks")

    def __init__(self, nc, nr, kinds, ops, pre):
        self.nc, self.nr = nc, nr
        self.kinds, self.ops, self.pre = list(kinds), list(ops), bool(pre)
        self.events = []
        self.owners = {}                      # id(function) -> (owner, which)
        self.cc = {o: 0 for o in [0] + list(range(nc + 1, nc + nr + 1))}
        self.ec = dict(self.cc)
        self.wrong = []
        self.errors = {}
        self.exc = _Exc("scripted failure")
        w = World.get()
        f = w.new_future()
        f.__dict__["_p_h"] = self
        f.__class__ = _probe_class()
        self.fut = f
        self.sched = DetSched()
        f._callback_lock = LoggingLock("cb", self)
        f._event = LoggingEvent(self)
        for which, attr in (("cb", "_callbacks"), ("eb", "_errbacks")):
            lst = LoggingList()
            lst.h, lst.which = self, which
            setattr(f, attr, lst)
        self.handlers = {}
        for o in self.cc:
            self.handlers[o] = (self._mk(o, "cb"), self._mk(o, "eb"))
        if self.pre:
            f.add_callbacks(*self.handlers[0])
            del self.events[:]
        # every function of cluster.py is pre-empted line by line while a logical thread runs it: the binding does not
        # depend on how the completion / registration code is cut into methods
        self.sched.trace_files(ccluster.__file__)
        for c in range(1, nc + 1):
            self.sched.spawn(str(c), self._complete, self.kinds[c - 1])
        for i, r in enumerate(range(nc + 1, nc + nr + 1)):
            self.sched.spawn(str(r), self._register, r, self.ops[i])

    def close(self):
        self.sched.close()

    # ---- thread bodies
    def _complete(self, kind):
        if kind == "res":
            self.fut._set_final_result(ROWS)
        else:
            self.fut._set_final_exception(self.exc)

    def _register(self, r, op):
        cb, eb = self.handlers[r]
        if op == "cb":
            self.fut.add_callback(cb)
        elif op == "eb":
            self.fut.add_errback(eb)
        else:
            self.fut.add_callbacks(cb, eb)

    def _mk(self, owner, which):
        def handler(value):
            o = "res" if value is ROWS else ("err" if value is self.exc else "other:%r" % (value,))
            if which == "cb":
                self.cc[owner] += 1
            else:
                self.ec[owner] += 1
            self.log("call", owner, which, o)
        self.owners[id(handler)] = (owner, which)
        handler.owner = owner
        return handler

    def owner_of(self, item):
        fn = item[0] if isinstance(item, tuple) else item
        return getattr(fn, "owner", -1)

    def who(self):
        a = self.sched.active
        return int(a.name) if a is not None else 0

    def log(self, kind, *vals):
        self.events.append((kind, self.who()) + tuple(vals))

    # ---- stepping
    def step(self, t):
        try:
            return self.sched.step(str(t))
        except (Blocked, Divergence):
            raise
        except Exception as ex:                      # noqa: BLE001 - misbehaving code under test
            self.errors[t] = repr(ex)
            raise Divergence("thread %d raised %r" % (t, ex))

    def until_event(self, t, kind, limit=200):
        start = len(self.events)
        for _ in range(limit):
            label = self.step(t)
            new = self.events[start:]
            if any(e[0] == kind for e in new):
                return new
            if label == "end":
                break
        raise Divergence("thread %d did not produce '%s' (events %s)" % (t, kind, self.events[start:]))

    def to_lock(self, t, limit=300):
        """Internal steps: bring t to the point where it asks for the lock (or to its end)."""
        th = self.sched.threads[str(t)]
        for _ in range(limit):
            if th.done or (th.waiting_for is not None and str(th.at).startswith("acq:")):
                return
            self.step(t)
        raise Divergence("thread %d neither finishes nor asks for the lock" % t)

    def finish(self, t, limit=1000):
        th = self.sched.threads[str(t)]
        for _ in range(limit):
            if th.done:
                return
            self.step(t)
        raise Divergence("thread %d does not finish" % t)

    def project(self):
        f = self.fut
        owner = f._callback_lock.owner
        if f._final_result is not ccluster._NOT_SET and f._final_exception is not None:
            final = "both"
        elif f._final_result is not ccluster._NOT_SET:
            final = "res"
        elif f._final_exception is not None:
            final = "err"
        else:
            final = "unset"
        return {"lock": int(owner.name) if owner is not None else 0, "final": final, "event": f._event.is_set(),
                "cbs": [self.owner_of(x) for x in list.__iter__(f._callbacks)],
                "ebs": [self.owner_of(x) for x in list.__iter__(f._errbacks)],
                "ccalls": dict(self.cc), "ecalls": dict(self.ec)}


def _fn(v, first):
    """TLC prints a function with domain first..n as a tuple when first = 1, else as a FrozenDict."""
    if isinstance(v, (tuple, list)):
        return {first + i: x for i, x in enumerate(v)}
    return {int(k): x for k, x in dict(v).items()}


def spec_view(st):
    return {"lock": st["lock"], "final": str(st["final"]), "event": bool(st["event"]), "cbs": list(st["cbs"]),
            "ebs": list(st["ebs"]), "ccalls": _fn(st["ccalls"], 0), "ecalls": _fn(st["ecalls"], 0)}


def config_of(consts, st):
    nc, nr = consts["NC"], consts["NR"]
    kind = _fn(st["kind"], 1)
    op = _fn(st["op"], nc + 1)
    pre = len(st["cbs"]) > 0
    return [str(kind[c]) for c in range(1, nc + 1)], [str(op[r]) for r in range(nc + 1, nc + nr + 1)], pre


def replay(consts, states, corrupt=None):
    """Replay one behaviour. Returns (divergence or None, number of blocked-on-the-lock checks made)."""
    nc, nr = consts["NC"], consts["NR"]
    kinds, ops, pre = config_of(consts, states[0])
    h = CbHarness(nc, nr, kinds, ops, pre)
    blocked = 0
    step_no = 0
    try:
        try:
            for t in range(1, nc + nr + 1):
                before = len(h.events)
                h.to_lock(t)
                if h.events[before:]:
                    raise Divergence("thread %d acts before asking for the lock: %s" % (t, h.events[before:]))
            for step_no in range(1, len(states)):
                st, prev = states[step_no], states[step_no - 1]
                a = st["act"]
                name, t = str(a["name"]), a["t"]
                before = len(h.events)
                kind = str(_fn(st["kind"], 1).get(t, ""))
                which_c = "cb" if kind == "res" else "eb"
                if name == "Acq":
                    h.until_event(t, "acq", limit=1)
                    expect = [("acq", t)]
                elif name == "CSet":
                    h.until_event(t, "set")
                    expect = [("set", t, kind)]
                elif name == "CSnap":
                    h.until_event(t, "iter")
                    expect = [("iter", t, which_c, list(_fn(st["snap"], 1)[t]))]
                elif name in ("CRel", "CRelAbort", "RRel"):
                    h.until_event(t, "rel")
                    expect = [("rel", t)]
                elif name == "CEvt":
                    h.until_event(t, "evt")
                    expect = [("evt", t)]
                elif name == "CRun":
                    h.until_event(t, "call")
                    expect = [("call", t, _fn(prev["snap"], 1)[t][0], which_c, str(st["final"]))]
                elif name == "RAppend":
                    ph = str(_fn(prev["phase"], nc + 1)[t])
                    h.until_event(t, "append")
                    expect = [("append", t, ph, t)]
                elif name == "RRunNow":
                    ph = str(_fn(prev["phase"], nc + 1)[t])
                    h.until_event(t, "call")
                    expect = [("call", t, t, ph, str(st["final"]))]
                else:
                    raise RuntimeError("unknown action %s" % name)
                # internal steps up to the thread's next observable point
                pc = _fn(st["pc"], 1)
                if pc[t] == "done":
                    h.finish(t)
                elif pc[t] == "want":
                    h.to_lock(t)
                new = [tuple(e) for e in h.events[before:]]
                if new != expect:
                    raise Divergence("effects %s, specification expects %s" % (new, expect))
                want = spec_view(st)
                if corrupt and corrupt[0] == step_no:
                    want[corrupt[1]] = corrupt[2]
                got = h.project()
                if got != want:
                    return ({"step": step_no, "action": dict(a), "kind": "state",
                             "diff": {k: {"spec": want[k], "code": got[k]} for k in want if want[k] != got[k]}}, blocked)
                for u in range(1, nc + nr + 1):
                    if pc[u] != "want":
                        continue
                    th = h.sched.threads[str(u)]
                    if st["lock"] != 0:
                        try:
                            h.sched.step(str(u))
                        except Blocked:
                            blocked += 1
                        else:
                            return ({"step": step_no, "action": dict(a), "kind": "not-blocked",
                                     "diff": {"thread": u, "lock_owner_in_spec": st["lock"]}}, blocked)
                    elif th.is_blocked() or th.done:
                        return ({"step": step_no, "action": dict(a), "kind": "blocked-but-enabled", "diff": {"thread": u}}, blocked)
            return None, blocked
        except Divergence as d:
            a = states[step_no]["act"] if step_no else {"name": "start", "t": 0}
            return ({"step": step_no, "action": dict(a), "kind": "effects", "diff": {"what": str(d)}}, blocked)
    finally:
        h.close()


def record(consts, rng):
    """A seeded random line-level schedule of the real methods. Returns (events for Trace_Callbacks, summary) where
    summary = {final, cbs, ebs, ccalls, ecalls, problems} lets the property be checked directly as well."""
    nc, nr = consts["NC"], consts["NR"]
    kinds = [rng.choice(sorted(consts["Kinds"])) for _ in range(nc)]
    ops = [rng.choice(sorted(consts["Ops"])) for _ in range(nr)]
    pre = rng.choice(sorted(consts["PreChoices"]))
    h = CbHarness(nc, nr, kinds, ops, pre)
    trace = [{"e": "Config", "kind": kinds, "op": ops, "pre": pre}]
    try:
        raised = None
        try:
            h.sched.run_random(rng)
        except Exception as ex:                       # noqa: BLE001 - misbehaving code under test / deadlock
            raised = "%s: %s" % (type(ex).__name__, ex)
        for ev in h.events:
            kind, t = ev[0], ev[1]
            e = {"e": kind, "t": t}
            if kind == "set":
                e["k"] = ev[2]
            elif kind == "iter":
                e["which"], e["ids"] = ev[2], list(ev[3])
            elif kind == "append":
                e["which"], e["h"] = ev[2], ev[3]
            elif kind == "call":
                e["h"], e["which"], e["o"] = ev[2], ev[3], ev[4]
            trace.append(e)
        p = h.project()
        n = nc + nr
        if raised is None:
            trace.append({"e": "end", "t": 1, "post": {"final": p["final"], "lock": p["lock"],
                                                       "cc": [p["ccalls"].get(o, 0) for o in range(0, n + 1)],
                                                       "ec": [p["ecalls"].get(o, 0) for o in range(0, n + 1)]}})
        else:
            trace.append({"e": "raise", "t": 1, "what": raised})
        problems = []
        if raised:
            problems.append("raised " + raised)
        for o in p["cbs"]:
            want = 1 if p["final"] == "res" else 0
            if p["ccalls"].get(o, 0) != want:
                problems.append("callback of owner %d invoked %d times (outcome %s)" % (o, p["ccalls"].get(o, 0), p["final"]))
        for o in p["ebs"]:
            want = 1 if p["final"] == "err" else 0
            if p["ecalls"].get(o, 0) != want:
                problems.append("errback of owner %d invoked %d times (outcome %s)" % (o, p["ecalls"].get(o, 0), p["final"]))
        if any(e[0] == "call" and e[4] != p["final"] for e in h.events):
            problems.append("a handler was invoked with something else than the final outcome")
        summary = dict(p)
        summary.update({"problems": problems, "kinds": kinds, "ops": ops, "pre": pre, "schedule_len": len(h.sched.trace)})
        return trace, summary
    finally:
        h.close()
