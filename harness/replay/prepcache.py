"""Binding between spec/PrepareCache.tla and the real prepared-statement cache of the driver
(Session.prepare / prepare_on_all_hosts, Cluster._prepared_statements, Cluster._prepare_all_queries in on_up,
the PreparedQueryNotFound branch of ResponseFuture) on a simulated cluster.

Every FakeNode keeps a prepared set and answers PREPARE like Cassandra: the query id is a digest of (keyspace the
statement is prepared under, query text); that keyspace is the one in the PREPARE frame (v5), else the connection's
USE keyspace; a query text that names its tables with their keyspace is independent of both; a query text that
does not, prepared with no keyspace at all, is refused ("No keyspace has been specified").  EXECUTE of an unknown
id is answered UNPREPARED.  A node restart = connections die, the node refuses connections, the prepared set is
lost; HostUp = the node accepts again and the driver's reconnector (scheduler entry) is fired.
"""
import gc
import hashlib

from harness import wire
from harness.sim.simcluster import SimWorld, FakeNode, make_cluster
from harness.replay.control import RecLBP, addr, hid, tokens_of, host_no

# data model shared with the spec (Catalogue in PrepareCache.tla)
CATALOGUE = {"A": ("qa", "none", False), "B": ("qb", "k1", False), "C": ("qc", "k1", False),
             "D": ("qb", "k2", True), "E": ("qc", "k1", True)}
QUERY_TEXT = {"qa": "SELECT v FROM gks.ta WHERE k=?", "qb": "SELECT v FROM tb WHERE k=?", "qc": "SELECT v FROM tc WHERE k=?"}
QUERY_NAME = {v: k for k, v in QUERY_TEXT.items()}
SESSION_KS = "k1"


def _hex(x):
    return x.hex() if isinstance(x, (bytes, bytearray)) else repr(x)


def _qualified(q):
    return "." in q.split("FROM")[1].split()[0]


class PrepHarness:
    def __init__(self, hosts, v5, all_hosts):
        self.hosts = sorted(hosts)
        self.v5 = bool(v5)
        self.world = SimWorld()
        self.id2key = {}              # query id -> (keyspace or "none", query name)
        self.nodes = {}
        for h in self.hosts:
            n = FakeNode(addr(h), host_id=hid(h), tokens=tokens_of(h, 1), release_version="3.11.4", versions=(3, 4, 5))
            n.prepared = set()
            n.conn_ks = {}
            n.prep_log = []           # (query name, effective keyspace | "ERROR") of every PREPARE received
            n.unprepared_sent = 0
            n.rows_sent = 0
            n.auto = True
            n.auto_answer = self._answer
            self.nodes[h] = self.world.add_node(n)
        self.cluster = make_cluster(self.world, [addr(self.hosts[0])], protocol_version=5 if v5 else 4, lbp=RecLBP(),
                                    prepare_on_all_hosts=bool(all_hosts))
        self.session = self.cluster.connect(SESSION_KS, wait_for_all_pools=True)
        self.held = {}
        self.prep_order = []          # host numbers in the order their PREPAREs arrived during the current action

    # ---- the node side
    def _answer(self, node, p):
        req = p.req
        op = req["op"]
        if op == "QUERY" and req["query"].upper().startswith("USE "):
            ks = req["query"][4:].strip().strip('"')
            node.conn_ks[p.conn] = ks
            node.respond(p, wire.RESULT, wire.body_set_keyspace(ks))
        elif op == "PREPARE":
            q = req["query"]
            self.prep_order.append(host_no(node.address))
            ks = req.get("keyspace") or node.conn_ks.get(p.conn)
            eff = None if _qualified(q) else ks
            name = QUERY_NAME.get(q, q)
            if not _qualified(q) and ks is None:
                node.prep_log.append((name, "ERROR"))
                node.respond_error(p, wire.ERR_INVALID, "No keyspace has been specified. USE a keyspace, or explicitly "
                                                        "specify keyspace.tablename")
                return
            qid = hashlib.md5(((eff or "") + "|" + q).encode()).digest()
            self.id2key[qid] = (eff or "none", name)
            node.prepared.add(qid)
            node.prep_log.append((name, eff or "none"))
            node.respond(p, wire.RESULT, wire.body_prepared(qid, [("k", wire.T_INT)], [0], [("v", wire.T_INT)],
                                                            p.frame.version, ks=eff or "gks", table="t" + name[1:],
                                                            result_metadata_id=b"m" + qid[:3]))
        elif op == "EXECUTE":
            if req["id"] not in node.prepared:
                node.unprepared_sent += 1
                node.respond_error(p, wire.ERR_UNPREPARED, "unprepared", wire.tail_unprepared(req["id"]))
            else:
                node.rows_sent += 1
                node.respond_rows(p, [("v", wire.T_INT)], [[wire.w_int(7)]])
        else:
            FakeNode.default_answer(node, p)

    def _host(self, h):
        for host in self.cluster.metadata.all_hosts():
            if host_no(host.address) == h:
                return host
        return None

    # ---- actions (names and arguments as in PrepareCache.tla); each returns what was observable
    def do(self, act):
        name = act["name"]
        obs = {"error": None}
        del self.prep_order[:]
        for n in self.nodes.values():
            del n.prep_log[:]
            del n.received[:]
            n.unprepared_sent = n.rows_sent = 0
        try:
            getattr(self, "_" + name)(act, obs)
        except Exception as exc:
            obs["error"] = "%s: %s" % (type(exc).__name__, str(exc)[:200])
        return obs

    def _Prepare(self, act, obs):
        s = act["s"]
        qn, ks, explicit = CATALOGUE[s]
        ps = self.session.prepare(QUERY_TEXT[qn], keyspace=ks if explicit else None)
        self.held[s] = ps
        obs["coord"] = self.prep_order[0] if self.prep_order else None       # the PREPARE that preceded add_prepared
        obs["id"] = list(self.id2key.get(ps.query_id, ("?", _hex(ps.query_id))))

    def _Execute(self, act, obs):
        s, h = act["s"], act["h"]
        host = self._host(h)
        node = self.nodes[h]
        rs = self.session.execute(self.held[s].bind((1,)), host=host)
        rows = list(rs)
        obs["unprepared"] = node.unprepared_sent > 0
        obs["rows"] = node.rows_sent if rows else 0
        del rs, rows

    def _Drop(self, act, obs):
        ps = self.held.pop(act["s"])
        self.world.live_timers()
        pid = id(ps)
        del ps
        if any(id(v) == pid for v in list(self.cluster._prepared_statements.values())):     # a cycle still refers to it
            gc.collect()
            obs["needed_gc"] = True

    def _HostDown(self, act, obs):
        h = act["h"]
        node, host = self.nodes[h], self._host(h)
        node.accepting = False
        cc = self.cluster.control_connection
        pool = self.session._pools.get(host)
        for conn in list(node.conns):
            conn.socket_error()
            if pool is not None and pool._connection is conn:
                pool.return_connection(conn)           # what ConnectionHeartbeat / the next request does
            elif cc._connection is conn:
                cc.return_connection(conn)
        node.prepared.clear()
        node.conn_ks.clear()

    def _HostUp(self, act, obs):
        h = act["h"]
        node, host = self.nodes[h], self._host(h)
        node.accepting = True
        entry = None
        for e in self.cluster.scheduler.tasks:
            owner = getattr(e[2][0], "__self__", None)
            if getattr(owner, "host", None) is host:
                entry = e
        if entry is None:
            raise RuntimeError("no reconnection attempt scheduled for host %s" % h)
        self.cluster.scheduler.fire(entry)
        obs["prepares"] = sorted(set(node.prep_log))

    def _Evict(self, act, obs):
        self.nodes[act["h"]].prepared.clear()

    # ---- projection
    def project(self):
        up = {}
        for h in self.hosts:
            host = self._host(h)
            up[h] = bool(host is not None and host.is_up and self.nodes[h].accepting)
        srv = {h: set(self.id2key.get(i, ("?", _hex(i))) for i in self.nodes[h].prepared) for h in self.hosts}
        cache = {}
        for qid, ps in list(self.cluster._prepared_statements.items()):
            name = next((s for s, p in self.held.items() if p is ps), "?")
            cache[self.id2key.get(qid, ("?", _hex(qid)))] = name
            del ps
        pool_ks = set()
        extra = 0
        for c in self.world.open_connections():
            if getattr(c, "keyspace", None) not in (SESSION_KS, None):
                pool_ks.add(c.keyspace)
        expected = sum(1 for h in self.hosts if up[h]) + 1
        extra = len(self.world.open_connections()) - expected
        return {"up": up, "srv": srv, "cache": cache, "foreign_keyspace_connections": sorted(pool_ks), "extra_connections": extra}

    def force_srv(self, h, ids):
        """Repair after a reported divergence: make node h's prepared set what the specification says."""
        key2id = {v: k for k, v in self.id2key.items()}
        self.nodes[h].prepared = set(key2id[tuple(i)] for i in ids if tuple(i) in key2id)

    def shutdown(self):
        try:
            self.cluster.shutdown()
        except Exception:
            pass


def spec_view(st):
    """The fields of a spec state the projection is compared with."""
    return {"up": {h: bool(v) for h, v in st["up"].items()},
            "srv": {h: set(tuple(i) for i in v) for h, v in st["srv"].items()},
            "cache": {tuple(i): s for i, s in dict(st["cache"]).items()}}


def diff(st, obs, proj):
    """Spec state (after its action) vs observation + projection of the real cluster."""
    d = {}
    act = st["act"]
    sv = spec_view(st)
    if obs.get("error"):
        d["error"] = obs["error"]
    for k in ("up", "srv", "cache"):
        if sv[k] != proj[k]:
            d[k] = {"spec": sv[k], "code": proj[k]}
    if act["name"] == "Prepare" and not obs.get("error"):
        if obs.get("coord") != act["coord"]:
            d["coord"] = {"spec": act["coord"], "code": obs.get("coord")}
        if tuple(obs.get("id") or ()) != tuple(act["id"]):
            d["id"] = {"spec": tuple(act["id"]), "code": obs.get("id")}
    if act["name"] == "Execute" and not obs.get("error"):
        if obs.get("rows") != act["rows"] or bool(obs.get("unprepared")) != bool(act["unprepared"]):
            d["execute"] = {"spec": {"rows": act["rows"], "unprepared": act["unprepared"]},
                            "code": {"rows": obs.get("rows"), "unprepared": obs.get("unprepared")}}
    if act["name"] == "HostUp" and not obs.get("error"):
        exp = sorted(tuple(p) for p in act["prepares"])
        if [tuple(p) for p in obs.get("prepares", [])] != exp:
            d["prepares"] = {"spec": exp, "code": obs.get("prepares")}
    if proj["foreign_keyspace_connections"]:
        d["connection_keyspace_left_behind"] = proj["foreign_keyspace_connections"]
    if proj["extra_connections"] > 0:
        d["extra_connections"] = proj["extra_connections"]
    return d


def signature(st, d):
    """Stable class of a divergence."""
    name = st["act"]["name"]
    if name == "HostUp" and set(d) <= {"srv", "prepares"} and "prepares" in d:
        code = [tuple(p) for p in (d["prepares"]["code"] or [])]
        spec = d["prepares"]["spec"]
        failed = [p for p in code if p[1] == "ERROR"]
        missing = [p for p in spec if p not in code]
        if failed and all(CATALOGUE_BY_QK.get(p) is False for p in missing):
            return "prepcache:HostUp:session-keyspace-statement-reprepared-without-keyspace"
        if missing and not failed:
            return "prepcache:HostUp:cached-statement-not-reprepared"
    return "prepcache:%s:%s" % (name, ",".join(sorted(d)))


# (query name, keyspace) -> explicit?  (for the classification above)
CATALOGUE_BY_QK = {}
for _s, (_q, _k, _e) in CATALOGUE.items():
    CATALOGUE_BY_QK.setdefault((_q, _k), _e)
    if not _e:
        CATALOGUE_BY_QK[(_q, _k)] = False


def node_key(st):
    return (tuple(sorted(st["up"].items())), tuple(sorted((h, tuple(sorted(tuple(i) for i in v))) for h, v in st["srv"].items())),
            tuple(sorted(st["held"])))


def act_key(act):
    return (act["name"], act.get("s"), act.get("h"))


class PrepReplayer:
    """Chains spec edges on one real cluster; a divergence is reported and, when only node prepared sets differ,
    repaired so that the chain continues."""

    def __init__(self, consts, on_divergence):
        self.consts = consts
        self.on_divergence = on_divergence
        self.h = None
        self.history = []
        self.applied = self.conforming = self.chains = 0

    def fresh(self):
        self.close()
        self.h = PrepHarness(self.consts["Hosts"], self.consts["V5"], self.consts["AllHosts"])
        self.history = []
        self.chains += 1

    def close(self):
        if self.h is not None:
            self.h.shutdown()
            self.h = None

    def apply(self, st):
        act = dict(st["act"])
        obs = self.h.do(act)
        proj = self.h.project()
        self.applied += 1
        self.history.append(act)
        d = diff(st, obs, proj)
        if not d:
            self.conforming += 1
            return True
        self.on_divergence(st, d, signature(st, d), list(self.history))
        if set(d) <= {"srv", "prepares"}:
            for h, ids in st["srv"].items():
                self.h.force_srv(h, ids)
            if not diff(st, {}, self.h.project()).get("srv"):
                return False
        self.close()
        return False


def record(consts, rng, max_events=25):
    """Drive the real cluster with random enabled operations; return the list of events for Trace_PrepareCache."""
    hosts = sorted(consts["Hosts"])
    stmts = sorted(consts["Stmts"])
    h = PrepHarness(hosts, consts["V5"], consts["AllHosts"])
    events = []
    try:
        while len(events) < max_events:
            p = h.project()
            ups = [x for x in hosts if p["up"][x]]
            ops = []
            for s in stmts:
                if s in h.held:
                    ops += [("Drop", s, None)] + [("Execute", s, x) for x in ups] * 2
                elif ups:
                    ops += [("Prepare", s, None)] * 3
            for x in hosts:
                if p["up"][x] and len(ups) > 1:
                    ops.append(("HostDown", None, x))
                if not p["up"][x]:
                    ops += [("HostUp", None, x)] * 2
                if p["up"][x] and p["srv"][x]:
                    ops.append(("Evict", None, x))
            if not ops:
                break
            name, s, x = rng.choice(ops)
            act = {"name": name}
            if s is not None:
                act["s"] = s
            if x is not None:
                act["h"] = x
            obs = h.do(act)
            p = h.project()
            ev = {"e": name, "post": {"up": [p["up"][y] for y in hosts],
                                      "srv": [sorted(list(i) for i in p["srv"][y]) for y in hosts],
                                      "cache": sorted([list(k), v] for k, v in p["cache"].items())}}
            ev.update({k: v for k, v in act.items() if k != "name"})
            if name == "Prepare":
                ev["coord"], ev["id"] = obs.get("coord"), obs.get("id")
            elif name == "Execute":
                ev["unprepared"], ev["rows"] = bool(obs.get("unprepared")), obs.get("rows")
            elif name == "HostUp":
                ev["prepares"] = [list(q) for q in obs.get("prepares", [])]
            if obs.get("error"):
                ev["error"] = obs["error"]
            if p["foreign_keyspace_connections"] or p["extra_connections"] > 0:
                ev["leak"] = [p["foreign_keyspace_connections"], p["extra_connections"]]
            events.append(ev)
            if obs.get("error"):
                break
    finally:
        h.shutdown()
    return events
