"""Binding between spec/Timestamps.tla and the real cassandra.timestamps.MonotonicTimestampGenerator.

The generator's two functions run under DetSched *line mode* (every source line of __call__ and
_next_timestamp is a pre-emption point), its lock is replaced by an instrumented DLock, and the module
global `time` of cassandra.timestamps is replaced by a scripted clock.  Nothing in /repo is edited.

Observation is by effects, not by line numbers, so it also works on a mutated driver:

    acq   the DLock was acquired by the logical thread            <-> Acquire(t)
    read  the scripted clock was read and returned v microseconds  <-> ReadClock(t, v)
    set   `self.last = x` was executed (a property on a subclass)  <-> Compute(t), last' = x
    warn  log.warning was called (cassandra.timestamps.log replaced) <-> the w flag of Compute(t)
    rel   the DLock is released                                    <-> Release(t)
    ret   the call returned x to its caller                        (checked against ret[t])

    unlocked  `self.last` was read or written by a thread that does not hold the lock   (matches no action)

Design choice (Timestamps.tla ReadOutsideLock): the property does not say where the clock is read.  probe_design()
runs one call on the real code and looks whether the clock-read event comes before or after the lock acquisition;
replay and trace validation are done against that design.  A second reading, a reading after Compute, or `last`
touched without the lock stay divergences in either design.

spec -> code: replay() drives the threads action by action along a TLC behaviour, requires exactly the
events of that action, compares (lock owner, last, returned values) after each action and checks that every
thread whose Acquire is disabled in the spec is really *blocked* on the lock (DetSched.step raises Blocked).
code -> spec: record() runs a seeded random line-level schedule and returns the event list for
Trace_Timestamps.tla.
"""
from harness.pyenv import repo_import
from harness.sim.detsched import DetSched, DLock, Blocked


class Divergence(Exception):
    pass


class LoggingLock(DLock):
    def __init__(self, name, harness):
        DLock.__init__(self, name, yield_on_release=True)
        self.h = harness

    def acquire(self, blocking=True, timeout=-1):
        r = DLock.acquire(self, blocking, timeout)
        self.h.held[self.h.who()] = self.h.held.get(self.h.who(), 0) + 1
        self.h.log("acq")
        return r

    __enter__ = acquire

    def release(self):
        self.h.log("rel")
        self.h.held[self.h.who()] = self.h.held.get(self.h.who(), 0) - 1
        DLock.release(self)

    def __exit__(self, *a):
        self.release()


class NullLock:
    """A lock that does not lock (sensitivity self-test: what a generator without the lock looks like)."""

    def __enter__(self):
        return True

    def __exit__(self, *a):
        pass

    acquire = __enter__

    def release(self):
        pass


class Clock:
    """Stands in for the `time` module inside cassandra.timestamps."""

    def __init__(self, harness):
        self.h = harness
        self.next = None          # replay: the value the next read returns (microseconds)
        self.rng = None           # record: seeded choice in 0..M
        self.M = 0

    def time(self):
        if self.rng is not None:
            v = self.rng.randint(0, self.M)
        else:
            v = self.next
            self.next = None
            if v is None:
                self.h.log("read", None)
                raise Divergence("clock read where the specification has no ReadClock step")
        self.h.log("read", v)
        return v / 1e6


class FakeLog:
    """Stands in for the module logger of cassandra.timestamps: counts the clock-skew warnings."""

    def __init__(self, harness):
        self.h = harness

    def warning(self, *a, **kw):
        self.h.warnings += 1
        self.h.log("warn")

    def __getattr__(self, name):             # debug / info / ...: ignored
        return lambda *a, **kw: None


DEFAULT_CONF = {"warn": True, "eager": False}


class TsHarness:
    def __init__(self, n, k, m, null_lock=False, conf=None):
        try:
            self._init(n, k, m, null_lock, conf)
        except BaseException:                 # the driver code failed while the harness was being set up: undo the patches
            self.close()
            raise

    def _init(self, n, k, m, null_lock, conf):
        self.ts = repo_import("cassandra.timestamps")
        for v in range(0, m + 1):
            if int(v / 1e6 * 1e6) != v:
                raise RuntimeError("clock value %d does not survive the float round trip" % v)
        self.n, self.k, self.m = n, k, m
        self.events = []
        self.rets = {t: [] for t in range(1, n + 1)}
        self.errors = {}
        self.warnings = 0
        self.conf = conf = dict(conf or DEFAULT_CONF)
        h = self

        class Probe(self.ts.MonotonicTimestampGenerator):
            def _get(self):
                h.check_locked()
                return self.__dict__["_probe_last"]

            def _set(self, v):
                h.check_locked()
                self.__dict__["_probe_last"] = v
                h.log("set", v)
            last = property(_get, _set)

        self.sched = DetSched()
        # Whichever way the generator gets its lock (created in __init__, lazily, per call, ...), it gets an
        # instrumented one: the Lock class of the timestamps module is replaced before the generator exists.
        # Mutual exclusion is judged on the effects (acq / rel events of whatever locks there are, `last` touched by
        # a thread that holds none), not on one particular lock object.
        self.held = {}
        self.locks = []
        self.saved_lock_class = self.ts.Lock

        def make_lock(*a, **kw):
            lk = NullLock() if null_lock else LoggingLock("ts%d" % (len(self.locks) + 1), self)
            self.locks.append(lk)
            return lk
        self.ts.Lock = make_lock
        # the configuration only governs logging: warn_on_drift, and threshold / interval 0 ("eager") or the defaults
        self.gen = Probe(warn_on_drift=bool(conf["warn"]), warning_threshold=0 if conf["eager"] else 1,
                         warning_interval=0 if conf["eager"] else 1)
        self.held.clear()
        self.clock = Clock(self)
        self.saved_time, self.saved_log = self.ts.time, self.ts.log
        self.ts.time = self.clock
        self.ts.log = FakeLog(self)
        self.events.clear()
        base = self.ts.MonotonicTimestampGenerator
        self.sched.trace_files(self.ts.__file__)     # every function of timestamps.py, however the generator is cut up
        for t in range(1, n + 1):
            self.sched.spawn(str(t), self._body, t)

    def close(self):
        if getattr(self, "sched", None) is not None:
            self.sched.close()
        ts = getattr(self, "ts", None)
        if ts is not None:
            if hasattr(self, "saved_time"):
                ts.time, ts.log = self.saved_time, self.saved_log
            if hasattr(self, "saved_lock_class"):
                ts.Lock = self.saved_lock_class

    def _body(self, t):
        for _ in range(self.k):
            x = self.gen()
            self.rets[t].append(x)
            self.log("ret", x)

    def check_locked(self):
        """`last` may only be touched by the logical thread that holds the generator's lock."""
        a = self.sched.active
        if a is None:
            return                                   # the harness itself / __init__ before the threads exist
        if self.held.get(int(a.name), 0) <= 0:
            self.log("unlocked")

    def who(self):
        a = self.sched.active
        return int(a.name) if a is not None else 0

    def log(self, kind, val=None):
        self.events.append((kind, self.who(), val))

    # ---- stepping helpers
    def step(self, t):
        """One DetSched step of thread t; exceptions of the code under test become Divergence."""
        try:
            return self.sched.step(str(t))
        except Blocked:
            raise
        except Divergence:
            raise
        except Exception as ex:                      # noqa - misbehaving code under test
            self.errors[t] = repr(ex)
            raise Divergence("thread %d raised %r" % (t, ex))

    def until_event(self, t, kind, limit=80):
        """Step t until it has produced an event of `kind`; returns the events produced on the way."""
        start = len(self.events)
        for _ in range(limit):
            label = self.step(t)
            new = self.events[start:]
            if any(e[0] == kind for e in new):
                return new
            if label == "end":
                break
        raise Divergence("thread %d did not produce '%s' (events %s)" % (t, kind, self.events[start:]))

    def to_lock(self, t, limit=120):
        """Internal steps: bring t to the point where it asks for the lock (or to its end)."""
        start = len(self.events)
        th = self.sched.threads[str(t)]
        for _ in range(limit):
            if th.done or (th.waiting_for is not None and th.at.startswith("acq:")):
                return self.events[start:]
            self.step(t)
        raise Divergence("thread %d neither finishes nor asks for the lock" % t)

    def all_to_lock(self, rounds=None, limit=400):
        """Bring every thread to the point where it asks for a lock.  Whatever the code does before its first
        acquisition (e.g. creating the lock lazily: check, then act) is interleaved adversarially: `rounds` rounds
        of ONE LINE per thread in turn, then each thread in turn runs on to its lock request (rounds=None: line by
        line in turn all the way).  The caller varies `rounds` from behaviour to behaviour."""
        start = len(self.events)
        for r in range(limit):
            if rounds is not None and r >= rounds:
                for t in range(1, self.n + 1):
                    self.to_lock(t)
                return self.events[start:]
            moved = False
            for t in range(1, self.n + 1):
                th = self.sched.threads[str(t)]
                if th.done or (th.waiting_for is not None and th.at.startswith("acq:")):
                    continue
                self.step(t)
                moved = True
            if not moved:
                return self.events[start:]
        raise Divergence("threads neither finish nor ask for the lock")

    def project(self):
        holders = sorted(t for t, c in self.held.items() if c > 0 and t != 0)
        return {"lock": (holders[0] if len(holders) == 1 else tuple(holders)) if holders else 0,
                "last": self.gen.__dict__["_probe_last"], "warnings": self.warnings,
                "rets": {t: list(v) for t, v in self.rets.items()}}


def spec_view(st):
    rets = {t: [] for t in range(1, len(st["pc"]) + 1)}
    for h in st["hist"]:
        rets[h["t"]].append(h["x"])
    return {"lock": st["lock"], "last": st["last"], "warnings": st["warnings"], "rets": rets}


def _seq(fn):
    """TLC prints a function with domain 1..n as a tuple."""
    return {i + 1: v for i, v in enumerate(fn)} if isinstance(fn, (tuple, list)) else {int(k): v for k, v in dict(fn).items()}


def probe_design():
    """One call of the real generator under the harness: is the clock read before the lock is acquired?
    Returns True (ReadOutsideLock), False (read under the lock) or None when the call shows neither order
    (no lock acquisition or no clock reading at all - the replay against the pinned design will then diverge)."""
    try:
        h = TsHarness(1, 1, 1)
    except Exception:                                       # noqa - misbehaving code under test
        return None
    h.clock.next = 1
    try:
        try:
            h.sched.finish("1")
        except Exception:                                   # noqa - misbehaving code under test
            pass
        kinds = [e[0] for e in h.events]
        if "acq" in kinds and "read" in kinds:
            return kinds.index("read") < kinds.index("acq")
        return None
    finally:
        h.close()


def replay(consts, states, corrupt=None, start_rounds=None):
    """Replay one behaviour (list of spec states, first = initial). Returns None or a divergence dict.
    Also returns the number of blocking checks made: (divergence, blocked_checks).
    consts["ReadOutsideLock"] (bool) is the design the behaviour was generated for."""
    outside = bool(consts.get("ReadOutsideLock", False))
    c0 = states[0]["conf"]
    try:
        h = TsHarness(consts["N"], consts["K"], consts["M"], conf={"warn": bool(c0["warn"]), "eager": bool(c0["eager"])})
    except Exception as ex:                                 # noqa - the driver code fails under the harness
        return ({"step": 0, "action": {"name": "construct", "t": 0, "v": 0}, "kind": "construct",
                 "diff": {"what": "constructing the generator raised %r" % (ex,)}}, 0)
    blocked_checks = 0
    step_no = 0
    try:
        try:
            if not outside:                             # (outside: the first thing a call does is to read the clock)
                ev = h.all_to_lock(start_rounds)
                if ev:
                    raise Divergence("threads act before asking for the lock: %s" % (ev,))
            for step_no in range(1, len(states)):
                st = states[step_no]
                a = st["act"]
                name, t, v = a["name"], a["t"], a["v"]
                before = len(h.events)
                if name == "Acquire":
                    new = h.until_event(t, "acq", limit=1)
                    expect = [("acq", t, None)]
                elif name == "ReadClock":
                    h.clock.next = v
                    new = h.until_event(t, "read")
                    if outside:
                        h.to_lock(t)                    # ... and goes on to the point where it asks for the lock
                    expect = [("read", t, v)]
                elif name == "Compute":
                    new = h.until_event(t, "set")
                    expect = [("warn", t, None)] * a.get("w", 0) + [("set", t, v)]
                elif name == "Release":
                    new = h.until_event(t, "rel")
                    if not h.sched.threads[str(t)].done:
                        h.until_event(t, "ret")         # the caller gets the value (parks before the next call's first line)
                    if not outside:
                        h.to_lock(t)
                    expect = [("rel", t, None), ("ret", t, v)]
                else:
                    raise RuntimeError("unknown action %s" % name)
                new = h.events[before:]
                if new != expect:
                    raise Divergence("events %s, specification expects %s" % (new, expect))
                want = spec_view(st)
                if corrupt and corrupt[0] == step_no:
                    want[corrupt[1]] = corrupt[2]
                got = h.project()
                if got != want:
                    return ({"step": step_no, "action": dict(a), "kind": "state",
                             "diff": {k: {"spec": want[k], "code": got[k]} for k in want if want[k] != got[k]}},
                            blocked_checks)
                # enabledness of Acquire: blocked exactly where the spec disables it
                pc, calls = _seq(st["pc"]), _seq(st["calls"])
                for u in range(1, h.n + 1):
                    wants = (pc[u] == "clock") if outside else (pc[u] == "idle" and calls[u] < h.k)
                    if not wants:
                        continue
                    th = h.sched.threads[str(u)]
                    if st["lock"] != 0:
                        try:
                            h.sched.step(str(u))
                        except Blocked:
                            blocked_checks += 1
                        else:
                            return ({"step": step_no, "action": dict(a), "kind": "not-blocked",
                                     "diff": {"thread": u, "lock_owner_in_spec": st["lock"]}}, blocked_checks)
                    elif th.is_blocked() or th.done:
                        return ({"step": step_no, "action": dict(a), "kind": "blocked-but-enabled",
                                 "diff": {"thread": u}}, blocked_checks)
            return None, blocked_checks
        except Divergence as d:
            a = states[step_no]["act"] if step_no else {"name": "start", "t": 0, "v": 0}
            return ({"step": step_no, "action": dict(a), "kind": "events", "diff": {"what": str(d)}}, blocked_checks)
    finally:
        h.close()


def record(consts, rng, null_lock=False, conf=None):
    """Run a seeded random line-level schedule; returns (trace events for Trace_Timestamps, returned values).
    The first event carries the generator's configuration."""
    try:
        h = TsHarness(consts["N"], consts["K"], consts["M"], null_lock=null_lock, conf=conf)
    except Exception as ex:                                 # noqa - the driver code fails under the harness
        c = dict(conf or DEFAULT_CONF)
        return ([{"e": "conf", "warn": bool(c["warn"]), "eager": bool(c["eager"]), "t": 0, "v": 0, "x": 0, "w": 0},
                 {"e": "raise", "t": 0, "v": 0, "x": 0, "w": 0, "cls": type(ex).__name__}], [])
    h.clock.rng, h.clock.M = rng, consts["M"]
    try:
        try:
            h.sched.run_random(rng)
        except Exception as ex:                       # noqa - misbehaving code under test / deadlock
            h.events.append(("raise", 0, type(ex).__name__))
        trace = [{"e": "conf", "warn": bool(h.conf["warn"]), "eager": bool(h.conf["eager"]), "t": 0, "v": 0, "x": 0, "w": 0}]
        pending_warn = {}
        for kind, t, val in h.events:
            if kind == "warn":                        # folded into the w field of the thread's next "set"
                pending_warn[t] = pending_warn.get(t, 0) + 1
                continue
            e = {"e": kind, "t": t, "v": 0, "x": 0, "w": 0}
            if kind == "set":
                e["w"] = pending_warn.pop(t, 0)
            if kind == "read":
                e["v"] = val
            elif kind in ("set", "ret"):
                e["x"] = val if isinstance(val, int) and not isinstance(val, bool) and abs(val) < 2 ** 31 else -1
            elif kind == "raise":
                e["cls"] = val
            trace.append(e)
        if pending_warn:
            trace.append({"e": "stray-warning", "t": 0, "v": 0, "x": 0, "w": 1})
        return trace, [x for t in sorted(h.rets) for x in h.rets[t]]
    finally:
        h.close()
