"""Binding of spec/Placement.tla to the real metadata objects (C26, replica input of C22).

A Placement.tla "done" state is an instance:
    ring  : tuple of owners (host numbers 1..n), position i has token 2*i
    dc    : tuple host -> datacenter number,  rack : tuple host -> rack number
    strat : {"kind": "Simple", "rf": n} | {"kind": "NTS", "rfs": (rf of dc 1, rf of dc 2, ...)}
    hist  : every setting the keyspace has had, oldest first (AlterReplication); strat is the last one
    expected : per ring position the replica set (host numbers)
    byKey    : per key position 1..2L+1 the replica set

Real side: cassandra.pool.Host objects with set_location_info, a real cassandra.metadata.Metadata
whose token map is built by the real rebuild_token_map (ByteOrderedPartitioner: tokens and keys are
plain bytes, so no hash is involved), a real KeyspaceMetadata with the strategy options, and
Metadata.get_replicas(keyspace, key).

Token of ring position i = one byte 0x10*i (hex string for rebuild_token_map); key position k =
one byte 0x08*k, so even k hits token k/2 exactly and odd k lies strictly between two tokens (k = 1:
before the first token, k = 2L+1: after the last one).  Needs L <= 15.
"""
from harness.pyenv import repo_import

BOP = "org.apache.cassandra.dht.ByteOrderedPartitioner"
KS = "ks"


def host_addr(h):
    return "10.0.0.%d" % h


def dc_name(d):
    return "dc%d" % d


def rack_name(r):
    return "r%d" % r


def token_hex(i):
    return "%02x" % (0x10 * i)


def key_bytes(k):
    return bytes([0x08 * k])


def strategy_options(strat):
    """(strategy_class, options) as the schema parser would hand them to KeyspaceMetadata."""
    if strat["kind"] == "Simple":
        return "org.apache.cassandra.locator.SimpleStrategy", {"replication_factor": str(strat["rf"])}
    # a datacenter with rf 0 is a datacenter that is not listed in the options (DESIGN section 13, C26)
    # ("zero": "explicit": such a datacenter is listed with '0')
    explicit = strat.get("zero") == "explicit"
    opts = {dc_name(d + 1): str(rf) for d, rf in enumerate(strat["rfs"]) if rf > 0 or explicit}
    return "org.apache.cassandra.locator.NetworkTopologyStrategy", opts


def make_hosts(dc, rack):
    pool = repo_import("cassandra.pool")
    pol = repo_import("cassandra.policies")
    conn = repo_import("cassandra.connection")
    hosts = {}
    for h in range(1, len(dc) + 1):
        host = pool.Host(conn.DefaultEndPoint(host_addr(h)), pol.SimpleConvictionPolicy)
        host.set_location_info(dc_name(dc[h - 1]), rack_name(rack[h - 1]))
        hosts[h] = host
    return hosts


def build_metadata(ring, hosts, strategies, shuffle_rng=None):
    """Real Metadata with the ring's token map and one keyspace per strategy (named ks0, ks1, ...).
    `hosts`: number -> Host.  The {host: [token strings]} map is handed over in a shuffled order when
    `shuffle_rng` is given (the order of system.peers rows is arbitrary)."""
    md_mod = repo_import("cassandra.metadata")
    md = md_mod.Metadata()
    for h in hosts.values():
        md.add_or_return_host(h)
    tokens = {}
    for i, o in enumerate(ring, 1):
        tokens.setdefault(o, []).append(token_hex(i))
    items = list(tokens.items())
    if shuffle_rng is not None:
        shuffle_rng.shuffle(items)
        for _, ts in items:
            shuffle_rng.shuffle(ts)
    md.rebuild_token_map(BOP, {hosts[o]: ts for o, ts in items})
    names = []
    for n, s in enumerate(strategies):
        cls, opts = strategy_options(s)
        name = "%s%d" % (KS, n)
        md.keyspaces[name] = md_mod.KeyspaceMetadata(name, True, cls, opts)
        names.append(name)
    return md, names


class _AllKeyspaces(object):
    """The part of a schema parser Metadata._rebuild_all reads."""

    def __init__(self, metas):
        self._metas = metas

    def get_all_keyspaces(self):
        return list(self._metas)


def install_keyspace(md, name, strat, via="update"):
    """Install (new) replication settings for keyspace `name` the way a schema refresh does:
    via="update"      Metadata._update_keyspace(meta)   (refresh of one keyspace / CREATE, ALTER KEYSPACE events)
    via="rebuild_all" Metadata._rebuild_all(parser)     (full schema refresh)"""
    md_mod = repo_import("cassandra.metadata")
    cls, opts = strategy_options(strat)
    meta = md_mod.KeyspaceMetadata(name, True, cls, opts)
    if via == "rebuild_all":
        md._rebuild_all(_AllKeyspaces([meta]))
    else:
        md._update_keyspace(meta)
    return meta


def number_of(hosts):
    return {id(v): k for k, v in hosts.items()}


def replicas_by_key(md, ksname, hosts, L):
    """key position -> list of host numbers as returned by the real get_replicas (order kept)."""
    inv = {v.endpoint: k for k, v in hosts.items()}
    out = {}
    for k in range(1, 2 * L + 2):
        reps = md.get_replicas(ksname, key_bytes(k))
        out[k] = [inv.get(getattr(r, "endpoint", None), repr(r)) for r in reps]
    return out


def strat_of(s):
    strat = {"kind": str(s["kind"])}
    if strat["kind"] == "Simple":
        strat["rf"] = int(s["rf"])
    else:
        strat["rfs"] = [int(x) for x in s["rfs"]]
        if "zero" in s and str(s["zero"]) == "explicit":
            strat["zero"] = "explicit"
    return strat


def instance_of(state):
    """JSON-able instance from a TLC state dict (with "hist": all settings the keyspace had, when altered)."""
    strat = strat_of(state["strat"])
    inst = {"ring": [int(x) for x in state["ring"]], "dc": [int(x) for x in state["dc"]],
            "rack": [int(x) for x in state["rack"]], "strat": strat,
            "byKey": [sorted(int(h) for h in state["byKey"][k]) for k in range(len(state["byKey"]))]}
    if "hist" in state and len(state["hist"]) > 1:
        inst["hist"] = [strat_of(h) for h in state["hist"]]
    if "log" in state and any(str(e["op"]) == "move" for e in state["log"]):
        inst["hist"] = [strat_of(h) for h in state["hist"]]
        inst["dc0"] = [int(x) for x in state["dc0"]]
        inst["rack0"] = [int(x) for x in state["rack0"]]
        inst["log"] = [{"op": "alter", "s": strat_of(e["s"])} if str(e["op"]) == "alter" else
                       {"op": "move", "h": int(e["h"]), "d": int(e["d"]), "r": int(e["r"])} for e in state["log"]]
    return inst


def evaluate(inst, shuffle_rng=None):
    """Run the real code on one instance.  Returns list of mismatches:
    {"key": k, "spec": sorted expected, "code": list as returned, "why": "set"|"repeat"|"exception"}."""
    L = len(inst["ring"])
    hosts = make_hosts(inst["dc"], inst["rack"])
    try:
        hist = inst.get("hist") or [inst["strat"]]
        md, names = build_metadata(inst["ring"], hosts, [hist[0]], shuffle_rng)
        for n, s in enumerate(hist[1:]):
            replicas_by_key(md, names[0], hosts, L)          # lookups under the old settings (fills the replica cache)
            install_keyspace(md, names[0], s, via="rebuild_all" if (n + len(inst["ring"])) % 2 else "update")
        got = replicas_by_key(md, names[0], hosts, L)
    except Exception as ex:                                  # a broken driver must not crash the check
        return [{"key": 0, "spec": None, "code": "%s: %s" % (type(ex).__name__, ex), "why": "exception"}]
    bad = []
    for k in range(1, 2 * L + 2):
        exp = sorted(inst["byKey"][k - 1])
        code = got[k]
        if len(code) != len(set(code)):
            bad.append({"key": k, "spec": exp, "code": code, "why": "repeat",
                        "set_differs": sorted(set(code), key=repr) != sorted(exp, key=repr)})
        elif sorted(code, key=repr) != sorted(exp, key=repr):
            bad.append({"key": k, "spec": exp, "code": code, "why": "set"})
    return bad


# ------------------------------------------------------------------------------------------- histories with host moves
# Bound on a real Cluster over the simulated nodes (harness/sim): the node list and the token map come from the real
# ControlConnection._refresh_node_list_and_token_map reading system.local / system.peers of FakeNodes.

class ClusterRing(object):
    """Real Cluster + ControlConnection + Metadata over FakeNodes laid out as (ring, dc, rack); host 1 is the contact
    point (and control host).  Nothing is checked here."""

    def __init__(self, ring, dc, rack, lbp=None):
        repo_import("cassandra.cluster")
        from harness.sim.simcluster import SimWorld, FakeNode, make_cluster
        self.world = SimWorld()
        self.nodes = {}
        tokens = {}
        for i, o in enumerate(ring, 1):
            tokens.setdefault(o, []).append(token_hex(i))
        for h in range(1, len(dc) + 1):
            self.nodes[h] = self.world.add_node(FakeNode(host_addr(h), dc=dc_name(dc[h - 1]), rack=rack_name(rack[h - 1]),
                                                         tokens=tokens.get(h, ["f%d" % h])))
        self.cluster = make_cluster(self.world, [host_addr(1)], lbp=lbp)
        self.session = self.cluster.connect()
        self.md = self.cluster.metadata
        self.L = len(ring)

    def install(self, name, strat, via="update"):
        install_keyspace(self.md, name, strat, via)

    def move(self, h, d, r):
        """The node is reported in another datacenter/rack from now on; the driver learns it from a node-list refresh."""
        self.nodes[h].dc, self.nodes[h].rack = dc_name(d), rack_name(r)
        return self.cluster.control_connection.refresh_node_list_and_token_map()

    def replicas(self, name):
        out = {}
        for k in range(1, 2 * self.L + 2):
            reps = self.md.get_replicas(name, key_bytes(k))
            out[k] = [int(r.address.rsplit(".", 1)[1]) if r.address.startswith("10.0.0.") else repr(r) for r in reps]
        return out

    def close(self):
        try:
            self.cluster.shutdown()
        except Exception:
            pass


def evaluate_history(inst):
    """An instance with "log" (alterations and host moves after the ring was built) on a real Cluster.
    Replicas of every key are looked up before every step (so that they are cached); the answers after the last
    step are compared with inst["byKey"].  Returns mismatches like evaluate()."""
    cr = None
    try:
        cr = ClusterRing(inst["ring"], inst["dc0"], inst["rack0"])
        cr.install(KS, inst["hist"][0])
        for n, e in enumerate(inst["log"]):
            cr.replicas(KS)
            if e["op"] == "alter":
                cr.install(KS, e["s"], via="rebuild_all" if n % 2 else "update")
            else:
                cr.move(e["h"], e["d"], e["r"])
        got = cr.replicas(KS)
    except Exception as ex:
        return [{"key": 0, "spec": None, "code": "%s: %s" % (type(ex).__name__, ex), "why": "exception"}]
    finally:
        if cr is not None:
            cr.close()
    bad = []
    for k in range(1, 2 * len(inst["ring"]) + 2):
        exp = sorted(inst["byKey"][k - 1])
        code = got[k]
        if len(code) != len(set(code)):
            bad.append({"key": k, "spec": exp, "code": code, "why": "repeat"})
        elif sorted(code, key=repr) != sorted(exp, key=repr):
            bad.append({"key": k, "spec": exp, "code": code, "why": "set"})
    return bad
