"""Binding between spec/Handshake.tla and the real connection handshake (C47).

A real SimConnection is created through the real ``Connection.factory`` against a ScriptNode that
never answers by itself.  When ``factory`` blocks on ``connected_event.wait()`` (SimEvent -> world.on_block)
the script delivers the server replies one at a time as real frames built by harness/wire.py (plain
frames before the server accepted STARTUP, afterwards - like a real server - compressed with the
negotiated algorithm and, for v5, inside checksummed segments).  After every reply the connection is
projected onto the specification's variables, *from the outside*: connected_event / last_error /
is_defunct / is_closed, compressor / _is_checksumming_enabled, and every byte string the connection
wrote, decoded by the independent codec (compressed flag, which algorithm, segment framing or not).

lz4 / snappy are not installed: ``local_algorithms`` puts stand-ins that follow the driver's calling
convention (lz4: 4 byte big-endian length prefix, see the wrappers at the top of cassandra/connection.py)
into ``cassandra.connection.locally_supported_compressions`` / ``segment_codec_lz4`` and restores them.
"""
import contextlib
import struct
import zlib
from collections import OrderedDict

from harness import pyenv, wire
from harness.sim.simconn import SimWorld, SimConnection

pyenv.setup()
import cassandra.connection as cconn                      # noqa: E402
from cassandra.connection import DefaultEndPoint          # noqa: E402
from cassandra.auth import PlainTextAuthProvider          # noqa: E402
from cassandra import AuthenticationFailed                 # noqa: E402
from cassandra.segment import SegmentCodec                # noqa: E402
from cassandra.protocol import QueryMessage               # noqa: E402

ADDR = "10.9.0.1"
USER, PASSWORD = "u" * 40, "p" * 60
PROBE_QUERY = "SELECT * FROM ks.t WHERE k = '%s'" % ("a" * 160)
VARS = ("phase", "outcome", "dead", "compOn", "cksum", "negotiated", "sent")


# ------------------------------------------------------------------ stand-in algorithms
def lz4_compress(b):
    return struct.pack(">I", len(b)) + b"L" + zlib.compress(bytes(b))


def lz4_decompress(b):
    b = bytes(b)
    if b[4:5] != b"L":
        raise ValueError("lz4 stand-in: not my data")
    out = zlib.decompress(b[5:])
    if len(out) != struct.unpack(">I", b[:4])[0]:
        raise ValueError("lz4 stand-in: length prefix wrong")
    return out


def snappy_compress(b):
    return b"S" + zlib.compress(bytes(b))


def snappy_decompress(b):
    b = bytes(b)
    if b[:1] != b"S":
        raise ValueError("snappy stand-in: not my data")
    return zlib.decompress(b[1:])


STANDINS = {"lz4": (lz4_compress, lz4_decompress), "snappy": (snappy_compress, snappy_decompress)}


@contextlib.contextmanager
def local_algorithms(local):
    """Make exactly `local` (subset of {'lz4','snappy'}) the locally available algorithms, lz4 first."""
    saved = (cconn.locally_supported_compressions, cconn.segment_codec_lz4)
    d = OrderedDict()
    for name in ("lz4", "snappy"):
        if name in local:
            d[name] = STANDINS[name]
    cconn.locally_supported_compressions = d
    cconn.segment_codec_lz4 = SegmentCodec(lz4_compress, lz4_decompress) if "lz4" in local else None
    try:
        yield
    finally:
        cconn.locally_supported_compressions, cconn.segment_codec_lz4 = saved


# ------------------------------------------------------------------ the factory thread's point of view
class WatchedEvent:
    """connected_event of the connection under test.  set() is the instant at which a thread blocked in
    Connection.factory (connected_event.wait()) can be woken: right then the factory-side decision
    (`if conn.last_error: raise ... else: return conn`) is evaluated and logged, i.e. what that thread would
    do if it ran immediately - before the event-loop thread executes its next statement."""

    def __init__(self, conn, inner):
        self._conn, self._inner = conn, inner

    def set(self):
        first = not self._inner.is_set()
        self._inner.set()
        if first:
            conn = self._conn
            err = conn.last_error
            conn.wakes.append(classify(err) if err else "ready")

    def is_set(self):
        return self._inner.is_set()

    isSet = is_set

    def clear(self):
        self._inner.clear()

    def wait(self, timeout=None):
        return self._inner.wait(timeout)


class WatchedConnection(SimConnection):
    """SimConnection whose connected_event (whatever Connection.__init__ assigns) is wrapped in a WatchedEvent."""

    @property
    def connected_event(self):
        return self.__dict__["_watched_event"]

    @connected_event.setter
    def connected_event(self, ev):
        self.__dict__.setdefault("wakes", [])
        self.__dict__["_watched_event"] = WatchedEvent(self, ev)

    # which reactor's close() contract applies when the peer closes the socket (see CloseSteps in Handshake.tla):
    # "record_set" asyncore (= SimConnection.close), "set_only" asyncio/eventlet/gevent/twisted close(), "no_set" libev
    close_contract = "record_set"

    def close(self):
        if self.close_contract == "record_set":
            return SimConnection.close(self)
        with self.lock:
            if self.is_closed:
                return
            self.is_closed = True
        self.close_log.append((self.world.clock.now, self.in_flight, len(self.orphaned_request_ids)))
        if self.node is not None:
            self.node.on_close(self)
        if not self.is_defunct:
            self.error_all_requests(cconn.ConnectionShutdown("Connection to %s was closed" % self.endpoint))
            if self.close_contract == "set_only":
                self.connected_event.set()


# ------------------------------------------------------------------ the scripted server
class ScriptNode:
    """A node that accepts connections, keeps what they write and says nothing by itself."""

    def __init__(self, address):
        self.address = address
        self.accepting = True
        self.world = None
        self.chunks = {}

    def on_open(self, conn):
        self.chunks[conn] = []

    def on_close(self, conn):
        pass

    def on_bytes(self, conn, data):
        self.chunks[conn].append(bytes(data))


_decode_cache = {}


def _inflate(body):
    """-> (algorithm name, plain body) for a frame body produced by one of the stand-ins."""
    try:
        if body[4:5] == b"L":
            return "lz4", lz4_decompress(body)
        if body[:1] == b"S":
            return "snappy", snappy_decompress(body)
    except Exception:
        pass
    return "?", body


def decode_chunk(raw):
    """One push() of the connection -> list of {op, comp, seg, alg, stream, body, segfmt}."""
    got = _decode_cache.get(raw)
    if got is not None:
        return got
    out = None
    for fmt in (False, True):
        marks = []

        def dec(p, un, marks=marks):
            marks.append(bytes(p[:1]))
            o = zlib.decompress(bytes(p[1:]))
            if len(o) != un:
                raise ValueError("segment: uncompressed length wrong")
            return o
        try:
            segs, rest = wire.decode_segments(raw, compression=fmt, decompress=dec)
        except Exception:
            continue
        if segs and not rest:
            frames, left = wire.parse_frames(b"".join(p for p, _ in segs))
            out = []
            for f in frames:
                alg = "none"
                if marks:
                    alg = "lz4" if all(m == b"L" for m in marks) else "?"
                op = wire.OPNAMES.get(f.opcode, str(f.opcode))
                if f.flags & wire.FLAG_COMPRESSED or left:
                    op += "!anomaly"
                out.append({"op": op, "comp": bool(marks), "seg": True, "alg": alg, "stream": f.stream,
                            "body": f.body, "segfmt": fmt, "version": f.version})
            if not frames:
                out.append({"op": "?!segment-without-frame", "comp": bool(marks), "seg": True, "alg": "?",
                            "stream": 0, "body": b"", "segfmt": fmt, "version": 0})
            break
    if out is None:
        try:
            frames, left = wire.parse_frames(raw)
        except Exception:
            frames, left = [], raw
        out = []
        for f in frames:
            comp = bool(f.flags & wire.FLAG_COMPRESSED)
            alg, body = _inflate(f.body) if comp else ("none", f.body)
            op = wire.OPNAMES.get(f.opcode, str(f.opcode))
            if f.response:
                op += "!anomaly"
            out.append({"op": op, "comp": comp, "seg": False, "alg": alg, "stream": f.stream, "body": body,
                        "segfmt": None, "version": f.version})
        if left or not frames:
            out.append({"op": "?!undecodable", "comp": False, "seg": False, "alg": "?", "stream": 0,
                        "body": b"", "segfmt": None, "version": 0})
    _decode_cache[raw] = out
    if len(_decode_cache) > 20000:
        _decode_cache.clear()
    return out


def decode_sent(chunks):
    out = []
    for c in chunks:
        out.extend(decode_chunk(c))
    return out


def startup_compression(frames):
    for f in frames:
        if f["op"] == "STARTUP":
            try:
                return wire.Reader(f["body"]).stringmap().get("COMPRESSION", "none")
            except Exception:
                return "?"
    return "none"


class Server:
    """Protocol-conformant sender: switches to compression / segments after it accepted STARTUP."""

    def __init__(self, node, conn, ver, rng=None):
        self.node, self.conn, self.ver, self.rng = node, conn, ver, rng
        self.accepted = False

    def _frames(self):
        return decode_sent(self.node.chunks[self.conn])

    def send(self, opcode, body):
        frames = self._frames()
        last = frames[-1] if frames else {"op": "OPTIONS", "stream": 0}
        neg = startup_compression(frames)
        flags = 0
        segmented = self.accepted and 5 <= self.ver < 65
        if self.accepted and neg in STANDINS and not segmented and body:
            body = STANDINS[neg][0](body)
            flags |= wire.FLAG_COMPRESSED
        raw = wire.encode_frame(self.ver, flags, last["stream"], opcode, body, response=True)
        if segmented:
            if neg == "lz4":
                z = b"L" + zlib.compress(raw)
                raw = wire.encode_segment(z, True, True, len(raw)) if len(z) < len(raw) \
                    else wire.encode_segment(raw, True, True, 0)
            else:
                raw = wire.encode_segment(raw, True, False, 0)
        if opcode in (wire.READY, wire.AUTHENTICATE) and last["op"] == "STARTUP":
            self.accepted = True
        self._feed(raw, split=not segmented)

    def _feed(self, raw, split=True):
        # Random chunking only for plain frames: reassembly of checksummed segments from partial reads is
        # the business of the framing property (C06), where the pinned driver has known defects (a read
        # shorter than the segment header is dropped; segment_length is 2 short for an uncompressed payload
        # on a compressing connection) that must not be attributed to the handshake.
        conn = self.conn
        pieces = [raw]
        if split and self.rng is not None and len(raw) > 2 and self.rng.random() < 0.5:
            cut = self.rng.randrange(1, len(raw))
            pieces = [raw[:cut], raw[cut:]]
        for p in pieces:
            try:
                conn.feed(p)
            except Exception as exc:            # what every reactor's read handler does
                conn.defunct(exc)

    def deliver(self, m):
        k = m["k"]
        if k == "Disconnect":
            self.conn.close_contract = m.get("kind") or "record_set"
            self.conn.server_closed()
        elif k == "SUPPORTED":
            self.send(wire.SUPPORTED, wire.body_supported({"CQL_VERSION": ["3.4.5"],
                                                           "COMPRESSION": sorted(m["algos"])}))
        elif k == "READY":
            self.send(wire.READY, wire.body_ready())
        elif k == "AUTHENTICATE":
            self.send(wire.AUTHENTICATE, wire.body_authenticate())
        elif k == "AUTH_CHALLENGE":
            self.send(wire.AUTH_CHALLENGE, wire.body_auth_challenge(b"PLAIN-START" if m["kind"] == "valid" else b"what?"))
        elif k == "AUTH_SUCCESS":
            self.send(wire.AUTH_SUCCESS, wire.body_auth_success(None))
        elif k == "ERROR":
            code, msg = {"badcreds": (wire.ERR_BAD_CREDENTIALS, "Provided username u and/or password are incorrect"),
                         "server": (wire.ERR_SERVER, "java.lang.RuntimeException"),
                         "protocol": (wire.ERR_PROTOCOL, "Unknown opcode 77"),
                         "badversion": (wire.ERR_PROTOCOL, "Invalid or unsupported protocol version (%d)" % self.ver)}[m["kind"]]
            self.send(wire.ERROR, wire.body_error(code, msg))
        elif k == "Unexpected":
            self.send(wire.RESULT, wire.body_void())
        else:
            raise ValueError("unknown reply %r" % (m,))


# ------------------------------------------------------------------ projection
_PHASE_OF_OP = {"OPTIONS": "OptionsSent", "STARTUP": "StartupSent", "CREDENTIALS": "CredsSent",
                "AUTH_RESPONSE": "AuthSent"}


def classify(exc):
    return "auth_failed" if isinstance(exc, AuthenticationFailed) else "conn_error"


def project(conn, node):
    frames = decode_sent(node.chunks[conn])
    err = conn.last_error
    if err:                                     # what Connection.factory looks at, in its order
        outcome = classify(err)
    elif conn.connected_event.is_set():
        outcome = "ready"
    else:
        outcome = "pending"
    dead = bool(conn.is_defunct or conn.is_closed)
    if outcome == "pending" and dead:
        outcome = "conn_error"                  # nothing will set the event any more: factory's wait() times out
    if outcome == "ready":
        phase = "Ready"
    elif outcome != "pending":
        phase = "Failed"
    else:
        phase = "?"
        for f in reversed(frames):
            if f["op"] in _PHASE_OF_OP:
                phase = _PHASE_OF_OP[f["op"]]
                break
    neg = startup_compression(frames)
    sent = []
    for f in frames:
        op = f["op"]
        if f["seg"] and f["segfmt"] != (neg != "none"):
            op += "!segment-header-format"
        sent.append({"op": op, "comp": f["comp"], "seg": f["seg"], "alg": f["alg"]})
    return {"phase": phase, "outcome": outcome, "dead": bool(conn.is_defunct or conn.is_closed),
            "compOn": conn.compressor is not None, "cksum": bool(conn._is_checksumming_enabled),
            "negotiated": neg, "sent": sent, "error": type(err).__name__ if err else None}


def spec_view(st):
    """The same projection of a specification state."""
    return {"phase": st["phase"], "outcome": st["outcome"], "dead": st["phase"] == "Failed",
            "compOn": st["compOn"], "cksum": st["cksum"], "negotiated": st["negotiated"],
            "sent": [{"op": f["op"], "comp": f["comp"], "seg": f["seg"], "alg": f["alg"]} for f in st["sent"]]}


def diff(spec, code):
    return {k: {"spec": spec[k], "code": code[k]} for k in VARS if spec[k] != code[k]}


# ------------------------------------------------------------------ running one handshake
def conn_kwargs(cfg):
    auth = cfg["auth"]
    if auth == "sasl":
        authenticator = PlainTextAuthProvider(USER, PASSWORD).new_authenticator(ADDR)
    elif auth == "dict":
        authenticator = {"username": USER, "password": PASSWORD}
    else:
        authenticator = None
    comp = {"off": False, "any": True}.get(cfg["comp"], cfg["comp"])
    kw = dict(protocol_version=cfg["ver"], authenticator=authenticator, compression=comp)
    if cfg["ver"] == 6:
        kw["allow_beta_protocol_version"] = True
    return kw


def execute(cfg, chooser, probe=True, rng=None):
    """Run the real Connection.factory for configuration `cfg`; `chooser(i, obs)` returns the i-th server
    reply (dict k/algos/kind) given the latest projection, or None for silence.  Returns a dict:
    obs (projection before any reply and after each reply), replies, factory ('ready'/'auth_failed'/
    'conn_error'), factory_exc, final (projection after factory returned/raised), probe (projection after a
    request was sent on the ready connection)."""
    world = SimWorld()
    world.install(("cassandra.connection",))
    node = world.add_node(ScriptNode(ADDR))
    run = {"obs": [], "replies": [], "conn": None, "probe": None}

    def on_block(event, timeout):
        if not world.conns:
            return
        conn = world.conns[-1]
        if event is not conn.connected_event._inner or run["conn"] is not None:
            return
        run["conn"] = conn
        srv = Server(node, conn, cfg["ver"], rng)
        o = project(conn, node)
        run["obs"].append(o)
        i = 0
        while o["outcome"] == "pending":
            m = chooser(i, o)
            if m is None or m["k"] == "Silence":
                if m is not None:
                    run["replies"].append(m)
                    run["silence"] = True
                break
            run["replies"].append(m)
            srv.deliver(m)
            o = project(conn, node)
            run["obs"].append(o)
            i += 1
    world.on_block = on_block
    with local_algorithms(cfg["local"]):
        try:
            conn = WatchedConnection.factory(DefaultEndPoint(ADDR), 5.0, **conn_kwargs(cfg))
            run["factory"], run["factory_exc"] = "ready", None
        except Exception as exc:
            conn = world.conns[-1] if world.conns else None
            run["factory"], run["factory_exc"] = classify(exc), type(exc).__name__
        finally:
            world.on_block = None
        if conn is not None:
            if run["conn"] is None:              # finished (failed) before factory had to wait
                run["conn"] = conn
                run["obs"].append(project(conn, node))
            run["final"] = project(conn, node)
            run["wakes"] = list(getattr(conn, "wakes", []))
            if probe and run["factory"] == "ready":
                try:
                    with conn.lock:
                        rid = conn.get_request_id()
                        conn.in_flight += 1
                    conn.send_msg(QueryMessage(query=PROBE_QUERY, consistency_level=1), rid, lambda *a: None)
                except Exception as exc:
                    run["probe_exc"] = type(exc).__name__
                run["probe"] = project(conn, node)
            if not conn.is_closed:
                conn.close()
    return run


def to_msg(m):
    return {"k": str(m["k"]), "algos": sorted(m["algos"]), "kind": str(m["kind"])}


def replay(states):
    """spec -> code. `states`: one behaviour of Handshake.tla (state dicts, Init first). Returns None or a
    divergence {step, action, diff}."""
    cfg = {"ver": states[0]["cfg"]["ver"], "auth": str(states[0]["cfg"]["auth"]), "comp": str(states[0]["cfg"]["comp"]),
           "local": set(states[0]["cfg"]["local"])}
    steps = [s for s in states[1:] if s["act"]["name"] == "Reply"]
    has_probe = any(s["act"]["name"] == "Probe" for s in states[1:])
    replies = [to_msg(s["act"]["m"]) for s in steps]
    run = execute(cfg, lambda i, o: replies[i] if i < len(replies) else None, probe=has_probe)
    obs = run["obs"]
    spec_states = [states[0]] + [s for s in steps if s["act"]["m"]["k"] != "Silence"]
    for i, st in enumerate(spec_states):
        act = to_msg(st["act"]["m"]) if i else {"k": "Init"}
        if i >= len(obs):
            return {"step": i, "action": act, "diff": {"reply": {"spec": "consumed", "code": "connection had already finished: %s" % (obs[-1],)}}}
        d = diff(spec_view(st), obs[i])
        if d:
            return {"step": i, "action": act, "diff": d, "error": obs[i]["error"]}
    last = [s for s in states if s["act"]["name"] != "Probe"][-1]
    want = last["outcome"] if last["outcome"] != "pending" else "conn_error"     # nobody answers any more: timeout
    # the instant connected_event was set: what a factory thread woken right then decides
    wakes = run.get("wakes") or []
    if wakes and wakes[0] != want:
        return {"step": len(spec_states), "action": {"k": "connected_event.set"},
                "diff": {"wake": {"spec": want, "code": "%s (last_error not yet recorded)" % wakes[0] if wakes[0] == "ready" else wakes[0]}}}
    if run["factory"] != want:
        return {"step": len(spec_states), "action": {"k": "factory"},
                "diff": {"factory": {"spec": want, "code": "%s (%s)" % (run["factory"], run["factory_exc"])}}}
    if last["phase"] == "Failed" or last["outcome"] == "pending":
        d = diff(dict(spec_view(last), phase="Failed", dead=True, outcome=want), run["final"])
        if d:
            return {"step": len(spec_states), "action": {"k": "factory"}, "diff": d}
    if has_probe:
        d = diff(spec_view(states[-1]), run["probe"]) if run["probe"] else {"probe": {"spec": "sent", "code": "none"}}
        if d:
            return {"step": len(spec_states), "action": {"k": "Probe"}, "diff": d}
    return None


# ------------------------------------------------------------------ code -> spec
_WEIGHTED = {
    "OptionsSent": [("SUPPORTED", 14), ("READY", 1), ("ERROR", 2), ("Disconnect", 1), ("Unexpected", 1), ("AUTHENTICATE", 1),
                    ("Silence", 1)],
    "StartupSent": [("READY", 6), ("AUTHENTICATE", 10), ("ERROR", 3), ("Disconnect", 1), ("Unexpected", 1),
                    ("AUTH_SUCCESS", 1), ("SUPPORTED", 1), ("AUTH_CHALLENGE", 1), ("Silence", 1)],
    "CredsSent": [("READY", 6), ("AUTHENTICATE", 4), ("ERROR", 4), ("Disconnect", 1), ("Unexpected", 1), ("Silence", 1)],
    "AuthSent": [("AUTH_SUCCESS", 6), ("AUTH_CHALLENGE", 8), ("ERROR", 4), ("READY", 1), ("Disconnect", 1),
                 ("Unexpected", 1), ("AUTHENTICATE", 1), ("Silence", 1)],
}


def random_reply(rng, phase):
    table = _WEIGHTED.get(phase) or _WEIGHTED["OptionsSent"]
    k = rng.choices([k for k, _ in table], weights=[w for _, w in table])[0]
    m = {"k": k, "algos": [], "kind": ""}
    if k == "Disconnect":
        m["kind"] = rng.choice(["record_set", "no_set"])
    if k == "SUPPORTED" and phase == "OptionsSent":
        m["algos"] = sorted(rng.choice([(), ("lz4",), ("snappy",), ("lz4", "snappy"), ("lz4", "snappy")]))
    elif k == "ERROR":
        m["kind"] = rng.choice(["badcreds", "badcreds", "server", "protocol", "badversion"])
    elif k == "AUTH_CHALLENGE":
        m["kind"] = rng.choice(["valid", "valid", "valid", "bad"])
    return m


def random_cfg(rng, versions):
    return {"ver": rng.choice(sorted(versions)), "auth": rng.choice(["none", "sasl", "sasl", "dict"]),
            "comp": rng.choice(["off", "any", "any", "lz4", "snappy"]),
            "local": set(rng.choice([(), ("lz4",), ("snappy",), ("lz4", "snappy"), ("lz4", "snappy")]))}


def _post(o):
    return {k: o[k] for k in VARS}


def record(rng, versions, max_len):
    """One seeded random handshake of the real connection -> list of events for Trace_Handshake.tla."""
    cfg = random_cfg(rng, versions)

    def chooser(i, o):
        if i >= max_len:
            return None
        return random_reply(rng, o["phase"])
    run = execute(cfg, chooser, probe=True, rng=rng)
    ev = [{"e": "Config", "cfg": dict(cfg, local=sorted(cfg["local"])), "post": _post(run["obs"][0])}]
    replies = [m for m in run["replies"] if m["k"] != "Silence"]
    for m, o in zip(replies, run["obs"][1:]):
        ev.append({"e": "Reply", "m": m, "post": _post(o)})
    if run.get("silence") or (run["obs"][-1]["outcome"] == "pending"):
        # nobody answers: factory gives up, closes the connection and raises
        ev.append({"e": "Silence", "post": _post(run["final"]), "factory": run["factory"]})
    else:
        ev[-1]["factory"] = run["factory"]
    if run.get("wakes"):
        ev[-1]["wake"] = run["wakes"][0]
    if run["probe"] is not None:
        ev.append({"e": "Probe", "post": _post(run["probe"])})
    return ev
