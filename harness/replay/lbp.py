"""Binding of spec/LBP.tla (C21) to the real load-balancing policy objects.

Spec -> code: every edge of the TLC state graph (label = action with arguments) is replayed onto a real policy
object with real Host objects, reached through a shortest clean prefix; after the edge's call two query plans
and distance() of every known host are taken and checked against the constraints exported in the spec
post-state (`exp`).  Populate edges are replayed with every order of the known hosts.
Calls reach the policy through the real cassandra.cluster.ProfileManager; Relocate is the real
ControlConnection._update_location_info (so the order on_down / set_location_info / on_up is the code's, not the
harness's).  cluster_histories() additionally runs the policy inside a real Cluster over simulated nodes: start-up
and later relocations are learnt by the real _refresh_node_list_and_token_map from system.local / system.peers.
Code -> spec: random walks record, per call, what the real object answered; TLC validates the recorded
histories against spec/Trace_LBP.tla (same PlanOK / DistOK predicates, in TLA+).  The Python check below and
the TLA+ predicates are two implementations of the same constraints; checks/c21.py requires them to agree on
every recorded trace.
"""
import itertools
import os
import re

from harness import tlaval
from harness.pyenv import repo_import

NODC = ""
DIST_NAMES = {-1: "IGNORED", 0: "LOCAL", 1: "REMOTE"}


def addr(h):
    return "10.0.0.%d" % h


def policy(kind, local=NODC, k=0, allowed=(), target=0, cp=()):
    return {"kind": kind, "local": local, "k": k, "allowed": sorted(allowed), "target": target, "cp": sorted(cp)}


def pol_to_tla(p):
    return tlaval.to_tla({"kind": p["kind"], "local": p["local"], "k": p["k"], "allowed": set(p["allowed"]),
                          "target": p["target"], "cp": set(p["cp"])})


def pol_of_state(st):
    p = st["pol"]
    return policy(str(p["kind"]), str(p["local"]), int(p["k"]), [int(x) for x in p["allowed"]], int(p["target"]),
                  [int(x) for x in p["cp"]])


def pol_name(p):
    k = p["kind"]
    if k == "DCAware":
        return "DCAware(local=%r,k=%d,cp=%s)" % (p["local"], p["k"], p["cp"])
    if k in ("WhiteList", "HostFilter"):
        return "%s(%s)" % (k, p["allowed"])
    if k == "Default":
        return "Default(target=%s)" % p["target"]
    return k


def write_mc_module(scratch, name, pols, base="LBP"):
    """Model module defining the policy set (records cannot be written in a .cfg file)."""
    path = os.path.join(scratch, name + ".tla")
    with open(path, "w") as f:
        f.write("---- MODULE %s ----\nEXTENDS %s\nPolSet == {%s}\n====\n" % (name, base, ", ".join(pol_to_tla(p) for p in pols)))
    return path


# ------------------------------------------------------------------------------------------- real objects

class _Cluster(object):
    """What policies and the control connection read from the cluster object (handed to populate(); the control
    connection reaches the policies through cluster.profile_manager)."""

    def __init__(self, metadata, endpoints_resolved, profile_manager=None):
        self.metadata = metadata
        self.endpoints_resolved = endpoints_resolved
        self.profile_manager = profile_manager


class _Query(object):
    keyspace = None
    routing_key = None

    def __init__(self, target_host):
        self.target_host = target_host


def seed_policy_module(rng):
    """RoundRobin start positions come from random.randint imported into cassandra.policies: make them
    reproducible (rotation is not part of the property, reproducibility of a failure is)."""
    P = repo_import("cassandra.policies")
    P.randint = lambda a, b: rng.randint(a, b)


class LBPHarness(object):
    def __init__(self, pol, n):
        self.P = repo_import("cassandra.policies")
        self.pool = repo_import("cassandra.pool")
        self.conn = repo_import("cassandra.connection")
        md = repo_import("cassandra.metadata")
        self.pol = pol
        self.n = n
        self.hosts = {}
        self.metadata = md.Metadata()
        self.query = None
        self.policy = self._make_policy()
        # Events reach the policy the way the cluster delivers them: through the real ProfileManager, and a change of
        # location through the real ControlConnection._update_location_info (cassandra/cluster.py 4001-4011).
        CL = repo_import("cassandra.cluster")
        self.pm = CL.ProfileManager()
        self.pm.profiles[CL.EXEC_PROFILE_DEFAULT] = CL.ExecutionProfile(load_balancing_policy=self.policy)
        self.cluster = _Cluster(self.metadata, [self.conn.DefaultEndPoint(addr(h)) for h in pol["cp"]], self.pm)
        self.cc = CL.ControlConnection(self.cluster, 2.0, 0, 0, 0)

    def _make_policy(self):
        P, p = self.P, self.pol
        k = p["kind"]
        if k == "RR":
            return P.RoundRobinPolicy()
        if k == "DCAware":
            return P.DCAwareRoundRobinPolicy(local_dc=p["local"], used_hosts_per_remote_dc=p["k"])
        if k == "WhiteList":
            return P.WhiteListRoundRobinPolicy([addr(h) for h in p["allowed"]])
        if k == "HostFilter":
            allowed = frozenset(addr(h) for h in p["allowed"])
            return P.HostFilterPolicy(P.RoundRobinPolicy(), lambda host: host.address in allowed)
        if k == "Default":
            self.query = _Query(addr(p["target"]) if p["target"] else None)
            return P.DefaultLoadBalancingPolicy(P.RoundRobinPolicy())
        raise ValueError(k)

    def _new_host(self, h, d):
        host = self.pool.Host(self.conn.DefaultEndPoint(addr(h)), self.P.SimpleConvictionPolicy)
        host.broadcast_rpc_address = addr(h)
        if d != NODC:
            host.set_location_info(d, "r1")
        self.hosts[h] = host
        self.metadata.add_or_return_host(host)
        return host

    def apply(self, ev):
        """Make the call(s) the cluster makes for this event.  Returns None or the exception text."""
        try:
            e = ev["e"]
            if e == "Learn":
                host = self._new_host(ev["h"], ev["d"])
                if ev["up"]:
                    host.set_up()
                else:
                    host.set_down()
            elif e == "Populate":
                self.pm.populate(self.cluster, [self.hosts[h] for h in ev["order"]])
            elif e == "Up":
                host = self.hosts[ev["h"]]
                host.set_up()
                self.pm.on_up(host)
            elif e == "Down":
                host = self.hosts[ev["h"]]
                host.set_down()
                self.pm.on_down(host)
            elif e == "Add":
                host = self._new_host(ev["h"], ev["d"])
                host.set_up()
                self.pm.on_add(host)
            elif e == "Remove":
                host = self.hosts.pop(ev["h"])
                host.set_down()
                self.metadata.remove_host(host)
                self.pm.on_remove(host)
            elif e == "Relocate":
                host = self.hosts[ev["h"]]
                if not self.cc._update_location_info(host, ev["d"], "r1"):
                    raise RuntimeError("_update_location_info saw no change of location")
            else:
                raise ValueError(e)
            return None
        except Exception as ex:                    # code under test misbehaving must not crash the check
            return "%s: %s" % (type(ex).__name__, ex)

    def _ident(self, host):
        a = getattr(host, "address", None)
        if isinstance(a, str) and a.startswith("10.0.0."):
            try:
                return int(a.rsplit(".", 1)[1])
            except ValueError:
                pass
        return 0

    def observe(self):
        """{"plan1": [...], "plan2": [...], "dist": [per host 1..n: name or "-"], "error": text|None}"""
        obs = {"plan1": [], "plan2": [], "dist": ["-"] * self.n, "error": None}
        try:
            obs["plan1"] = [self._ident(h) for h in self.policy.make_query_plan(None, self.query)]
            obs["plan2"] = [self._ident(h) for h in self.policy.make_query_plan(None, self.query)]
            for h, host in self.hosts.items():
                d = self.policy.distance(host)
                obs["dist"][h - 1] = DIST_NAMES.get(d, repr(d))
        except Exception as ex:
            obs["error"] = "%s: %s" % (type(ex).__name__, ex)
        return obs


# ------------------------------------------------------------------------------------------- oracle (mirror of PlanOK / DistOK)

def plan_failures(p, e):
    """Failures as (type, text, hosts involved)."""
    out = []
    if len(set(p)) != len(p):
        out.append(("duplicate", "plan %s repeats a host" % (p,), tuple(sorted(h for h in set(p) if p.count(h) > 1))))
    first = set(e["first"])
    if not e["strict"]:
        if not set(p) <= first:
            out.append(("unexpected-host", "plan %s contains hosts that are not live %s" % (p, sorted(first)),
                        tuple(sorted(set(p) - first))))
        return out
    nf = len(first)
    head = int(e["head"])
    if head and (not p or p[0] != head):
        out.append(("target-not-first", "plan %s does not start with the target host %d" % (p, head), (head,)))
    if set(p[:nf]) != first:
        missing = first - set(p)
        if missing:
            out.append(("host-missing", "plan %s lacks %s (must contain, first, all of %s)" % (p, sorted(missing), sorted(first)),
                        tuple(sorted(missing))))
        else:
            out.append(("order", "plan %s: the hosts %s must precede every other host" % (p, sorted(first)), ()))
    remote = {x: set(v) for x, v in e["remote"].items()}
    allremote = set().union(*remote.values()) if remote else set()
    tail = [h for h in p if h not in first]
    bad = [h for h in tail if h not in allremote]
    if bad:
        out.append(("unexpected-host", "plan %s contains %s which is neither live-local nor live-remote" % (p, bad),
                    tuple(sorted(set(bad)))))
    for x, hs in remote.items():
        if len([h for h in set(tail) if h in hs]) > int(e["k"]):
            out.append(("remote-cap", "plan %s uses more than %d hosts of remote dc %s" % (p, e["k"], x), ()))
    return out


def dist_failures(dist, p, e, known, live):
    out = []
    inplan = set(p)
    for h in sorted(known):
        d = dist[h - 1]
        if d not in e["dist"][h - 1]:
            out.append(("distance", "distance(h%d) = %s, admissible %s" % (h, d, sorted(e["dist"][h - 1])), (h,)))
            continue
        if e["strict"]:
            if d == "REMOTE" and h not in inplan:
                out.append(("distance", "distance(h%d) = REMOTE but the plan %s does not use it" % (h, p), (h,)))
            if d == "IGNORED" and h in inplan:
                out.append(("distance", "distance(h%d) = IGNORED but the plan %s uses it" % (h, p), (h,)))
            if h in live and d != "IGNORED" and h not in inplan:
                out.append(("distance", "h%d is live and %s but missing from the plan %s" % (h, d, p), (h,)))
    return out


def check_obs(st, obs):
    """All failures of one observation against the spec state `st` (list of (type, text))."""
    if obs["error"]:
        return [("exception", obs["error"], ())]
    e = st["exp"]
    out = plan_failures(obs["plan1"], e) + plan_failures(obs["plan2"], e)
    if set(obs["plan1"]) != set(obs["plan2"]):
        out.append(("plans-differ", "two consecutive plans hold different hosts: %s / %s" % (obs["plan1"], obs["plan2"]), ()))
    out += dist_failures(obs["dist"], obs["plan1"], e, st["known"], st["live"])
    # dedupe, keep order
    seen, res = set(), []
    for f in out:
        if f not in seen:
            seen.add(f)
            res.append(f)
    return res


def _first_failure_at(pol, n, events, post, step_obs_check):
    hz, err = run_events(pol, n, events)
    if err:
        return True
    return bool(step_obs_check(hz.observe()))


def _grouped(events, pi, learned, local):
    order = events[pi]["order"]
    g = sorted(order, key=lambda h: (learned.get(h) or local, h))
    return events[:pi] + [dict(events[pi], order=g)] + events[pi + 1:]


def signature(pol, n, events, post, failures):
    """Stable name of the defect class.  Two DCAware defect classes are recognised by their mechanism plus a
    counterfactual replay (so that an unrelated failure is not filed under them):
      * DCAware.populate:ungrouped-hosts - a live local host is missing, the hosts of its datacenter were not
        adjacent in the populate() order, and the same history with the populate() hosts grouped by datacenter
        does not fail;
      * DCAware.auto-local-dc:unlocated-hosts-orphaned - auto-detected local dc, some host had no datacenter when
        populate() ran, the real policy still files hosts under the placeholder datacenter although the local dc
        is known, and the same history (populate grouped) on a policy configured with the contact points'
        datacenter does not fail.
    Everything else: <policy>.<last call>:<kind of failure>."""
    t = failures[0][0]
    involved = set(failures[0][2]) if len(failures[0]) > 2 else set()
    ev = events[-1]
    if pol["kind"] == "DCAware":
        def failing(obs):
            return check_obs(post, obs)
        pi = next((i for i, e in enumerate(events) if e["e"] == "Populate"), None)
        learned = {e["h"]: e["d"] for e in events[:pi or 0] if e["e"] == "Learn"}
        if pi is not None and t == "host-missing":
            order = events[pi]["order"]
            key = [learned.get(h) or pol["local"] for h in order]
            split = any(key[i] == key[j] and any(key[m] != key[i] for m in range(i + 1, j))
                        for i in range(len(order)) for j in range(i + 1, len(order)) if order[i] in involved or order[j] in involved)
            if split and not _first_failure_at(pol, n, _grouped(events, pi, learned, pol["local"]), post, failing):
                return "DCAware.populate:ungrouped-hosts"
        else:
            split = False
        if pi is not None and pol["local"] == NODC and post["exp"]["strict"] and NODC in learned.values():
            hz, err = run_events(pol, n, events)
            groups = getattr(hz.policy, "_dc_live_hosts", None)
            stale = isinstance(groups, dict) and any((not k) and v for k, v in groups.items()) and bool(getattr(hz.policy, "local_dc", None))
            if (stale or split) and not _first_failure_at(dict(pol, local="A"), n, _grouped(events, pi, learned, "A"), post, failing):
                # both mechanisms can be needed to explain one failure; name the one that is visible in this run
                return "DCAware.auto-local-dc:unlocated-hosts-orphaned" if stale else "DCAware.populate:ungrouped-hosts"
    extra = "[auto]" if (pol["kind"] == "DCAware" and pol["local"] == NODC) else ""
    return "%s%s.%s:%s" % (pol["kind"], extra, ev["e"], t)


# ------------------------------------------------------------------------------------------- edges -> events

_LABEL = re.compile(r'^(\w+)(?:\((.*)\))?$')


def _arg(a):
    a = a.strip()
    if a.startswith('"'):
        return a[1:-1]
    if a in ("TRUE", "FALSE"):
        return a == "TRUE"
    return int(a)


def events_of_edge(label, pre, post, all_orders=True, rng=None):
    """Calls to replay for one graph edge.  Populate: one event per order of the known hosts."""
    m = _LABEL.match(label.strip())
    if not m:
        raise ValueError("cannot read edge label %r" % label)
    name = m.group(1)
    args = [_arg(a) for a in m.group(2).split(",")] if m.group(2) else []
    if name == "Populate":
        S = sorted(int(h) for h in post["known"])
        if all_orders:
            orders = itertools.permutations(S)
        else:
            o = list(S)
            rng.shuffle(o)
            orders = [o]
        return [{"e": "Populate", "order": list(o)} for o in orders]
    if name == "Learn":
        return [{"e": "Learn", "h": args[0], "d": args[1], "up": args[2]}]
    ev = {"e": name, "h": args[0]}
    if len(args) > 1:
        ev["d"] = args[1]
    return [ev]


def run_events(pol, n, events):
    """Fresh real objects, apply the events; returns (harness, error text or None)."""
    hz = LBPHarness(pol, n)
    for ev in events:
        err = hz.apply(ev)
        if err:
            return hz, err
    return hz, None


def replay_graph(nodes, edges, init, n, on_failure, sample=None, nontrivial=None):
    """Replay every distinct edge once from a shortest prefix that itself replayed cleanly.
    on_failure(pol, events, post_state, obs, failures).  Returns statistics."""
    from collections import deque
    out = {}
    for s, d, lab in set(edges):
        out.setdefault(s, []).append((lab, d))
    recipe = {i: [] for i in init}
    dq = deque(sorted(init))
    stats = {"edges": 0, "calls_replayed": 0, "clean": 0, "failed": 0, "populate_orders": 0}
    while dq:
        s = dq.popleft()
        pre = nodes[s]
        pol = pol_of_state(pre)
        for lab, d in sorted(out.get(s, ())):
            post = nodes[d]
            stats["edges"] += 1
            for ev in events_of_edge(lab, pre, post):
                events = recipe[s] + [ev]
                hz, err = run_events(pol, n, events)
                if err is None and not post["populated"]:
                    obs, fails = None, []                      # nothing to observe on an unpopulated policy
                else:
                    obs = hz.observe() if err is None else {"plan1": [], "plan2": [], "dist": ["-"] * n, "error": err}
                    fails = check_obs(post, obs)
                stats["calls_replayed"] += 1
                if ev["e"] == "Populate":
                    stats["populate_orders"] += 1
                if fails:
                    stats["failed"] += 1
                    on_failure(pol, events, post, obs, fails)
                    continue
                stats["clean"] += 1
                if nontrivial is not None and ev["e"] in ("Relocate", "Remove", "Down", "Add"):
                    nontrivial((pol_name(pol), repr(events)))
                if sample is not None and obs is not None and stats["clean"] % 4001 == 17:
                    sample({"policy": pol_name(pol), "calls": events, "plan": obs["plan1"], "distance": obs["dist"]})
                if d not in recipe:
                    recipe[d] = events
                    dq.append(d)
    stats["states_reached_cleanly"] = len(recipe)
    stats["states_not_reached_cleanly"] = len(nodes) - len(recipe)
    return stats


# ------------------------------------------------------------------------------------------- walks -> traces

def record_walk(nodes, path_edges, n, rng):
    """Drive real objects along a path [(src, dst, label), ...]; observe after every call.
    Returns (pol, trace events (JSON-able, for Trace_LBP), first failure or None)."""
    pol = pol_of_state(nodes[path_edges[0][0]])
    hz = LBPHarness(pol, n)
    trace = []
    events = []
    for s, d, lab in path_edges:
        ev = events_of_edge(lab, nodes[s], nodes[d], all_orders=False, rng=rng)[0]
        events.append(ev)
        err = hz.apply(ev)
        if err is None and not nodes[d]["populated"]:
            obs = {"plan1": [], "plan2": [], "dist": ["-"] * n, "error": None}
        else:
            obs = hz.observe() if err is None else {"plan1": [], "plan2": [], "dist": ["-"] * n, "error": err}
        rec = dict(ev)
        rec.update({"plan1": obs["plan1"], "plan2": obs["plan2"], "dist": obs["dist"]})
        if not trace:
            rec["pol"] = pol
        trace.append(rec)
        fails = check_obs(nodes[d], obs) if (nodes[d]["populated"] or obs["error"]) else []
        if fails:
            return pol, trace, {"events": events, "post": nodes[d], "obs": obs, "failures": fails}
    return pol, trace, None


def random_paths(nodes, edges, init, rng, count, length):
    succ = {}
    for s, d, lab in set(edges):
        succ.setdefault(s, []).append((s, d, lab))
    for v in succ.values():
        v.sort()
    paths = []
    inits = sorted(init)
    for _ in range(count):
        cur = rng.choice(inits)
        p = []
        while len(p) < length and succ.get(cur):
            e = rng.choice(succ[cur])
            p.append(e)
            cur = e[1]
        if p:
            paths.append(p)
    return paths


# ------------------------------------------------------------------------------------------- whole-cluster histories

class ClusterLBP(LBPHarness):
    """The policy inside a real Cluster over simulated nodes (harness/sim): contact points are populated unlocated,
    Cluster.connect() learns locations and the other hosts through the real
    ControlConnection._refresh_node_list_and_token_map, later relocations are delivered by changing what
    system.local / system.peers report and refreshing the node list."""

    def __init__(self, pol, n, layout):
        repo_import("cassandra.cluster")
        from harness.sim.simcluster import SimWorld, FakeNode, make_cluster
        self.P = repo_import("cassandra.policies")
        self.pool = repo_import("cassandra.pool")
        self.conn = repo_import("cassandra.connection")
        self.pol, self.n = pol, n
        self.query = None
        self.policy = self._make_policy()
        self.world = SimWorld()
        self.nodes = {}
        for h in range(1, n + 1):
            self.nodes[h] = self.world.add_node(FakeNode(addr(h), dc=layout[h - 1], rack="r1", tokens=["%02x" % (16 * h)]))
        cps = pol["cp"] or [1]
        self.real_cluster = make_cluster(self.world, [addr(h) for h in cps], lbp=self.policy)
        self.session = self.real_cluster.connect()
        self.metadata = self.real_cluster.metadata

    @property
    def hosts(self):
        return {self._ident(h): h for h in self.metadata.all_hosts()}

    def relocate(self, h, d):
        self.nodes[h].dc = d
        try:
            self.real_cluster.control_connection.refresh_node_list_and_token_map()
            return None
        except Exception as ex:
            return "%s: %s" % (type(ex).__name__, ex)

    def close(self):
        try:
            self.real_cluster.shutdown()
        except Exception:
            pass


def cluster_histories(nodes, edges, n, dcs, rng, per_policy, relocations, on_failure, kinds=("DCAware", "RR")):
    """Start-up of a real Cluster followed by relocations, for the policies of the graph; after every node-list
    refresh the plans/distances are checked against the spec state reached by the same events."""
    succ = {}
    for s, d, lab in set(edges):
        succ[(s, lab.replace(" ", ""))] = d
    by_content = {}
    for nid, st in nodes.items():
        if st["populated"]:
            by_content[(pol_name(pol_of_state(st)), frozenset(st["known"]), frozenset(st["live"]), tuple(st["dc"]), str(st["local"]))] = nid
    pols = {}
    for st in nodes.values():
        p = pol_of_state(st)
        if p["kind"] in kinds:
            pols[pol_name(p)] = p
    stats = {"clusters": 0, "refreshes_checked": 0, "failed": 0}
    allh = frozenset(range(1, n + 1))
    dcs = sorted(dcs)
    for name in sorted(pols):
        pol = pols[name]
        auto = pol["kind"] == "DCAware" and pol["local"] == NODC
        for _ in range(per_policy):
            layout = [("A" if (auto and h in pol["cp"]) else rng.choice(dcs)) for h in range(1, n + 1)]
            local = pol["local"] if not auto else "A"
            if pol["kind"] != "DCAware":
                local = NODC
            cur = by_content.get((name, allh, allh, tuple(layout), local))
            if cur is None:
                continue
            cps = pol["cp"] or [1]
            events = [{"e": "Learn", "h": h, "d": NODC if pol["cp"] else layout[h - 1], "up": True} for h in cps]
            events.append({"e": "Populate", "order": list(cps)})
            events += [{"e": "Relocate", "h": h, "d": layout[h - 1]} for h in cps if pol["cp"]]
            events += [{"e": "Add", "h": h, "d": layout[h - 1]} for h in range(1, n + 1) if h not in cps]
            hz = None
            try:
                try:
                    hz = ClusterLBP(pol, n, layout)
                except Exception:                 # e.g. no host the policy allows a session to use: not a history of interest
                    stats["not_started"] = stats.get("not_started", 0) + 1
                    continue
                stats["clusters"] += 1
                obs = hz.observe()
                fails = check_obs(nodes[cur], obs)
                stats["refreshes_checked"] += 1
                if fails:
                    stats["failed"] += 1
                    on_failure(pol, events, nodes[cur], obs, fails)
                    continue
                for _r in range(relocations):
                    movable = [h for h in range(1, n + 1) if not (auto and h in pol["cp"])]
                    if not movable:
                        break
                    h = rng.choice(movable)
                    d = rng.choice([x for x in dcs if x != layout[h - 1]])
                    nxt = succ.get((cur, 'Relocate(%d,"%s")' % (h, d)))
                    if nxt is None:
                        break
                    err = hz.relocate(h, d)
                    layout[h - 1] = d
                    events = events + [{"e": "Relocate", "h": h, "d": d}]
                    obs = hz.observe() if err is None else {"plan1": [], "plan2": [], "dist": ["-"] * n, "error": err}
                    fails = check_obs(nodes[nxt], obs)
                    stats["refreshes_checked"] += 1
                    if fails:
                        stats["failed"] += 1
                        on_failure(pol, events, nodes[nxt], obs, fails)
                        break
                    cur = nxt
            except Exception as ex:
                stats["failed"] += 1
                on_failure(pol, events, nodes[cur], {"plan1": [], "plan2": [], "dist": ["-"] * n, "error": "%s: %s" % (type(ex).__name__, ex)},
                           [("exception", "%s: %s" % (type(ex).__name__, ex), ())])
            finally:
                if hz is not None:
                    hz.close()
    return stats


# ------------------------------------------------------------------------------------------- TLC simulation with action labels

_SIM_ACT = re.compile(r'^\\\*\s*<(\w+)(\([^>]*?\))?\s+line', re.M)


def parse_sim_with_actions(path):
    """[(action label or None, state dict)] of one `tlc -simulate` trace file."""
    with open(path) as f:
        text = f.read()
    parts = re.split(r'^STATE_(\d+) ==\s*$', text, flags=re.M)
    out = []
    for i in range(2, len(parts), 2):
        body = parts[i]
        prev = parts[i - 2] if i >= 2 else ""
        m = None
        for m in _SIM_ACT.finditer(prev):
            pass
        label = (m.group(1) + (m.group(2) or "")) if m else None
        body = re.sub(r'^\\\*.*$', '', body, flags=re.M)
        body = re.split(r'^={4,}\s*$', body, flags=re.M)[0].strip()
        if body:
            out.append((label, tlaval.parse_state(body)))
    return out


# =========================================================================================== C22: TokenAwarePolicy

def make_fixed_child(dist_by_host, plan_hosts):
    """A wrapped policy with a fixed plan and a fixed distance table (harness-side child policy)."""
    P = repo_import("cassandra.policies")

    class FixedChild(P.LoadBalancingPolicy):
        def __init__(self):
            P.LoadBalancingPolicy.__init__(self)
            self.calls = 0

        def populate(self, cluster, hosts):
            pass

        def distance(self, host):
            return dist_by_host.get(host, P.HostDistance.IGNORED)

        def make_query_plan(self, working_keyspace=None, query=None):
            self.calls += 1
            return iter(list(plan_hosts))

        def on_up(self, host):
            pass
        on_down = on_add = on_remove = on_up

    return FixedChild()


def seed_shuffle(rng):
    P = repo_import("cassandra.policies")
    P.shuffle = lambda lst: rng.shuffle(lst)


class TokenAwareBinding(object):
    """Real TokenAwarePolicy over a real Metadata built from one Placement.tla instance."""

    def __init__(self, inst, n):
        from harness.replay import placement as PL
        self.PL = PL
        self.P = repo_import("cassandra.policies")
        self.Q = repo_import("cassandra.query")
        self.inst = inst
        m = len(inst["dc"])
        self.n = max(n, m)
        dc = list(inst["dc"]) + [1] * (self.n - m)
        rack = list(inst["rack"]) + [1] * (self.n - m)
        self.hosts = PL.make_hosts(dc, rack)                       # instance host number -> Host (extras: no tokens)
        ring_hosts = {h: self.hosts[h] for h in range(1, m + 1)}
        self.md, names = PL.build_metadata(inst["ring"], ring_hosts, [inst["strat"]])
        for h in range(m + 1, self.n + 1):
            self.md.add_or_return_host(self.hosts[h])
        self.ks = names[0]
        self.inv = {v.endpoint: k for k, v in self.hosts.items()}

    def replicas(self, key):
        return [self.inv.get(r.endpoint, 0) for r in self.md.get_replicas(self.ks, self.PL.key_bytes(key))]

    def alter(self, strat, via="update"):
        """AlterReplication: new settings for the keyspace arrive through a schema refresh."""
        self.PL.install_keyspace(self.md, self.ks, strat, via)

    def plan(self, key, child, up, dist, shuffle, interleave=False):
        """child: list of instance host numbers; up/dist: dict instance host -> "T"/"F"/"N" / distance name.
        Returns (list of instance host numbers, error text or None).
        interleave=True: the plan is consumed lazily and, after its first host, a second plan for the same
        statement is created and exhausted (concurrent requests for one token) before the first is finished."""
        HD = self.P.HostDistance
        names = {"LOCAL": HD.LOCAL, "REMOTE": HD.REMOTE, "IGNORED": HD.IGNORED}
        try:
            for h, host in self.hosts.items():
                host.is_up = {"T": True, "F": False, "N": None}[up.get(h, "T")]
            fixed = make_fixed_child({self.hosts[h]: names[d] for h, d in dist.items()}, [self.hosts[h] for h in child])
            pol = self.P.TokenAwarePolicy(fixed, shuffle_replicas=shuffle)
            pol.populate(_Cluster(self.md, []), list(self.hosts.values()))
            stmt = self.Q.SimpleStatement("SELECT v FROM t WHERE k = 0", routing_key=self.PL.key_bytes(key), keyspace=self.ks)
            if interleave:
                g1 = iter(pol.make_query_plan(None, stmt))
                got = []
                for h in g1:
                    got.append(h)
                    break
                list(pol.make_query_plan(None, stmt))
                got.extend(g1)
                out = [self.inv.get(getattr(h, "endpoint", None), 0) for h in got]
            else:
                out = [self.inv.get(getattr(h, "endpoint", None), 0) for h in pol.make_query_plan(None, stmt)]
            return out, None
        except Exception as ex:
            return [], "%s: %s" % (type(ex).__name__, ex)


def tokenaware_failures(real, head, tail, child, reps, up, dist, shuffle):
    """Compare the real plan with the specified one (all in the same host numbering)."""
    out = []
    if len(set(real)) != len(real):
        out.append(("host-repeated", "plan %s repeats a host" % (real,)))
    lost = [h for h in child if h not in real]
    if lost:
        dl = [h for h in lost if h in reps and dist.get(h) == "LOCAL" and up.get(h) != "T"]
        if dl and len(dl) == len(lost):
            out.append(("down-local-replica-dropped",
                        "child plan %s lists %s (LOCAL replica, is_up %s) but the token-aware plan %s leaves it out"
                        % (child, dl, [up.get(h) for h in dl], real)))
        else:
            out.append(("child-host-lost", "hosts %s of the child plan %s are missing from %s" % (lost, child, real)))
    extra = [h for h in real if h not in child and h not in head]
    if extra:
        out.append(("unexpected-host", "plan %s contains %s: neither a live local replica nor in the child plan" % (real, extra)))
    if out:
        return out
    k = len(head)
    got_head, got_tail = real[:k], real[k:]
    if sorted(got_head) != sorted(head) or (not shuffle and got_head != head):
        out.append(("head", "plan %s must start with the live local replicas %s%s" % (real, head, " in any order" if shuffle else "")))
    if got_tail != tail:
        out.append(("tail-order", "after the replicas the plan %s must continue with %s (child order)" % (real, tail)))
    return out


# =========================================================================================== C22: ReplicaCache.tla schedules

def schedules_of_graph(nodes, edges, init):
    """Every maximal path of the (acyclic) ReplicaCache.tla state graph as (warm, [thread letter per step])."""
    succ = {}
    for s, d, lab in set(edges):
        if s != d:
            succ.setdefault(s, []).append((lab.strip(), d))
    out = []

    def walk(n, path):
        nxt = sorted(succ.get(n, ()))
        if not nxt:
            out.append(list(path))
            return
        for lab, d in nxt:
            path.append(lab[0])
            walk(d, path)
            path.pop()
    for i in sorted(init):
        before = len(out)
        walk(i, [])
        warm = int(nodes[i]["cache"]) != -1
        out[before:] = [(warm, p) for p in out[before:]]
    return out


def run_cache_schedule(inst_old, new_strat, warm, schedule, n, bkey=1):
    """Two logical threads on one real Metadata/TokenMap (harness/sim/detsched): B makes the first token-aware plan
    for the keyspace, U installs `new_strat` through Metadata._update_keyspace.  TokenMap._rebuild_lock is a
    scheduler-aware re-entrant lock (yield before acquire and after release) and the computation of the replica map
    yields once before it starts.  `schedule` says which thread runs to its next yield point; threads that are
    finished or blocked at their turn are skipped and everything is run to completion at the end.
    Returns {"builder_plan": {key: plan}, "final_plan": {key: plan}, "error": text|None, "skipped": n}."""
    from harness.sim.detsched import DetSched, DRLock, yield_point
    b = TokenAwareBinding(inst_old, n)
    hosts = list(range(1, b.n + 1))
    up = {h: "T" for h in hosts}
    dist = {h: "LOCAL" for h in hosts}
    keys = list(range(1, 2 * len(inst_old["ring"]) + 2))
    res = {"builder_plan": {}, "final_plan": {}, "error": None, "skipped": 0}
    try:
        if warm:
            b.replicas(1)
        tm = b.md.token_map
        tm._rebuild_lock = DRLock("rebuild", yield_on_release=True)
        inner = tm.replica_map_for_keyspace

        def computing(ks_meta):
            yield_point("compute")
            return inner(ks_meta)
        tm.replica_map_for_keyspace = computing
        s = DetSched()

        def builder():
            plan, err = b.plan(bkey, hosts, up, dist, False)
            if err:
                raise RuntimeError(err)
            res["builder_plan"][bkey] = plan

        s.spawn("B", builder)
        s.spawn("U", lambda: b.alter(new_strat, via="update"))
        try:
            for t in schedule:
                th = s.threads[t]
                if th.done or th.is_blocked():
                    res["skipped"] += 1
                    continue
                s.step(t)
            guard = 0
            while s.alive():
                r = sorted(s.runnable(), key=lambda x: x.name)
                if not r:
                    raise RuntimeError("deadlock: %s" % [(t.name, str(t.waiting_for)) for t in s.alive()])
                s.step(r[0].name)
                guard += 1
                if guard > 1000:
                    raise RuntimeError("threads do not finish")
        finally:
            s.close()
            DetSched.current = None
        for k in keys:
            plan, err = b.plan(k, hosts, up, dist, False)
            if err:
                raise RuntimeError(err)
            res["final_plan"][k] = plan
    except Exception as ex:
        res["error"] = "%s: %s" % (type(ex).__name__, ex)
    return res


# =========================================================================================== C21: LBPRace.tla schedules

def race_schedules(nodes, edges, init):
    """{initial node id: [schedule (thread numbers, one per step) for every maximal path]} of the LBPRace.tla graph."""
    succ = {}
    for s, d, lab in set(edges):
        if s != d:
            m = re.match(r'^\w+\((\d+)\)$', lab.strip().replace(" ", ""))
            succ.setdefault(s, []).append((int(m.group(1)) if m else 0, d))
    out = {}
    for i in sorted(init):
        paths = []

        def walk(n, path):
            nxt = sorted(succ.get(n, ()))
            if not nxt:
                paths.append(list(path))
                return
            for t, d in nxt:
                path.append(t)
                walk(d, path)
                path.pop()
        walk(i, [])
        out[i] = paths
    return out


def run_race(live0, ev, schedule, k=0):
    """Two logical threads deliver ev[t] for host t to one real DCAwareRoundRobinPolicy whose _hosts_lock is a
    scheduler-aware lock (yield before acquire, after release).  Returns {"plan": [...], "dist": {...}, "error", "skipped"}."""
    from harness.sim.detsched import DetSched, DLock
    P = repo_import("cassandra.policies")
    pool = repo_import("cassandra.pool")
    conn = repo_import("cassandra.connection")
    res = {"plan": [], "error": None, "skipped": 0}
    try:
        hosts = {}
        for h in (1, 2, 3):
            host = pool.Host(conn.DefaultEndPoint(addr(h)), P.SimpleConvictionPolicy)
            host.set_location_info("A", "r1")
            host.set_up()
            hosts[h] = host
        policy = P.DCAwareRoundRobinPolicy(local_dc="A", used_hosts_per_remote_dc=k)
        policy.populate(_Cluster(None, []), [hosts[h] for h in sorted(live0)])
        policy._hosts_lock = DLock("hosts", yield_on_release=True)
        s = DetSched()
        for t in (1, 2):
            s.spawn(str(t), (policy.on_up if ev[t] == "up" else policy.on_down), hosts[t])
        try:
            for t in schedule:
                th = s.threads[str(t)]
                if th.done or th.is_blocked():
                    res["skipped"] += 1
                    continue
                s.step(str(t))
            guard = 0
            while s.alive():
                r = sorted(s.runnable(), key=lambda x: x.name)
                if not r:
                    raise RuntimeError("deadlock: %s" % [(x.name, str(x.waiting_for)) for x in s.alive()])
                s.step(r[0].name)
                guard += 1
                if guard > 1000:
                    raise RuntimeError("threads do not finish")
        finally:
            s.close()
            DetSched.current = None
        res["plan"] = [int(h.address.rsplit(".", 1)[1]) for h in policy.make_query_plan()]
    except Exception as ex:
        res["error"] = "%s: %s" % (type(ex).__name__, ex)
    return res
