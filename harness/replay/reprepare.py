"""Binding between spec/Reprepare.tla and the real Session / ResponseFuture / HostConnection.

A simulated cluster of NHosts FakeNodes h1..hn (10.0.0.1 ..), a load balancing policy whose plan is h1, h2, ...
in this order, protocol v4 or v5, the session connected with keyspace cfg.cks.  The statement is prepared with
the real Session.prepare() (answered by the node with a RESULT prepared); with protocol v5 the statement
keyspace is passed to prepare(); with v4, where prepare() cannot take one, a statement with a keyspace is
obtained by setting PreparedStatement.keyspace afterwards.  Then `session.execute_async(bound)` with the
executor in queue mode, so that the two session.submit hops are explicit steps.

Projection compared with the spec after every action:
  sent    every PREPARE / EXECUTE frame the nodes received since execute_async, in global arrival order, decoded
          with harness/wire.py: host, opcode, statement id / query text, keyspace field
  srv     requests the nodes still owe an answer to
  queue   _reprepare / _execute_after_prepare tasks waiting in the executor, with the kind of response they carry
  final   class of _final_exception / presence of _final_result
  plan    hosts left in the future's query plan
  pool    per host: can a connection be borrowed (ok / shutdown / noconn)
  timer   is the client timeout armed
  rid     ResponseFuture._req_id (when the id space is shrunk)

Stream ids.  cfg.ids = k in {1, 2} shrinks the id space of every pool connection before the execution
(conn.request_ids = deque(range(k)); conn.highest_request_id = k - 1, as harness/replay/connection.py does), so that ids
wrap at once and the EXECUTE, the PREPARE and the re-sent EXECUTE travel under stream id 0 in some behaviours; the stream
id of every frame and whether its handler is still registered are then part of the projection.  k = 0 leaves the driver's
default id space alone (ids not compared).

Speculative execution.  cfg.spec = 1: the prepared statement is idempotent and the profile carries a
ConstantSpeculativeExecutionPolicy(0.5, 1): the first timer of the future is _on_speculative_execute; the schedule fires
it (SpecExec) while the first EXECUTE is unanswered, so that two attempts are in flight on different nodes and
ResponseFuture._current_host / _connection name the second node when the first one answers UNPREPARED.
"""
import copy
from collections import deque

from harness.sim.simcluster import SimWorld, FakeNode, make_cluster
from harness import wire

from cassandra.cluster import ExecutionProfile, EXEC_PROFILE_DEFAULT, _NOT_SET
from cassandra.connection import ConnectionException
from cassandra.policies import (RoundRobinPolicy, FallthroughRetryPolicy, ConvictionPolicy,
                                ConstantSpeculativeExecutionPolicy)
from cassandra.protocol import ResultMessage, ErrorMessage
from cassandra.query import tuple_factory

VARS = ("plan", "sent", "srv", "queue", "final", "pool", "timer", "rid", "lc")
QUERY = "SELECT a FROM t WHERE k=? /* %s */"
OTHER_ID = b"id-of-something-else"


class PlanInOrder(RoundRobinPolicy):
    def make_query_plan(self, working_keyspace=None, query=None):
        return sorted(self._live_hosts, key=lambda h: h.endpoint.address)


class NeverConvict(ConvictionPolicy):
    def add_failure(self, connection_exc):
        return False

    def reset(self):
        pass


def host_name(address):
    return "h%d" % int(str(address).split(":")[0].split(".")[-1])


class Env:
    """One simulated cluster per (nhosts, pv, cks, ids, spec); reused by behaviours that leave it intact."""
    cache = {}

    def __init__(self, nhosts, pv, cks, ids=0, spec=0):
        self.nhosts, self.pv, self.cks, self.ids, self.spec = nhosts, pv, cks, ids, spec
        self.world = SimWorld()
        self.nodes = {}
        for i in range(1, nhosts + 1):
            n = self.world.add_node(FakeNode("10.0.0.%d" % i, tokens=["%02x" % (i * 16)]))
            n.auto = True
            n.auto_answer = self.auto_answer
            n.handshake_script = self.tap
            self.nodes["h%d" % i] = n
        self.log = []
        self.preparing = None
        profile = ExecutionProfile(load_balancing_policy=PlanInOrder(), retry_policy=FallthroughRetryPolicy(),
                                   row_factory=tuple_factory, request_timeout=10.0)
        if spec:
            profile.speculative_execution_policy = ConstantSpeculativeExecutionPolicy(0.5, spec)
        self.cluster = make_cluster(self.world, ["10.0.0.1"], protocol_version=pv, inline=True,
                                    execution_profiles={EXEC_PROFILE_DEFAULT: profile},
                                    conviction_policy_factory=NeverConvict, prepare_on_all_hosts=False,
                                    reprepare_on_up=False)
        self.session = self.cluster.connect(None if cks == "none" else cks, wait_for_all_pools=True)
        self.hosts = {host_name(h.endpoint.address): h for h in self.cluster.metadata.all_hosts()}
        assert sorted(self.hosts) == sorted(self.nodes), self.hosts
        self.statements = {}
        self.dirty = False

    @classmethod
    def get(cls, nhosts, pv, cks, ids=0, spec=0):
        key = (nhosts, pv, cks, ids, spec)
        env = cls.cache.get(key)
        if env is None or env.dirty or env.cluster.is_shutdown:
            if env is not None:
                env.close()
            env = cls.cache[key] = Env(nhosts, pv, cks, ids, spec)
        # the simulation substrate has one current world
        SimWorld.current = env.world
        from harness.sim import simconn, simcluster
        simconn.SimEvent.world = env.world
        simcluster.install(env.world)
        simcluster.SimCluster.current = env.cluster
        return env

    def close(self):
        try:
            self.cluster.shutdown()
        except Exception:
            pass

    @classmethod
    def discard_all(cls):
        for env in cls.cache.values():
            env.close()
        cls.cache.clear()

    # ---- node side
    def tap(self, node, conn, req, frame):
        if req.get("op") in ("PREPARE", "EXECUTE"):
            self.log.append((host_name(node.address), req))
        return False

    def shrink_ids(self):
        """cfg.ids = k > 0: every pool connection starts the execution with the id space 0..k-1."""
        if not self.ids:
            return
        for host, pool in self.session._pools.items():
            c = pool._connection
            if c is None or c.in_flight != 0 or c._requests:
                self.dirty = True
                raise AssertionError("pool connection of %s is not idle" % host)
            c.request_ids = deque(range(self.ids))
            c.highest_request_id = self.ids - 1
            c.orphaned_request_ids.clear()

    def qid(self, sks):
        return b"id-" + sks.encode()

    def prepared_body(self, qid):
        return wire.body_prepared(qid, [("k", wire.T_INT)], [0], [("a", wire.T_INT)], self.pv,
                                  result_metadata_id=b"meta-1" if self.pv >= 5 else None)

    def auto_answer(self, node, p):
        op, q = p.req.get("op"), p.req.get("query", "")
        if op == "QUERY" and q.upper().startswith("USE "):
            return FakeNode.default_answer(node, p)
        if op == "PREPARE" and self.preparing is not None:            # Session.prepare() blocks on this one
            return node.respond(p, wire.RESULT, self.prepared_body(self.preparing))
        return None                                                  # left in node.pending for the schedule

    def statement(self, sks):
        st = self.statements.get(sks)
        if st is None:
            self.preparing = self.qid(sks)
            try:
                if sks != "none" and self.pv >= 5:
                    st = self.session.prepare(QUERY % sks, keyspace=sks)
                else:
                    st = self.session.prepare(QUERY % sks)
                    if sks != "none":
                        st.keyspace = sks          # protocol v4: prepare() cannot be told a keyspace
            finally:
                self.preparing = None
            self.statements[sks] = st
        return st


class ReprepareHarness:
    def __init__(self, nhosts, cfg):
        self.cfgv = dict(cfg)
        self.ids = cfg.get("ids", 0)
        self.spec = cfg.get("spec", 0)
        self.env = Env.get(nhosts, cfg["pv"], cfg["cks"], self.ids, self.spec)
        env = self.env
        self.stmt = env.statement(cfg["sks"])
        self.qid = env.qid(cfg["sks"])
        self.fut = None
        env.cluster.executor.inline = False
        del env.cluster.executor.queue[:]
        del env.log[:]
        for n in env.nodes.values():
            del n.pending[:]
            del n.received[:]
        env.world.live_timers()
        env.shrink_ids()

    def finish(self):
        env = self.env
        env.cluster.executor.inline = True
        if env.cluster.executor.queue or any(n.pending for n in env.nodes.values()):
            env.dirty = True
        if self.fut is not None and self.fut._final_exception is None and self.fut._final_result is _NOT_SET:
            env.dirty = True

    # ------------------------------------------------------------ actions
    def do(self, act):
        return getattr(self, "act_" + act["name"])(act.get("h"), act.get("resp"))

    def _pending(self, h, op):
        node = self.env.nodes[h]
        cands = [p for p in node.pending if p.req.get("op") == op]
        if len(cands) != 1:
            raise AssertionError("node %s owes %d %s answers: %r" % (h, len(cands), op, node.pending))
        return node, cands[0]

    def _task(self, label):
        cands = [t for t in self.env.cluster.executor.queue if t.label == label and getattr(t.fn, "__self__", None) is self.fut]
        if not cands:
            cands = [t for t in self.env.cluster.executor.queue if t.label == label]
        if not cands:
            raise AssertionError("no %s task queued: %r" % (label, self.env.cluster.executor.queue))
        return cands[0]

    def act_Start(self, h, resp):
        bound = self.stmt.bind((1,))
        bound.is_idempotent = bool(self.spec)             # only idempotent statements get speculative executions
        self.fut = self.env.session.execute_async(bound)

    def act_AnsUnprepared(self, h, resp):
        node, p = self._pending(h, "EXECUTE")
        node.respond_error(p, wire.ERR_UNPREPARED, "unprepared", wire.tail_unprepared(self.qid))

    def act_AnsRows(self, h, resp):
        node, p = self._pending(h, "EXECUTE")
        node.respond_rows(p, [("a", wire.T_INT)], [[wire.w_int(5)]])

    def act_RunReprepare(self, h, resp):
        self.env.cluster.executor.run(self._task("_reprepare"))

    def act_AnsPrepare(self, h, resp):
        node, p = self._pending(h, "PREPARE")
        if resp == "same":
            node.respond(p, wire.RESULT, self.env.prepared_body(self.qid))
        elif resp == "diff":
            node.respond(p, wire.RESULT, self.env.prepared_body(OTHER_ID))
        else:
            node.respond_error(p, wire.ERR_INVALID, "unconfigured table t")

    def act_ConnLost(self, h, resp):
        self.env.dirty = True
        pool = self.env.session._pools[self.env.hosts[h]]
        pool._connection.socket_error()

    def act_PoolDown(self, h, resp):
        self.env.dirty = True
        self.env.session._pools[self.env.hosts[h]].shutdown()

    def act_RunAfter(self, h, resp):
        self.env.cluster.executor.run(self._task("_execute_after_prepare"))

    def _timer_kind(self):
        t = self.fut._timer if self.fut is not None else None
        if t is None or t.canceled or getattr(t, "_fired", False):
            return "off"
        name = getattr(t.callback, "__name__", None) or getattr(getattr(t.callback, "func", None), "__name__", "?")
        return {"_on_speculative_execute": "spec", "_on_timeout": "armed"}.get(name, "?" + str(name))

    def act_Timeout(self, h, resp):
        if self._timer_kind() != "armed":
            raise AssertionError("client timeout is not armed (%s)" % self._timer_kind())
        self.env.world.fire(self.fut._timer, advance=False)

    def act_SpecExec(self, h, resp):
        if self._timer_kind() != "spec":
            raise AssertionError("no speculative execution is scheduled (%s)" % self._timer_kind())
        self.env.world.fire(self.fut._timer, advance=False)

    # ------------------------------------------------------------ projection
    def _sent_entry(self, h, req):
        if req["op"] == "EXECUTE":
            q = "id" if req.get("id") == self.qid else "id?%r" % (req.get("id"),)
        else:
            q = "Q" if req.get("query") == self.stmt.query_string else "text?%r" % (req.get("query"),)
        return {"h": h, "kind": req["op"], "q": q, "ks": req.get("keyspace") or "none",
                "sid": req["stream"] if self.ids else -1}

    def _resp_kind(self, r):
        if isinstance(r, ResultMessage):
            return "same" if getattr(r, "query_id", None) == self.qid else "diff"
        if isinstance(r, ErrorMessage):
            return "error"
        if isinstance(r, ConnectionException):
            return "connerr"
        return "other:%s" % type(r).__name__

    def project(self):
        env, fut = self.env, self.fut
        sent = tuple(self._sent_entry(h, r) for h, r in env.log)
        srv = set()
        # index in `sent` of each outstanding request: the n-th frame of that stream on that node
        for h, node in env.nodes.items():
            for p in node.pending:
                if p.req.get("op") in ("PREPARE", "EXECUTE"):
                    idx = [i for i, (hh, r) in enumerate(env.log, 1) if r is p.req]
                    live = p.frame.stream in p.conn._requests
                    srv.add((h, p.req["op"], idx[0] if idx else -1, p.frame.stream if self.ids else -1, live))
        queue = []
        for t in env.cluster.executor.queue:
            if t.label == "_reprepare":
                queue.append({"t": "reprepare", "h": host_name(t.args[1].endpoint.address), "resp": "-"})
            elif t.label == "_execute_after_prepare":
                queue.append({"t": "after", "h": host_name(t.args[0].endpoint.address), "resp": self._resp_kind(t.args[3])})
        pool = {}
        for h, host in env.hosts.items():
            p = env.session._pools.get(host)
            if p is None or p.is_shutdown:
                pool[h] = "shutdown"
            elif p._connection is None or p._connection.is_defunct or p._connection.is_closed:
                pool[h] = "noconn"
            else:
                pool[h] = "ok"
        if fut is None:
            return {"plan": tuple(sorted(env.hosts)), "sent": sent, "srv": frozenset(srv), "queue": tuple(queue),
                    "final": "unset", "pool": pool, "timer": "none", "rid": -1, "lc": "-"}
        exc, res = fut._final_exception, fut._final_result
        if exc is not None and res is not _NOT_SET:
            final = "both:%s+result" % type(exc).__name__
        elif exc is not None:
            final = type(exc).__name__
        elif res is not _NOT_SET:
            final = "rows" if res == [(5,)] else "result?%r" % (res,)
        else:
            final = "unset"
        try:
            plan = tuple(host_name(h.endpoint.address) for h in copy.copy(fut.query_plan))
        except TypeError:
            plan = ("?",)
        timer = self._timer_kind()
        rid = fut._req_id if (self.ids and fut._req_id is not None) else -1
        lc = host_name(fut._connection.endpoint.address) if fut._connection is not None else "-"
        return {"plan": plan, "sent": sent, "srv": frozenset(srv), "queue": tuple(queue), "final": final,
                "pool": pool, "timer": timer, "rid": rid, "lc": lc}


def spec_view(state):
    return {"plan": tuple(state["plan"]), "sent": tuple(dict(m) for m in state["sent"]),
            "srv": frozenset((r["h"], r["kind"], r["n"], r["sid"], r["live"]) for r in state["srv"]),
            "queue": tuple(dict(t) for t in state["queue"]), "final": state["final"], "pool": dict(state["pool"]),
            "timer": state["timer"], "rid": state["rid"], "lc": state["lc"]}


def diff(spec, real):
    out = {}
    for k in VARS:
        if spec[k] != real[k]:
            out[k] = {"spec": spec[k], "code": real[k]}
    return out


def replay(nhosts, states):
    """Replay one behaviour (list of spec states, first = Init). Returns None or a divergence dict."""
    h = ReprepareHarness(nhosts, states[0]["cfg"])
    try:
        d = diff(spec_view(states[0]), h.project())
        if d:
            return {"step": 0, "action": "Init", "diff": d}
        for i, s in enumerate(states[1:], 1):
            act = {k: s["act"][k] for k in ("name", "h", "resp")}
            try:
                h.do(act)
            except AssertionError as ex:
                return {"step": i, "action": act, "diff": {"_refused": {"spec": "enabled", "code": "harness could not perform: %s" % ex}}}
            d = diff(spec_view(s), h.project())
            if d:
                h.env.dirty = True
                return {"step": i, "action": act, "diff": d}
        return None
    except Exception:
        h.env.dirty = True
        raise
    finally:
        h.finish()


def classify(d, states):
    """Stable signature of a divergence."""
    act = d["action"]
    name = act["name"] if isinstance(act, dict) else act
    resp = act.get("resp", "-") if isinstance(act, dict) else "-"
    if name == "RunAfter" and resp == "diff" and set(d["diff"]) <= {"sent", "srv", "plan", "final"}:
        # the pinned _execute_after_prepare falls through to self._query(host) after the id mismatch: the original
        # EXECUTE goes out again (same host, or - pool unusable - the next one; NoHostAvailable if there is none)
        sent = d["diff"].get("sent")
        if (sent and len(sent["code"]) == len(sent["spec"]) + 1 and sent["code"][-1]["kind"] == "EXECUTE") or \
                d["diff"].get("final", {}).get("code") == "NoHostAvailable":
            return "reprepare:id-mismatch:execute-resent"
    return "replay:%s/%s:%s" % (name, resp, ",".join(sorted(d["diff"])))


def cover_walks(nodes, edges, init, max_len=60):
    from harness.replay.paging import cover_walks as cw
    return cw(nodes, edges, init, max_len)


# ---------------------------------------------------------------------- recording (code -> spec)
def _post(p):
    return {"plan": list(p["plan"]), "sent": [dict(m) for m in p["sent"]],
            "srv": sorted(({"h": h, "kind": k, "n": n, "sid": sid, "live": live} for h, k, n, sid, live in p["srv"]),
                          key=lambda r: r["n"]),
            "queue": [dict(t) for t in p["queue"]], "final": p["final"], "pool": dict(p["pool"]), "timer": p["timer"],
            "rid": p["rid"], "lc": p["lc"]}


def record(rng, nhosts=3, max_unprep=3, cfg=None, bias=None):
    """Drive the real objects with random enabled environment choices; return (cfg, events)."""
    if cfg is None:
        cfg = {"pv": rng.choice([4, 5]), "sks": rng.choice(["none", "ks"]), "cks": rng.choice(["none", "ks", "ks2"]),
               "ids": rng.choice([0, 1, 1, 2]), "spec": 0}
        if rng.random() < 0.4:                    # the configurations explored with a speculative execution
            cfg.update(sks="ks", cks="ks", ids=rng.choice([1, 2]), spec=1)
    h = ReprepareHarness(nhosts, cfg)
    events = []
    unprep = 0
    try:
        for _ in range(40):
            env, fut = h.env, h.fut
            ops = []
            if fut is None:
                ops.append(("Start", "-", "-"))
            else:
                failed = fut._final_exception is not None
                chain = any(p.req.get("op") == "PREPARE" for n in env.nodes.values() for p in n.pending) or \
                    any(t.label in ("_reprepare", "_execute_after_prepare") for t in env.cluster.executor.queue)
                if h._timer_kind() == "spec" and not failed and fut._final_result is _NOT_SET:
                    ops += [("SpecExec", "-", "-")] * 3
                for hn, node in env.nodes.items():
                    for p in node.pending:
                        if p.req.get("op") == "EXECUTE" and not failed:
                            ops += [("AnsRows", hn, "-")] * 2
                            if unprep < max_unprep and not chain:          # one re-preparation at a time (spec's scope)
                                ops += [("AnsUnprepared", hn, "-")] * 4
                        elif p.req.get("op") == "PREPARE":
                            ops += [("AnsPrepare", hn, "same")] * 4 + [("AnsPrepare", hn, "diff"), ("AnsPrepare", hn, "error")]
                            if p.frame.stream in p.conn._requests:          # its handler is still registered
                                ops.append(("ConnLost", hn, "-"))
                            if not failed and fut._final_result is _NOT_SET and h._timer_kind() == "armed":
                                ops.append(("Timeout", "-", "-"))
                tasks = [t.label for t in env.cluster.executor.queue if t.label in ("_reprepare", "_execute_after_prepare")]
                if tasks:
                    ops += [("RunReprepare" if tasks[0] == "_reprepare" else "RunAfter", "-", "-")] * 4
                    for hn, host in env.hosts.items():
                        pool = env.session._pools.get(host)
                        if pool is not None and not pool.is_shutdown and pool._connection is not None and \
                                not pool._connection.is_defunct and not pool._connection.is_closed and \
                                not any(p.req.get("op") in ("PREPARE", "EXECUTE") for p in env.nodes[hn].pending):
                            ops.append(("PoolDown", hn, "-"))
            if not ops:
                break
            name, hn, resp = rng.choice(ops)
            ev = {"e": name, "h": hn, "resp": resp}
            if name == "Start":
                ev["cfg"] = dict(cfg)
            if name in ("RunReprepare", "RunAfter"):
                t = h._task("_reprepare" if name == "RunReprepare" else "_execute_after_prepare")
                ev["h"] = host_name((t.args[1] if name == "RunReprepare" else t.args[0]).endpoint.address)
                if name == "RunAfter":
                    ev["resp"] = h._resp_kind(t.args[3])
            try:
                h.do({"name": name, "h": hn, "resp": resp})
                if name == "AnsUnprepared":
                    unprep += 1
                ev["post"] = _post(h.project())
            except Exception as ex:          # noqa: BLE001 - the real objects left the envelope the harness can drive
                h.env.dirty = True
                events.append({"e": "Anomaly", "during": ev, "what": "%s: %s" % (type(ex).__name__, ex)})
                break
            events.append(ev)
        return cfg, events
    finally:
        h.finish()


def trace_of_states(states):
    """The trace a faithful implementation would record for a behaviour of the specification (binding self-tests)."""
    events = []
    for s in states[1:]:
        a = s["act"]
        ev = {"e": a["name"], "h": a["h"], "resp": a["resp"], "post": _post(spec_view(s))}
        if a["name"] == "Start":
            ev["cfg"] = dict(s["cfg"])
        events.append(ev)
    return events
