"""Binding between spec/Framing.tla and the real Connection read path (C05).

A SimConnection is opened against one FakeNode (real handshake, no cluster).  A frame sequence of the
specification (records [ver, neg, blen]) is turned into real response frames by the harness's
independent encoder (harness/wire.py):

  * responses (stream id >= 0): READY / RESULT void / ERROR / RESULT set_keyspace / RESULT rows, chosen so
    that the body has exactly `blen` bytes; frame i uses its own stream id, and a recording handler is
    registered for it in conn._requests exactly as send_msg() would do (callback, decoder, result_metadata);
  * pushes (any negative stream id of the header's width, `sid`): EVENT STATUS_CHANGE / TOPOLOGY_CHANGE with an address that names the frame;
    recording watchers sit in conn._push_watchers.

Read(k) is what every reactor's read handler does: conn._iobuf.write(chunk); conn.process_io_buffer().
Observed: every handler / watcher invocation (which one, with which decoded message, in which order), the
(header, body) pairs handed to process_msg, len(buffer), _current_frame is None, is_defunct.
"""
from harness.sim.simconn import SimWorld, FakeNode, SimConnection
from harness import wire

from cassandra.protocol import ProtocolHandler
import cassandra.protocol as cproto

ADDR = "10.0.0.1"


class Runaway(BaseException):
    """The code under test does not come back (loops, or hands over far more messages than were sent).
    A BaseException so that the driver's `except Exception` handlers do not swallow it."""


WATCHDOG_S = 30


def _on_alarm(signum, frame):
    raise Runaway("read handler still running after %d s" % WATCHDOG_S)


class CodeUnderTestFailure(Exception):
    """The driver cannot even be brought into the state the replay starts from (handshake over the read path)."""


class watchdog:
    """`with watchdog():` around a batch of reads: SIGALRM raises Runaway inside code that does not return."""

    def __init__(self, seconds=None):
        self.seconds = seconds or WATCHDOG_S

    def __enter__(self):
        import signal
        self._old = signal.signal(signal.SIGALRM, _on_alarm)
        signal.setitimer(signal.ITIMER_REAL, self.seconds)
        return self

    def __exit__(self, *a):
        import signal
        signal.setitimer(signal.ITIMER_REAL, 0)
        signal.signal(signal.SIGALRM, self._old)
        return False


def guarded_feed(conn, chunk):
    """conn._iobuf.write(chunk); conn.process_io_buffer() - what every reactor's read handler does.
    Returns None, or a description of how the code under test failed to return normally."""
    try:
        conn._iobuf.write(chunk)
        conn.process_io_buffer()
        return None
    except Runaway as exc:
        err = "runaway: %s" % exc
    except Exception as exc:          # a reactor would defunct the connection here
        err = repr(exc)
    try:
        conn.defunct(ConnectionError(err))
    except BaseException:
        conn.is_defunct = True
    return err


# ------------------------------------------------------------------ real bodies of an exact length
ROWS_OVERHEAD = len(wire.body_rows([("b", wire.T_BLOB)], [[b""]], ks="ks", table="t"))


def blob_for(idx, n):
    """n bytes that name the frame and are different at every offset class (so a shifted body differs)."""
    pat = bytes(((idx * 31 + j * 7 + (j >> 8)) & 0xFF) for j in range(min(n, 1021)))
    if n <= len(pat):
        return pat[:n]
    reps = n // len(pat) + 1
    return (pat * reps)[:n]


def pos_body(idx, blen):
    """(opcode, body, expected message class name) for a response body of exactly blen bytes."""
    if blen == 0:
        return wire.READY, b"", "ReadyMessage"
    if blen == 4:
        return wire.RESULT, wire.body_void(), "ResultMessage"
    if blen == 7:
        return wire.ERROR, wire.body_error(wire.ERR_SERVER, chr(ord("a") + idx % 26)), "ServerError"
    if blen == 8:
        return wire.RESULT, wire.body_set_keyspace("k" + chr(ord("a") + idx % 26)), "ResultMessage"
    if blen >= ROWS_OVERHEAD:
        return wire.RESULT, wire.body_rows([("b", wire.T_BLOB)], [[blob_for(idx, blen - ROWS_OVERHEAD)]],
                                           ks="ks", table="t"), "ResultMessage"
    raise ValueError("no response body of %d bytes" % blen)


NEG = {28: ("STATUS_CHANGE", "UP"), 30: ("STATUS_CHANGE", "DOWN"),
       36: ("TOPOLOGY_CHANGE", "NEW_NODE"), 40: ("TOPOLOGY_CHANGE", "REMOVED_NODE")}


def neg_body(idx, blen):
    kind, change = NEG[blen]
    addr = "10.1.%d.%d" % (idx // 200, idx % 200 + 1)
    port = 9000 + idx
    body = wire.w_string(kind) + wire.w_string(change) + wire.w_inet(addr, port)
    assert len(body) == blen
    return wire.EVENT, body, (kind, change, addr, port)


def stream_for(ver, idx):
    """Stream id used by frame idx (1-based): distinct per frame, two significant bytes for v3+."""
    return idx if ver <= 2 else 256 * idx + idx


class RealFrame:
    __slots__ = ("idx", "ver", "neg", "blen", "stream", "opcode", "body", "expect", "raw")

    def __init__(self, idx, ver, neg, blen, sid=-1):
        self.idx, self.ver, self.neg, self.blen = idx, ver, neg, blen
        if neg:
            self.stream = sid           # any negative id of the header's width marks a server push
            self.opcode, self.body, self.expect = neg_body(idx, blen)
        else:
            self.stream = stream_for(ver, idx)
            self.opcode, self.body, self.expect = pos_body(idx, blen)
        self.raw = wire.encode_frame(ver, 0, self.stream, self.opcode, self.body, response=True)
        assert len(self.raw) == wire.header_len(ver) + blen


def build_frames(frames):
    return [RealFrame(i + 1, int(f["ver"]), bool(f["neg"]), int(f["blen"]), int(f.get("sid", -1) or -1))
            for i, f in enumerate(frames)]


# ------------------------------------------------------------------ observation of one connection
class Recorder:
    """Recording handlers / watchers / process_msg observer on a real connection."""

    def __init__(self, conn):
        self.conn = conn
        self.frames = []
        self.reset_log()
        real_pm = conn.process_msg          # bound method (keeps its defunct_on_error wrapper)

        def observed_process_msg(header, body):
            self.msgs.append((header.version, header.stream, header.opcode, bytes(body)))
            if len(self.msgs) > 2 * len(self.frames) + 8:
                raise Runaway("%d messages handed to process_msg for %d frames sent" % (len(self.msgs), len(self.frames)))
            return real_pm(header, body)
        conn.process_msg = observed_process_msg
        # several watchers per event type, as register_watcher() allows; one of them raises.  _push_watchers holds
        # sets: the watcher objects hash to 0, 1, 2, so the raising one comes first in the set's iteration order
        for et in ("STATUS_CHANGE", "TOPOLOGY_CHANGE", "SCHEMA_CHANGE"):
            conn._push_watchers[et] = {_Watcher(n, name, self, et) for n, name in enumerate(WATCHERS)}

    def reset_log(self):
        self.delivered, self.pushed, self.order, self.msgs = [], [], [], []
        self.wseen = {w: [] for w in WATCHERS}
        self._decoded = []
        self.conn_errors = []
        self.by_stream, self.by_addr = {}, {}

    def load(self, frames):
        """Register what a client would have registered for the responses it is owed."""
        self.frames = frames
        self.reset_log()
        self.conn._requests.clear()
        for f in frames:
            if f.neg:
                self.by_addr[(f.expect[2], f.expect[3])] = f
            else:
                self.by_stream[f.stream] = f
                self.conn._requests[f.stream] = (self._handler(f.stream), self._decoder, None)

    # the decoder is a parameter of send_msg(); ours records what process_msg passes and calls the real one
    def _decoder(self, version, user_type_map, stream_id, flags, opcode, body, decompressor, result_metadata):
        self._decoded.append((version, stream_id, opcode, bytes(body)))
        return ProtocolHandler.decode_message(version, user_type_map, stream_id, flags, opcode, body,
                                              decompressor, result_metadata)

    def _handler(self, stream):
        def cb(response):
            if isinstance(response, Exception) and not hasattr(response, "opcode"):
                # not a message: the connection failed the request (error_all_requests) or decoding failed
                self.conn_errors.append((stream, type(response).__name__))
                return
            f = self.by_stream.get(stream)
            seen = self._decoded[-1] if self._decoded else None
            ok = (f is not None and seen is not None
                  and seen == (f.ver, f.stream, f.opcode, f.body)
                  and type(response).__name__ == f.expect
                  and getattr(response, "stream_id", f.stream) == f.stream)
            idx = f.idx if f is not None else 0
            self.delivered.append({"idx": idx, "stream": idx if f is not None else -999,
                                   "len": len(seen[3]) if seen else -1, "exact": bool(ok)})
            self.order.append(idx)
        return cb

    def _watcher(self, event_type, name=None):
        def cb(args):
            if name is not None and name != PRIMARY:
                try:
                    f = self.by_addr.get(tuple(args["address"]))
                except Exception:
                    f = None
                self.wseen[name].append(f.idx if f is not None else 0)
                if name in RAISING:
                    raise RuntimeError("watcher %s fails" % name)
                return
            try:
                addr, port = args["address"]
                f = self.by_addr.get((addr, port))
                change = args["change_type"]
            except Exception:
                f, change = None, None
            seen = self.msgs[-1] if self.msgs else None
            ok = (f is not None and seen is not None and seen == (f.ver, f.stream, f.opcode, f.body)
                  and (event_type, change) == f.expect[:2])
            idx = f.idx if f is not None else 0
            self.pushed.append({"idx": idx, "stream": f.stream if f is not None else -999,
                                "len": len(seen[3]) if seen else -1, "exact": bool(ok)})
            self.order.append(idx)
            self.wseen[PRIMARY].append(idx)
        return cb


WATCHERS = ("bad", "good1", "good2")      # registration order = hash order = iteration order of the set
RAISING = ("bad",)
PRIMARY = "good1"                         # the watcher whose view is logged in detail (`pushed`)


class _Watcher:
    """A registered push callback with a chosen place in the watcher set's iteration order."""

    def __init__(self, n, name, rec, event_type):
        self.n, self.name = n, name
        self.fn = rec._watcher(event_type, name)

    def __hash__(self):
        return self.n

    def __eq__(self, other):
        return self is other

    def __call__(self, args):
        return self.fn(args)


def open_connection(protocol_version=4, versions=(1, 2, 3, 4, 5), **kw):
    world = SimWorld()
    world.install(modules=("cassandra.connection",))
    node = world.add_node(FakeNode(ADDR, versions=versions))
    try:
        with watchdog(5):
            conn = SimConnection(ADDR, 9042, protocol_version=protocol_version, **kw)
    except Runaway:
        raise CodeUnderTestFailure("v%d handshake: the read handler does not return while the node's answer "
                                   "(one whole frame per read) is processed" % protocol_version)
    except Exception as exc:
        raise CodeUnderTestFailure("v%d handshake raised %r" % (protocol_version, exc))
    if not conn.connected_event.is_set() or conn.is_defunct or conn.is_closed:
        raise CodeUnderTestFailure("v%d handshake did not complete: %r" % (protocol_version, conn.last_error))
    return world, node, conn


class FramingHarness:
    """One real connection, reused for many frame sequences (a fresh one after any misbehaviour)."""

    def __init__(self, protocol_version=4):
        self.protocol_version = protocol_version
        self.conn = None
        self.opened = 0

    def _fresh(self):
        self.world, self.node, self.conn = open_connection(self.protocol_version)
        self.rec = Recorder(self.conn)
        self.opened += 1

    def clean(self):
        c = self.conn
        return (c is not None and not c.is_defunct and not c.is_closed and c._current_frame is None
                and len(c._iobuf.getvalue()) == 0)

    def start(self, frames):
        """frames: list of {ver, neg, blen} (spec records)."""
        if not self.clean():
            self._fresh()
        self.real = build_frames(frames)
        self.wire = b"".join(f.raw for f in self.real)
        self.sent = 0
        self.rec.load(self.real)
        self.error = None

    def read(self, k):
        chunk = self.wire[self.sent:self.sent + k]
        self.sent += len(chunk)
        c = self.conn
        if c.is_closed or c.is_defunct:
            return
        self.error = guarded_feed(c, chunk) or self.error

    def project(self):
        c, r = self.conn, self.rec
        try:
            buflen = len(c._io_buffer.cql_frame_buffer.getvalue())
        except Exception:
            buflen = -1
        return {"sent": self.sent, "buflen": buflen, "cur": c._current_frame is not None,
                "delivered": [dict(d) for d in r.delivered], "pushed": [dict(d) for d in r.pushed],
                "wseen": {w: list(v) for w, v in r.wseen.items()},
                "order": list(r.order), "nmsgs": len(r.msgs), "defunct": bool(c.is_defunct or c.is_closed)}


def spec_projection(state):
    """The same projection of a Framing.tla state."""
    return {"sent": state["sent"], "buflen": len(state["buf"]), "cur": state["cur"] != 0,
            "delivered": [dict(d) for d in state["delivered"]], "pushed": [dict(d) for d in state["pushed"]],
            "wseen": {str(w): list(v) for w, v in dict(state["wseen"]).items()},
            "order": list(state["order"]), "nmsgs": len(state["order"]), "defunct": bool(state["desync"])}


def diff(spec, code):
    return {k: {"spec": spec[k], "code": code.get(k)} for k in spec if spec[k] != code.get(k)}


def replay_reads(h, frames, reads, expected=None):
    """Feed the real connection with the given read sizes. `expected`: list of spec projections after each
    read (or None). Returns None, or the first divergence {step, k, diff}."""
    h.start(frames)
    with watchdog():
        for n, k in enumerate(reads):
            h.read(k)
            if expected is not None:
                d = diff(expected[n], h.project())
                if d:
                    return {"step": n, "k": k, "diff": d, "error": h.error}
    return None


# ------------------------------------------------------------------ code -> spec: recorded runs
def random_frames(rng, max_frames, vers, pos_lens, neg_lens, mixed=True):
    n = rng.randint(1, max_frames)
    v0 = rng.choice(vers)
    out = []
    for _ in range(n):
        ver = rng.choice(vers) if (mixed and rng.random() < 0.3) else v0
        if rng.random() < 0.3:
            out.append({"ver": ver, "neg": True, "blen": rng.choice(neg_lens),
                        "sid": rng.choice([-1, -1, -2, -3, -100, -128] + ([] if ver <= 2 else [-129, -256, -32768]))})
        else:
            out.append({"ver": ver, "neg": False, "blen": rng.choice(pos_lens), "sid": 0})
    return out


def random_chunking(rng, total, style=None):
    style = style or rng.choice(["bytes", "small", "mixed", "big", "whole"])
    out = []
    left = total
    while left > 0:
        if style == "bytes":
            k = 1
        elif style == "small":
            k = rng.randint(1, 4)
        elif style == "mixed":
            k = rng.choice([1, 1, 2, 7, 8, 9, 10, rng.randint(1, 40)])
        elif style == "big":
            k = rng.randint(1, max(1, total))
        else:
            k = left
        k = min(k, left)
        out.append(k)
        left -= k
    return out


def record(h, frames, reads):
    """Run the real connection and log one event per read with the projected post-state."""
    h.start(frames)
    trace = [{"e": "Init", "frames": frames}]
    with watchdog():
        for k in reads:
            h.read(k)
            trace.append({"e": "Read", "k": k, "post": h.project()})
    return trace


# ------------------------------------------------------------------ walks through a TLC state graph
def cover_walks(edges, init, rank=None):
    """Walks from an initial state to a terminal state (no successor) that together traverse every edge
    reachable from `init` at least once.  Greedy: follow an untraversed edge when there is one, otherwise
    move to the nearest state that still has one, otherwise finish along a shortest path to a terminal.
    With `rank` (state id -> number) the untraversed successor of lowest rank is taken first, which gives
    long walks of small steps (fewer walks, every edge still once)."""
    from collections import deque
    succ = {}
    seen_e = set()
    for s, d, _ in edges:
        if (s, d) not in seen_e:
            seen_e.add((s, d))
            succ.setdefault(s, []).append(d)
    if rank is not None:
        for s in succ:
            succ[s].sort(key=rank, reverse=True)        # pop() takes the lowest rank
    todo = {s: list(ds) for s, ds in succ.items()}      # untraversed out-edges per state
    walks = []
    for i0 in init:
        reach = set()
        dq = deque([i0])
        while dq:
            u = dq.popleft()
            if u in reach:
                continue
            reach.add(u)
            dq.extend(succ.get(u, ()))
        pending = sum(len(todo.get(u, ())) for u in reach)
        if pending == 0:
            walks.append([i0])
            continue
        while pending:
            w = [i0]
            cur = i0
            while True:
                t = todo.get(cur)
                if t:
                    nxt = t.pop()
                    pending -= 1
                    w.append(nxt)
                    cur = nxt
                    continue
                # nearest state with an untraversed edge, else nearest terminal
                par = {cur: None}
                dq = deque([cur])
                goal = None
                term = None
                while dq:
                    u = dq.popleft()
                    if u != cur and todo.get(u):
                        goal = u
                        break
                    if not succ.get(u) and term is None:
                        term = u
                    for v in succ.get(u, ()):
                        if v not in par:
                            par[v] = u
                            dq.append(v)
                tgt = goal if goal is not None else term
                if tgt is None or tgt == cur:
                    break
                path = []
                while tgt != cur:
                    path.append(tgt)
                    tgt = par[tgt]
                for v in reversed(path):
                    u = w[-1]
                    if v in todo.get(u, ()):
                        todo[u].remove(v)
                        pending -= 1
                    w.append(v)
                cur = w[-1]
                if goal is None:
                    break
            walks.append(w)
    return walks
