"""What do the REAL reactors do when the connection is closed in the middle of the handshake?  (C47)

For every reactor that can be imported on this interpreter the real connection class is run in a child process over
real sockets (asyncio: socket.socketpair(), twisted: a listening socket on 127.0.0.1 - as harness/replay/pushqueue.py
does), through the real ``Connection.factory`` in a worker thread, against a scripted peer that answers OPTIONS with
SUPPORTED and reads STARTUP.  Then either
  * mode "peer_eof":    the peer closes its socket (the server disconnects before READY), or
  * mode "local_close": the real ``close()`` of the connection object is called (the reactor's close() contract itself)
and the child reports what the real object looks like afterwards (is_closed, is_defunct, last_error, connected_event)
and what the real factory() did (returned the connection / raised which exception).

eventlet / gevent: if the module imports, the real unbound ``close`` of the class is called on a minimal stand-in
object; otherwise the reactor is skipped with a note.  asyncore / libev cannot be imported here (no asyncore module
on this interpreter, libev extension not built): their contracts are taken from the source as before.
"""
import json
import os
import subprocess
import sys

HERE = os.path.dirname(os.path.dirname(os.path.dirname(os.path.abspath(__file__))))


# ------------------------------------------------------------------ child process
def _child(reactor, mode):
    repo = os.environ.get("VERIF_REPO", "/repo")
    sys.path.insert(0, repo)
    import logging
    import socket
    import threading
    logging.disable(logging.CRITICAL)
    from harness import wire

    got_startup = threading.Event()
    may_close = threading.Event()

    def peer_loop(sock):
        buf = b""
        sock.settimeout(8)
        try:
            while True:
                frames, buf = wire.parse_frames(buf)
                stop = False
                for f in frames:
                    if f.opcode == wire.OPTIONS:
                        sock.sendall(wire.encode_frame(f.version, 0, f.stream, wire.SUPPORTED,
                                                       wire.body_supported({"CQL_VERSION": ["3.4.5"], "COMPRESSION": []})))
                    elif f.opcode == wire.STARTUP:
                        got_startup.set()
                        stop = True
                if stop:
                    break
                chunk = sock.recv(65536)
                if not chunk:
                    break
                buf += chunk
        except OSError:
            pass
        got_startup.set()
        if mode == "peer_eof":
            try:
                sock.shutdown(socket.SHUT_RDWR)
            except OSError:
                pass
            sock.close()
        else:
            may_close.wait(15)

    captured = []
    if reactor == "asyncio":
        from cassandra.io.asyncioreactor import AsyncioConnection
        a, b = socket.socketpair()

        class Conn(AsyncioConnection):
            def _connect_socket(self):
                captured.append(self)
                self._socket = a
        AsyncioConnection.initialize_reactor()
        peer = b
        port = 9042
        threading.Thread(target=peer_loop, args=(peer,), daemon=True).start()
    elif reactor == "twisted":
        from cassandra.io.twistedreactor import TwistedConnection
        srv = socket.socket()
        srv.bind(("127.0.0.1", 0))
        srv.listen(1)
        port = srv.getsockname()[1]

        class Conn(TwistedConnection):
            def __init__(self, *a, **k):
                captured.append(self)
                TwistedConnection.__init__(self, *a, **k)
        TwistedConnection.initialize_reactor()

        def acceptor():
            srv.settimeout(10)
            try:
                s, _ = srv.accept()
            except OSError:
                got_startup.set()
                return
            peer_loop(s)
        threading.Thread(target=acceptor, daemon=True).start()
    else:
        print(json.dumps({"skipped": "unknown reactor %s" % reactor}))
        return

    result = {}

    def call_factory():
        try:
            c = Conn.factory("127.0.0.1", 4.0, port=port, protocol_version=4)
            result["factory"] = "returned"
            result["conn"] = c
        except BaseException as exc:
            result["factory"] = "raised"
            result["factory_exc"] = type(exc).__name__
    ft = threading.Thread(target=call_factory, daemon=True)
    ft.start()
    if not got_startup.wait(10):
        print(json.dumps({"error": "handshake did not reach STARTUP"}))
        sys.stdout.flush()
        os._exit(0)
    if mode == "local_close":
        captured[0].close()                      # the reactor's real close()
    ft.join(12)
    may_close.set()
    conn = captured[0] if captured else None
    out = {"reactor": reactor, "mode": mode, "factory": result.get("factory", "still waiting"),
           "factory_exc": result.get("factory_exc")}
    if conn is not None:
        out.update(is_closed=bool(conn.is_closed), is_defunct=bool(conn.is_defunct),
                   last_error=type(conn.last_error).__name__ if conn.last_error else None,
                   event_set=bool(conn.connected_event.is_set()))
    print(json.dumps(out))
    sys.stdout.flush()
    os._exit(0)


def _standin_child(reactor):
    """eventlet / gevent: the real unbound close() on a minimal stand-in (only if the module imports)."""
    repo = os.environ.get("VERIF_REPO", "/repo")
    sys.path.insert(0, repo)
    import logging
    import threading
    logging.disable(logging.CRITICAL)
    try:
        if reactor == "eventlet":
            from cassandra.io.eventletreactor import EventletConnection as cls
        else:
            from cassandra.io.geventreactor import GeventConnection as cls
    except BaseException as exc:
        print(json.dumps({"reactor": reactor, "skipped": "module does not import here: %s: %s" % (type(exc).__name__, exc)}))
        return

    class Anything:
        def __getattr__(self, name):
            return lambda *a, **k: None

    class StandIn:
        pass
    s = StandIn()
    s.lock = threading.RLock()
    s.is_closed = False
    s.is_defunct = False
    s.last_error = None
    s.connected_event = threading.Event()
    s.endpoint = "stand-in"
    s._socket = Anything()
    s._read_watcher = Anything()
    s._write_watcher = Anything()
    s.errored = []
    s.error_all_requests = lambda exc: s.errored.append(type(exc).__name__)
    try:
        cls.close(s)
    except BaseException as exc:
        print(json.dumps({"reactor": reactor, "skipped": "real close() could not run on a stand-in: %s: %s" % (type(exc).__name__, exc)}))
        return
    print(json.dumps({"reactor": reactor, "mode": "local_close", "standin": True, "is_closed": bool(s.is_closed),
                      "is_defunct": False, "last_error": type(s.last_error).__name__ if s.last_error else None,
                      "event_set": s.connected_event.is_set(),
                      "factory": "raised" if s.last_error else ("returned" if s.connected_event.is_set() else "still waiting"),
                      "factory_exc": type(s.last_error).__name__ if s.last_error else None}))


# ------------------------------------------------------------------ parent side
def _spawn(code):
    return subprocess.Popen([sys.executable, "-c", code], stdout=subprocess.PIPE, stderr=subprocess.PIPE, text=True,
                            env=dict(os.environ))


def contract_of(obs):
    """close contract of Handshake.tla (CloseSteps) an observation corresponds to."""
    if obs.get("is_defunct"):
        return "defunct"            # not a close(): Connection.defunct records last_error, then sets the event
    if obs.get("event_set"):
        return "record_set" if obs.get("last_error") else "set_only"
    return "no_set"


def probe_all(timeout=120):
    """-> {reactor: {mode: observation}} ; observation has 'skipped' or 'error' when the probe could not run."""
    jobs = {}
    for reactor in ("asyncio", "twisted"):
        for mode in ("peer_eof", "local_close"):
            code = ("import sys; sys.path.insert(0, %r); from harness.replay import reactor_close as r; r._child(%r, %r)"
                    % (HERE, reactor, mode))
            jobs[(reactor, mode)] = _spawn(code)
    for reactor in ("eventlet", "gevent"):
        code = ("import sys; sys.path.insert(0, %r); from harness.replay import reactor_close as r; r._standin_child(%r)"
                % (HERE, reactor))
        jobs[(reactor, "local_close")] = _spawn(code)
    out = {}
    for (reactor, mode), p in jobs.items():
        try:
            so, se = p.communicate(timeout=timeout)
        except subprocess.TimeoutExpired:
            p.kill()
            so, se = "", "timeout"
        line = so.strip().splitlines()[-1] if so.strip() else ""
        try:
            obs = json.loads(line)
        except ValueError:
            obs = {"error": "probe child failed: rc=%s stderr=%s" % (p.returncode, (se or "")[-600:])}
        if "skipped" not in obs and "error" not in obs:
            obs["contract"] = contract_of(obs)
        out.setdefault(reactor, {})[mode] = obs
    return out


if __name__ == "__main__":
    print(json.dumps(probe_all(), indent=1))
