"""spec/Bind.tla, spec/Encryption.tla <-> real driver objects (C30, C38, C39).

Object builders only; the comparison logic lives in checks/c30.py, c38.py, c39.py.

* spec values  -> Python values / cqltypes                       py_value, cqltype, wire_type
* a bind shape -> a real PreparedStatement, built the way Session.prepare builds it: a PREPARED result body
  (harness/wire.py, independent encoder) is decoded by the real ProtocolHandler and handed to
  PreparedStatement.from_message together with a cluster-metadata double that only knows the table's
  partition key                                                  make_prepared
* a bind case  -> arguments for BoundStatement.bind, and the projection of what came out
                                                                 bind_args, observe_bind
* a mapper case -> a cqlengine model class, a recording connection registered through the public
  register_connection(session=...)                               MapperEnv
"""
import os
import re
import time
import uuid

from harness import tlaval, tlc, wire
from harness.pyenv import repo_import

KS, TABLE = "ks", "t"
EXTRA_NAME = "zz"          # a dict key that is no bind marker
UNBOUND_KEY_COLUMN = "kx"  # a partition key column of the table that the statement does not bind

_WIRE_TYPES = {"int": wire.T_INT, "text": wire.T_VARCHAR, "bigint": wire.T_BIGINT, "smallint": wire.T_SMALLINT,
               "tinyint": wire.T_TINYINT, "boolean": wire.T_BOOLEAN, "ascii": wire.T_ASCII, "blob": wire.T_BLOB,
               "uuid": wire.T_UUID}
_CQL_CLASS = {"int": "Int32Type", "text": "UTF8Type", "bigint": "LongType", "smallint": "ShortType",
              "tinyint": "ByteType", "boolean": "BooleanType", "ascii": "AsciiType", "blob": "BytesType",
              "uuid": "UUIDType"}


_STATE_HDR = re.compile(r'^State \d+:\s*$')


def enumerate_cases(module, cfg, workdir, **kw):
    """Like tlc.enumerate_states, but the dumped states are parsed lazily, one at a time (the case spaces of the
    thorough tiers are a few 10^5 states; holding them all as Python objects is not needed).
    -> (TLCResult, generator of state dicts); the dump file is removed when the generator is exhausted."""
    dump = os.path.join(workdir, "cases_%d" % int(time.time() * 1000 % 10**9))
    res = tlc.check_model(module, cfg, workdir, dump=dump, **kw)
    path = dump if os.path.exists(dump) else dump + ".dump"

    def gen():
        buf = []
        with open(path) as f:
            for line in f:
                if _STATE_HDR.match(line):
                    if buf:
                        yield tlaval.parse_state("".join(buf))
                    buf = []
                elif line.strip():
                    buf.append(line)
            if buf:
                yield tlaval.parse_state("".join(buf))
        os.unlink(path)
    return res, gen()


def tobytes(seq):
    return bytes(bytearray(seq))


def py_value(ty, v):
    """Python value of a spec value record [i |-> Int, s |-> Seq(byte)] of type ty."""
    if ty in ("int", "bigint", "smallint", "tinyint"):
        return int(v["i"])
    if ty == "boolean":
        return bool(v["i"])
    if ty in ("text", "ascii"):
        return "".join(chr(c) for c in v["s"])
    if ty == "blob":
        return tobytes(v["s"])
    if ty == "uuid":
        return uuid.UUID(bytes=tobytes(v["s"]))
    # Bind.tla PairVal: the spec writes these values as their encoding; the Python value is read back from it
    if ty == "decimal":
        import decimal
        b = tobytes(v["s"])
        return decimal.Decimal(int.from_bytes(b[4:], "big", signed=True)).scaleb(-int.from_bytes(b[:4], "big", signed=True))
    if ty in ("double", "float"):
        import struct
        return struct.unpack(">d" if ty == "double" else ">f", tobytes(v["s"]))[0]
    raise KeyError(ty)


def cqltype(ty):
    return getattr(repo_import("cassandra.cqltypes"), _CQL_CLASS[ty])


def wire_type(ty):
    return _WIRE_TYPES[ty]


def col_name(c):
    return "c%d" % c


# ------------------------------------------------------------------ C30: prepared statements

class _Named(object):
    def __init__(self, name):
        self.name = name


class _Table(object):
    def __init__(self, key_names):
        self.partition_key = [_Named(n) for n in key_names]


class _Keyspace(object):
    def __init__(self, tables):
        self.tables = tables


class ClusterMetadataDouble(object):
    """What PreparedStatement.from_message reads of cluster metadata: keyspaces[ks].tables[t].partition_key[*].name"""

    def __init__(self, key_names, ks=KS, table=TABLE):
        self.keyspaces = {ks: _Keyspace({table: _Table(key_names)})}


def decode_result(body, pv, handler=None, result_metadata=None):
    proto = repo_import("cassandra.protocol")
    handler = handler or proto._ProtocolHandler
    return handler.decode_message(pv, {}, 1, 0, 0x08, body, None, result_metadata)


def make_prepared(col_types, pk, partial, pv, policy=None, result_columns=None, ks=KS, table=TABLE, names=None):
    """col_types: spec type names of the bind markers 1..n (server-side types); pk: 1-based marker positions of the
    partition key components in key order; partial: the table has one more key column that is not bound;
    ks / table / names: the identifiers as the server reports them (names[c-1] for marker c; default c1..cn)."""
    q = repo_import("cassandra.query")
    n = len(col_types)
    col_name = (lambda c: names[c - 1]) if names else globals()["col_name"]
    key_names = [col_name(c) for c in pk] + ([UNBOUND_KEY_COLUMN] if (partial or not pk) else [])
    pk_indexes = [] if partial else [c - 1 for c in pk]          # the server sends indexes only for a complete key
    bind_columns = [(col_name(c), wire_type(col_types[c - 1])) for c in range(1, n + 1)]
    body = wire.body_prepared(b"\x01\x02", bind_columns, pk_indexes, result_columns or [], pv, ks=ks, table=table,
                              result_metadata_id=b"rm" if pv >= 5 else None)
    msg = decode_result(body, pv)
    return q.PreparedStatement.from_message(msg.query_id, msg.bind_metadata, msg.pk_indexes, ClusterMetadataDouble(key_names, ks, table),
                                            "Q", None, pv, msg.column_metadata, msg.result_metadata_id, policy)


def bind_args(case):
    """The `values` argument of BoundStatement.bind for a C30 case."""
    q = repo_import("cassandra.query")

    def one(e):
        if e["k"] == "val":
            return py_value(e["ty"], e["v"])
        return None if e["k"] == "null" else q.UNSET_VALUE
    if case["kind"] == "seq":
        return [one(e) for e in case["ents"]]
    d = {}
    for c, e in enumerate(case["ents"], 1):
        if e["k"] != "missing":
            d[col_name(c)] = one(e)
    if case["extra"]:
        d[EXTRA_NAME] = 12345
    return d


REJECTIONS = (ValueError, KeyError)       # how bind() documents / tests a refused call


def observe_bind(prepared, values):
    """-> {"raised": None | class name, "rejected": bool, "values": [...], "rk": ...} (JSON-able projection)."""
    q = repo_import("cassandra.query")
    obs = {"raised": None, "rejected": False, "values": None, "rk": None}
    try:
        bound = q.BoundStatement(prepared).bind(values)
    except Exception as ex:                       # noqa: a mutated driver may raise anything
        obs["raised"] = type(ex).__name__
        obs["rejected"] = isinstance(ex, REJECTIONS)
        obs["message"] = str(ex)[:200]
        return obs
    vals = []
    for v in bound.values:
        if v is None:
            vals.append(["null"])
        elif v is q.UNSET_VALUE:
            vals.append(["unset"])
        elif isinstance(v, (bytes, bytearray)):
            vals.append(["bytes", list(bytearray(v))])
        else:
            vals.append(["other", repr(v)])
    obs["values"] = vals
    try:
        rk = bound.routing_key
        if rk is None:
            obs["rk"] = ["none"]
        elif isinstance(rk, (bytes, bytearray)):
            obs["rk"] = ["bytes", list(bytearray(rk))]
        else:
            obs["rk"] = ["other", repr(rk)]
    except Exception as ex:                       # noqa
        obs["rk"] = ["raised", type(ex).__name__]
    return obs


def spec_slots(slots):
    return [[s["t"], list(s["b"])] if s["t"] == "bytes" else [s["t"]] for s in slots]


# ------------------------------------------------------------------ C38: cqlengine

class FakeResult(list):
    """What cqlengine reads of a ResultSet."""
    column_names = []
    has_more_pages = False

    def one(self):
        return self[0] if self else None

    def all(self):
        return list(self)

    @property
    def current_rows(self):
        return list(self)

    @property
    def was_applied(self):
        return True


class RecordingSession(object):
    """Duck-typed Session: everything Connection.from_session / setup_session / connection.execute touch."""

    def __init__(self, protocol_version):
        cluster_mod = repo_import("cassandra.cluster")
        enc = repo_import("cassandra.encoder")
        q = repo_import("cassandra.query")
        self.hosts = []
        self.keyspace = None
        self.encoder = enc.Encoder()
        self.row_factory = q.dict_factory
        self.default_consistency_level = None
        self.cluster = _FakeCluster(protocol_version, cluster_mod._ConfigMode.LEGACY)
        self.executed = []
        self.rows_for = None          # fn(statement, params) -> rows

    def execute(self, query, parameters=None, timeout=None, **kw):
        self.executed.append((query, parameters))
        text = getattr(query, "query_string", str(query))
        if self.rows_for:
            rows = self.rows_for(query, parameters)
        elif text.startswith("SELECT COUNT"):
            rows = [{"count": 0}]
        elif " IF " in text:
            rows = [{"[applied]": True}]
        else:
            rows = []
        return FakeResult(rows)

    def execute_async(self, *a, **kw):
        raise NotImplementedError("execute_async is not used by the operations of C38")


class _FakeCluster(object):
    def __init__(self, protocol_version, mode):
        self.protocol_version = protocol_version
        self._config_mode = mode

    def register_user_type(self, *a, **kw):
        pass


_MAPPER_COLUMNS = {"int": "Integer", "text": "Text", "bigint": "BigInt", "smallint": "SmallInt", "tinyint": "TinyInt",
                   "boolean": "Boolean", "ascii": "Ascii", "blob": "Blob", "uuid": "UUID",
                   "decimal": "Decimal", "double": "Double", "float": "Float"}


class MapperEnv(object):
    """A recording connection registered with cqlengine under a private name + model classes per key type list."""
    CONN = "verif_c38"

    def __init__(self, protocol_version=4, fresh=False):
        """fresh=True: start a new "application": the cassandra.cqlengine modules are imported anew, so that the
        column / model classes (and whatever they remember at class level) are those of a process that has not used
        the mapper yet.  Within one MapperEnv everything is shared, as in an application."""
        if fresh:
            import sys
            for name in [m for m in sys.modules if m == "cassandra.cqlengine" or m.startswith("cassandra.cqlengine.")]:
                del sys.modules[name]
        repo_import("cassandra.cluster")            # installs the reactor shim cassandra.cluster needs to be importable
        self.connection = repo_import("cassandra.cqlengine.connection")
        self.columns = repo_import("cassandra.cqlengine.columns")
        self.models = repo_import("cassandra.cqlengine.models")
        self.session = RecordingSession(protocol_version)
        self.connection.register_connection(self.CONN, session=self.session)
        self._models = {}

    def close(self):
        try:
            self.connection.unregister_connection(self.CONN)
        except Exception:            # noqa
            self.connection._connections.pop(self.CONN, None)

    def model(self, tys, layout="keys_first", ck_type="int"):
        """Model with partition key columns k1..kn of the given types (their declaration order = key order), one
        clustering column ck of type ck_type and one regular column v (int).  layout says where ck is DECLARED:
        after the partition key columns (keys_first), before them (clustering_first) or after k1 (clustering_between).
        cqlengine orders columns by creation, so the column objects are created in declaration order."""
        tys = tuple(tys)
        key = (tys, layout, ck_type)
        if key in self._models:
            return self._models[key]
        cols = self.columns
        name = "_".join(tys) + ("" if layout == "keys_first" else "__%s_%s" % (layout, ck_type))
        attrs = {"__keyspace__": KS, "__table_name__": "m_" + name, "__connection__": self.CONN}
        order = ["k%d" % i for i in range(1, len(tys) + 1)]
        order.insert({"keys_first": len(tys), "clustering_first": 0, "clustering_between": 1}[layout], "ck")
        for col in order:
            if col == "ck":
                attrs["ck"] = getattr(cols, _MAPPER_COLUMNS[ck_type])(primary_key=True)
            else:
                attrs[col] = getattr(cols, _MAPPER_COLUMNS[tys[int(col[1:]) - 1]])(partition_key=True)
        attrs["v"] = cols.Integer()
        cls = type("M_" + name, (self.models.Model,), attrs)
        self._models[key] = cls
        return cls
