"""Binding of spec/CqlLex.tla and spec/CqlTerm.tla to the driver (C27, C29).

* characters of the specification <-> Python text (the two non-ASCII stand-ins of the enumeration
  alphabet are replaced by the real code points);
* trace builders: the characters a driver function returned become one trace
  (begin / one event per character with its class and code point / end) that TLC runs through the
  automaton (Trace_CqlLex.tla, Trace_CqlTerm.tla);
* a small Python mirror of the automaton (`mirror_lex`, `mirror_term`).  The mirror never decides a
  check: TLC does.  It is used to print diagnostics, to re-execute replay files without TLC, and as a
  machinery cross-check (mirror verdict must equal TLC's verdict on every trace).
"""

PLACEHOLDER = {"U+00E9": "é", "U+1D11E": "\U0001D11E"}

RESERVED = frozenset("""select from where and entries full insert update with limit using use set begin unlogged
batch apply truncate delete in create keyspace schema columnfamily table materialized view index on to drop primary
into alter rename add order by asc desc allow if is grant of revoke modify authorize describe execute norecursive
token null not nan infinity or replace default unset mbean mbeans""".split())
BOOL_WORDS = frozenset(("true", "false"))

_LOWER = "abcdefghijklmnopqrstuvwxyz"
_UPPER = _LOWER.upper()
_DIGIT = "0123456789"
_HEX = _DIGIT + "abcdefABCDEF"
WORD_CLASSES = frozenset(("lower", "upper", "digit", "us", "sign", "dot"))


def chars_to_str(seq):
    """Specification character sequence -> Python str."""
    return "".join(PLACEHOLDER.get(c, c) for c in seq)


def char_class(ch):
    """The harness's own classification of a code point (the trace spec re-derives it and must agree)."""
    if len(ch) != 1:
        return "other"
    if ch in _LOWER:
        return "lower"
    if ch in _UPPER:
        return "upper"
    if ch in _DIGIT:
        return "digit"
    return {"_": "us", '"': "dq", "'": "sq", " ": "ws", "\t": "ws", "\n": "ws", "\r": "ws",
            "(": "punct", ")": "punct", "[": "punct", "]": "punct", "{": "punct", "}": "punct",
            ",": "punct", ":": "punct", "-": "sign", "+": "sign", ".": "dot"}.get(ch, "other")


def char_events(text):
    return [{"e": "ch", "ch": c, "cp": ord(c), "cls": char_class(c)} for c in text]


def lex_trace(kind, original, produced):
    """C27: `produced` must lex as exactly one token of `kind` ("ident" | "str") with value `original`."""
    return [{"e": "begin", "kind": kind, "want": list(original)}] + char_events(produced) + [{"e": "end"}]


def term_trace(expect, produced):
    """C29: `produced` must be exactly one CQL term matching the expectation (a JSON image of the
    specification's Expect(shape))."""
    return [{"e": "begin", "want": expect}] + char_events(produced) + [{"e": "end"}]


# ------------------------------------------------------------------ Python mirror of the automaton

def _is_ident(w):
    return bool(w) and w[0] in _LOWER + _UPPER and all(c in _LOWER + _UPPER + _DIGIT + "_" for c in w)


def _is_digits(w):
    return bool(w) and all(c in _DIGIT for c in w)


def _is_integer(w):
    return _is_digits(w[1:]) if w[:1] == "-" else _is_digits(w)


def _is_exponent(w):
    if len(w) < 2 or w[0] not in "eE":
        return False
    return _is_digits(w[2:]) if w[1] in "+-" else _is_digits(w[1:])


def _is_float(w):
    for i in range(1, len(w)):
        if _is_integer(w[:i]) and _is_exponent(w[i:]):
            return True
    for i in range(1, len(w)):
        if w[i] == "." and _is_integer(w[:i]):
            rest = w[i + 1:]
            if all(c in _DIGIT for c in rest):
                return True
            for j in range(0, len(rest)):
                if all(c in _DIGIT for c in rest[:j]) and _is_exponent(rest[j:]):
                    return True
    return False


def _is_hex(w):
    return len(w) >= 2 and w[0] == "0" and w[1] in "xX" and all(c in _HEX for c in w[2:])


def _is_uuid(w):
    return len(w) == 36 and all((c == "-") if i in (8, 13, 18, 23) else (c in _HEX) for i, c in enumerate(w))


def _fold(w):
    return "".join(c.lower() if c in _UPPER else c for c in w)


def classify(w):
    if _is_ident(w):
        lw = _fold(w)
        if lw in RESERVED:
            return ("keyword", lw)
        if lw in BOOL_WORDS:
            return ("bool", lw)
        return ("ident", lw)
    if _is_integer(w):
        return ("int", w)
    if _is_float(w):
        return ("float", w)
    if _is_hex(w):
        return ("hex", _fold(w[2:]))
    if _is_uuid(w):
        return ("uuid", _fold(w))
    if len(w) >= 2 and w[0] == "-" and _is_ident(w[1:]) and _fold(w[1:]) in ("nan", "infinity"):
        return ("negkeyword", _fold(w[1:]))
    return ("bad", w)


def mirror_lex(text):
    """Token list [(kind, value)] as the automaton of CqlLex.tla produces it."""
    toks = []
    mode, cur = "start", ""

    def close():
        if mode == "word":
            toks.append(classify(cur))
        elif mode == "qidq":
            toks.append(("ident", cur))
        elif mode == "strq":
            toks.append(("str", cur))

    def from_start(c):
        cl = char_class(c)
        if cl == "ws":
            return "start", ""
        if cl == "dq":
            return "qid", ""
        if cl == "sq":
            return "str", ""
        if cl in WORD_CLASSES:
            return "word", c
        toks.append(("punct" if cl == "punct" else "bad", c))
        return "start", ""

    for c in text:
        cl = char_class(c)
        if mode == "start":
            mode, cur = from_start(c)
        elif mode == "word":
            if cl in WORD_CLASSES:
                cur += c
            else:
                close()
                mode, cur = from_start(c)
        elif mode == "qid":
            if cl == "dq":
                mode = "qidq"
            else:
                cur += c
        elif mode == "qidq":
            if cl == "dq":
                mode, cur = "qid", cur + c
            else:
                close()
                mode, cur = from_start(c)
        elif mode == "str":
            if cl == "sq":
                mode = "strq"
            else:
                cur += c
        elif mode == "strq":
            if cl == "sq":
                mode, cur = "str", cur + c
            else:
                close()
                mode, cur = from_start(c)
    if mode in ("qid", "str"):
        toks.append(("bad", cur))
    else:
        close()
    return toks


def bare_ok(name):
    """Mirror of BareOk (diagnostics only)."""
    return (bool(name) and name[0] in _LOWER and all(c in _LOWER + _DIGIT + "_" for c in name)
            and name not in RESERVED and name not in BOOL_WORDS)


# ---- term recogniser mirror (CqlTerm.tla)

class _NotATerm(Exception):
    pass


def mirror_term(text):
    """-> (ok, terms): the top-level terms recognised in `text` as nested tuples
    ("str", s) ("int", digits) ("float", text) ("hex", h) ("uuid", u) ("bool", w) ("null",)
    ("list", [..]) ("tuple", [..]) ("set", [..]) ("map", [(k, v)..]) ("empty_brace",);
    ok is False when some token is not part of a literal term or brackets do not match."""
    toks = mirror_lex(text)
    out = []
    stack = []          # frames: dict(b, items, key, st, mode)
    ok = True

    def push_term(t):
        nonlocal ok
        if not stack:
            out.append(t)
            return
        f = stack[-1]
        if f["st"] in ("open", "comma"):
            if f["b"] == "{" and f["mode"] == "map":
                f["key"], f["st"] = t, "key"
            elif f["b"] == "{" and f["mode"] == "unk":
                f["key"], f["st"] = t, "first"
            else:
                f["items"].append(t)
                f["st"] = "term"
        elif f["st"] == "colon":
            f["items"].append((f["key"], t))
            f["key"], f["st"] = None, "term"
        else:
            ok = False

    closing = {")": "(", "]": "[", "}": "{"}
    for k, v in toks:
        if k == "punct" and v in "([{":
            if stack and stack[-1]["st"] not in ("open", "comma", "colon"):
                ok = False
            stack.append({"b": v, "items": [], "key": None, "st": "open", "mode": "unk" if v == "{" else "seq"})
        elif k == "punct" and v in ")]}":
            if not stack or stack[-1]["b"] != closing[v] or stack[-1]["st"] not in ("open", "term", "first"):
                ok = False
                if stack:
                    stack.pop()
                continue
            f = stack.pop()
            if f["b"] == "[":
                t = ("list", f["items"])
            elif f["b"] == "(":
                t = ("tuple", f["items"])
            elif f["st"] == "open":
                t = ("empty_brace",)
            elif f["st"] == "first":
                t = ("set", [f["key"]])
            elif f["mode"] == "map":
                t = ("map", f["items"])
            else:
                t = ("set", f["items"])
            push_term(t)
        elif k == "punct" and v == ",":
            if not stack:
                ok = False
            elif stack[-1]["st"] == "term":
                stack[-1]["st"] = "comma"
            elif stack[-1]["st"] == "first":
                f = stack[-1]
                f["mode"], f["st"] = "set", "comma"
                f["items"].append(f["key"])
                f["key"] = None
            else:
                ok = False
        elif k == "punct" and v == ":":
            if not stack or stack[-1]["b"] != "{":
                ok = False
            elif stack[-1]["st"] == "first":
                stack[-1]["mode"], stack[-1]["st"] = "map", "colon"
            elif stack[-1]["st"] == "key":
                stack[-1]["st"] = "colon"
            else:
                ok = False
        elif k in ("str", "int", "float", "hex", "uuid", "bool"):
            push_term((k, v))
        elif k == "keyword" and v == "null":
            push_term(("null",))
        elif k in ("keyword", "negkeyword") and v in ("nan", "infinity"):
            push_term(("float", ("-" if k == "negkeyword" else "") + v))
        else:
            ok = False
            if not stack:
                out.append(("nonterm", k, v))
    if stack:
        ok = False
    return ok, out


def term_matches(term, want):
    """Mirror of Matches(term, want) in CqlTerm.tla; `want` is the JSON image of an expectation."""
    k = want["k"]
    if k == "number":
        return term[0] in ("int", "float") and (str(term[1]).startswith("-") == (list(want["v"]) == ["-"]))
    if k == "anystr":
        return term[0] == "str"
    if k == "anyint":
        return term[0] == "int"
    if k in ("str", "int", "hex", "uuid", "bool"):
        return term[0] == k and list(term[1]) == list(want["v"])
    if k == "null":
        return term[0] == "null"
    if k in ("list", "tuple"):
        return term[0] == k and len(term[1]) == len(want["v"]) and all(
            term_matches(t, w) for t, w in zip(term[1], want["v"]))
    if k == "set":
        if not want["v"]:
            return term[0] == "empty_brace"
        if term[0] != "set" or len(term[1]) != len(want["v"]):
            return False
        import itertools
        return any(all(term_matches(t, w) for t, w in zip(term[1], p)) for p in itertools.permutations(want["v"]))
    if k == "map":
        if not want["v"]:
            return term[0] == "empty_brace"
        return term[0] == "map" and len(term[1]) == len(want["v"]) and all(
            term_matches(t[0], w[0]) and term_matches(t[1], w[1]) for t, w in zip(term[1], want["v"]))
    return False


def mirror_term_accepts(want, text):
    ok, terms = mirror_term(text)
    return bool(ok and len(terms) == 1 and term_matches(terms[0], want))


# ------------------------------------------------------------------ C29: Python values for the shapes of CqlTerm.tla

class MyStr(str):
    pass


class MyBytes(bytes):
    pass


class MyInt(int):
    pass


class MyFloat(float):
    pass


class MyList(list):
    pass


class MySet(set):
    pass


class MyDict(dict):
    pass


SUBCLASS_BASE = {"MyStr": "str", "MyBytes": "bytes", "MyInt": "int", "MyFloat": "float", "MyUUID": "uuid",
                 "MyList": "list", "namedtuple": "tuple", "MySet": "set", "MyDict": "dict"}

_NT = {}


def _namedtuple(n):
    import collections
    if n not in _NT:
        _NT[n] = collections.namedtuple("NT%d" % n, ["f%d" % i for i in range(n)])
        _NT[n].__module__ = __name__
        globals()["NT%d" % n] = _NT[n]          # resolvable by pickle (cassandra.util.OrderedMap pickles its keys)
    return _NT[n]


def _variants():
    import datetime
    import ipaddress
    from harness.pyenv import repo_import
    util = repo_import("cassandra.util")
    return {
        "datetime": (datetime.datetime(2020, 1, 2, 3, 4, 5, 678000), datetime.datetime(1969, 12, 31, 23, 59, 59, 1000)),
        "date": (datetime.date(2020, 1, 2), datetime.date(1, 1, 1)),
        "time": (datetime.time(3, 4, 5, 678), datetime.time(0, 0)),
        "Date": (util.Date(0), util.Date(-1)),
        "Time": (util.Time(0), util.Time(86399999999999)),
        "inet4": (ipaddress.IPv4Address("1.2.3.4"), ipaddress.IPv4Address("0.0.0.0")),
        "inet6": (ipaddress.IPv6Address("::1"), ipaddress.IPv6Address("fe80::1")),
    }


def epoch_datetime(text):
    """'<wall ms>@n' | '<wall ms>@<signed utc offset ms>' -> datetime whose own clock shows 1970-01-01 + wall ms."""
    import datetime
    wall, off = text.split("@")
    wall, _, sub = wall.partition("u")               # '<ms>u<microseconds below the millisecond>'
    tz = None if off == "n" else datetime.timezone(datetime.timedelta(milliseconds=int(off)))
    return (datetime.datetime(1970, 1, 1) + datetime.timedelta(milliseconds=int(wall), microseconds=int(sub or 0))).replace(tzinfo=tz)


def prepared_epoch_ms(shape):
    """What the prepared-statement path sends for a datetime_tz shape (or a list of one): the 8-byte big-endian
    milliseconds cassandra.cqltypes.DateType.serialize produces, as an int.  None for other shapes."""
    from harness.pyenv import repo_import
    ct = repo_import("cassandra.cqltypes")
    if shape["tag"] == "datetime_tz":
        return int.from_bytes(ct.DateType.serialize(instantiate(shape), 4), "big", signed=True)
    if shape["tag"] == "list" and len(shape["kids"]) == 1 and shape["kids"][0]["tag"] == "datetime_tz":
        b = ct.ListType.apply_parameters([ct.DateType]).serialize(instantiate(shape), 4)
        if len(b) != 16 or b[:8] != b"\x00\x00\x00\x01\x00\x00\x00\x08":
            raise ValueError("unexpected list<timestamp> encoding %r" % b)
        return int.from_bytes(b[8:], "big", signed=True)
    return None


def literal_epoch_ms(shape, text):
    """The integer the substituted literal denotes for a datetime_tz shape (or a list of one), else None."""
    ok, terms = mirror_term(text)
    if not ok or len(terms) != 1:
        return None
    t = terms[0]
    if shape["tag"] == "list":
        if t[0] != "list" or len(t[1]) != 1:
            return None
        t = t[1][0]
    return int(t[1]) if t[0] == "int" else None


def instantiate(shape, base=False):
    """Shape (dict tag / p / kids as enumerated by TLC) -> a fresh Python value.
    base=True replaces every user subclass by the type it derives from (used only to classify a failure)."""
    import decimal
    import uuid
    from harness.pyenv import repo_import
    tag, p, kids = shape["tag"], shape["p"], shape["kids"]
    if base:
        tag = SUBCLASS_BASE.get(tag, tag)
    text = chars_to_str(p)
    if tag == "str":
        return text
    if tag == "MyStr":
        return MyStr(text)
    if tag == "bytes":
        return bytes.fromhex(text)
    if tag == "bytearray":
        return bytearray(bytes.fromhex(text))
    if tag == "memoryview":
        return memoryview(bytes.fromhex(text))
    if tag == "MyBytes":
        return MyBytes(bytes.fromhex(text))
    if tag == "int":
        return int(text)
    if tag == "MyInt":
        return MyInt(text)
    if tag == "bool":
        return {"true": True, "false": False}[text]
    if tag == "float":
        return float(text)
    if tag == "MyFloat":
        return MyFloat(text)
    if tag == "Decimal":
        return decimal.Decimal(text)
    if tag == "uuid":
        return uuid.UUID(text)
    if tag == "MyUUID":
        return type("MyUUID", (uuid.UUID,), {})(text)
    if tag == "none":
        return None
    if tag == "datetime_tz":
        return epoch_datetime(text)
    v = _variants()
    if tag in v:
        return v[tag][int(text) - 1]
    vals = [instantiate(k, base) for k in kids]
    if tag == "params":
        return vals                      # the parameters of one statement (bound by checks/c29.bind, not one value)
    if tag == "list":
        return vals
    if tag == "tuple":
        return tuple(vals)
    if tag == "MyList":
        return MyList(vals)
    if tag == "namedtuple":
        return _namedtuple(len(vals))(*vals)
    if tag == "generator":
        return (x for x in vals)
    if tag == "valueseq":
        return repo_import("cassandra.encoder").ValueSequence(vals)
    if tag == "set":
        return set(vals)
    if tag == "frozenset":
        return frozenset(vals)
    if tag == "sortedset":
        return repo_import("cassandra.util").sortedset(vals)
    if tag == "MySet":
        return MySet(vals)
    pairs = [(vals[i], vals[i + 1]) for i in range(0, len(vals), 2)]
    if tag == "dict":
        return dict(pairs)
    if tag == "MyDict":
        return MyDict(pairs)
    if tag == "OrderedDict":
        import collections
        return collections.OrderedDict(pairs)
    if tag == "OrderedMap":
        return repo_import("cassandra.util").OrderedMap(pairs)
    raise ValueError("unknown shape tag %r" % tag)


def want_json(w):
    """Expect(shape) as enumerated by TLC -> JSON image with the real code points."""
    k, v = str(w["k"]), w["v"]
    if k in ("str", "int", "hex", "uuid", "bool"):
        return {"k": k, "v": [PLACEHOLDER.get(c, c) for c in v]}
    if k in ("list", "tuple", "set"):
        return {"k": k, "v": [want_json(x) for x in v]}
    if k == "map":
        return {"k": k, "v": [[want_json(x[0]), want_json(x[1])] for x in v]}
    if k == "number":
        return {"k": k, "v": list(v)}                 # the sign
    return {"k": k, "v": []}


def has_subclass(shape):
    return shape["tag"] in SUBCLASS_BASE or any(has_subclass(k) for k in shape["kids"])
