"""Binding between spec/WireRequests.tla / spec/WireResponses.tla and cassandra.protocol (C03, C04).

Requests (C03): a TLC state carries a case (kind, pv, frame options, message options) and the set of
conforming frames; `encode_case` builds the same message object and calls the real
ProtocolHandler.encode_message; `judge_request` compares and names the first deviating field.

Responses (C04): a TLC state carries (pv, header flags, opcode, body bytes, expected abstract content);
`decode_case` calls the real ProtocolHandler.decode_message and `project_response` turns the decoded
message (and, for errors, to_exception()) into the same abstract form.

States are read from the TLC dump as JSON-like data (records -> dict, sequences and sets -> list).  Text travels as
lists of UTF-8 bytes; optional fields as [] / [x]; [bytes] values as ["v", bytes] / ["null", []] / ["unset", []].
"""
import json
import os
import re
import struct
import time

from harness.pyenv import repo_import

# ------------------------------------------------------------------ fast reader for `tlc -dump` files

_F = re.compile(r'(\w+)\s*\|->')
_VAR = re.compile(r'/\\ (\w+) =')
_HDR = re.compile(r'^State \d+:\s*$', re.M)


def _to_json(text):
    """TLA+ values as printed by TLC -> JSON text: records -> objects, sequences AND sets -> arrays.
    Only C-level string operations (the dumps are tens of MB).  Strings in these specs never contain brackets."""
    t = text.replace('[', '\x01').replace(']', '\x02').replace('{', '[').replace('}', ']')
    t = t.replace('<<', '[').replace('>>', ']').replace('\x01', '{').replace('\x02', '}')
    t = t.replace('TRUE', 'true').replace('FALSE', 'false')
    t = _F.sub(r'"\1":', t)
    return _VAR.sub(r',"\1":', t)


def parse_dump_fast(path):
    """States of a TLC dump whose values are records / sequences / sets / strings / ints / booleans, as
    JSON-like Python data (records -> dict, sequences and sets -> list)."""
    with open(path) as f:
        text = f.read()
    parts = [p.strip() for p in _HDR.split(_to_json(text))]
    return json.loads("[" + ",".join("{" + p.lstrip(',') + "}" for p in parts if p) + "]")


def enumerate_fast(tlc, module, cfg, workdir, **kw):
    """tlc.enumerate_states with the fast reader; cross-checks the first states against harness.tlaval."""
    from harness import tlaval
    dump = os.path.join(workdir, "states_%d" % int(time.time() * 1000 % 10**9))
    res = tlc.check_model(module, cfg, workdir, dump=dump, **kw)
    path = dump if os.path.exists(dump) else dump + ".dump"
    states = parse_dump_fast(path)
    with open(path) as f:
        head = f.read(300000)
    parts = [p for p in _HDR.split(head) if p.strip()][:-1][:5]
    for i, p in enumerate(parts):
        slow = tlaval.to_py(tlaval.parse_state(p.strip()))
        if _canon(states[i]) != _canon(slow):
            raise tlc.MachineryError("fast dump reader disagrees with tlaval on state %d of %s" % (i + 1, module))
    os.unlink(path)
    if len(states) != res.distinct:
        raise tlc.MachineryError("dump of %s has %d states, TLC reports %d distinct" % (module, len(states), res.distinct))
    return res, states


def _canon(v):
    """order-insensitive normal form (sets come back in different orders from the two readers)"""
    if isinstance(v, dict):
        return {k: _canon(x) for k, x in v.items()}
    if isinstance(v, list):
        return sorted((_canon(x) for x in v), key=repr)
    return v


def plain(v):
    return v


# ------------------------------------------------------------------ value conversions


def opt(m):
    return m[0] if m else None


def text(b):
    return bytes(b).decode('utf8')


def limbs(l):
    """four 16-bit limbs, most significant first -> int"""
    return (l[0] << 48) | (l[1] << 32) | (l[2] << 16) | l[3]


def wire_value(v, proto):
    tag, b = v[0], v[1]
    if tag == "null":
        return None
    if tag == "unset":
        return proto._UNSET_VALUE
    return bytes(b)


def pv_name(pv):
    return {65: "dse1", 66: "dse2"}.get(pv, "v%d" % pv)


def pv_set(pvs):
    return ",".join(pv_name(p) for p in sorted(pvs))


# ------------------------------------------------------------------ C03: requests

COMP_MARK = b"\xc0\xde"


def compressor(body):
    """the opaque compression function of WireRequests.tla (Comp)"""
    return COMP_MARK + body


def build_request(case):
    """(message object, stream id, pv, compressor, allow_beta) for a case of WireRequests.tla"""
    proto = repo_import("cassandra.protocol")
    k, pv, fo, o = case["kind"], case["pv"], case["fo"], case["o"]

    def params_common():
        cont = opt(o["cont"])
        cpo = None
        if cont is not None:
            cl = repo_import("cassandra.cluster")
            unit = cl.ContinuousPagingOptions.PagingUnit.BYTES if cont["unit"] == "BYTES" else cl.ContinuousPagingOptions.PagingUnit.ROWS
            cpo = cl.ContinuousPagingOptions(page_unit=unit, max_pages=cont["max_pages"],
                                             max_pages_per_second=cont["pps"], max_queue_size=cont["queue"])
        ps = opt(o["pstate"])
        ts = opt(o["ts"])
        return dict(consistency_level=o["cl"], serial_consistency_level=opt(o["serial"]), fetch_size=opt(o["page"]),
                    paging_state=None if ps is None else bytes(ps), timestamp=None if ts is None else limbs(ts),
                    continuous_paging_options=cpo)

    if k == "QUERY":
        ks = opt(o["ks"])
        msg = proto.QueryMessage(query=text(o["query"]), keyspace=None if ks is None else text(ks), **params_common())
    elif k == "EXECUTE":
        rm = opt(o["rmid"])
        msg = proto.ExecuteMessage(query_id=bytes(o["id"]), query_params=[wire_value(v, proto) for v in opt(o["values"])],
                                   skip_meta=o["skip"], result_metadata_id=None if rm is None else bytes(rm),
                                   **params_common())
    elif k == "PREPARE":
        ks = opt(o["ks"])
        msg = proto.PrepareMessage(query=text(o["query"]), keyspace=None if ks is None else text(ks))
    elif k == "BATCH":
        q = repo_import("cassandra.query")
        bt = {0: q.BatchType.LOGGED, 1: q.BatchType.UNLOGGED, 2: q.BatchType.COUNTER}[o["btype"]]
        queries = [(s["prepared"], bytes(s["q"]) if s["prepared"] else text(s["q"]),
                    [wire_value(v, proto) for v in s["params"]]) for s in o["queries"]]
        ks, ts = opt(o["ks"]), opt(o["ts"])
        msg = proto.BatchMessage(bt, queries, o["cl"], opt(o["serial"]), None if ts is None else limbs(ts),
                                 None if ks is None else text(ks))
    elif k == "REGISTER":
        msg = proto.RegisterMessage([text(e) for e in o["events"]])
    elif k == "STARTUP":
        msg = proto.StartupMessage(cqlversion=text(o["cqlversion"]), options={text(a): text(b) for a, b in o["options"]})
    elif k == "CREDENTIALS":
        msg = proto.CredentialsMessage({text(a): text(b) for a, b in o["creds"]})
    elif k == "AUTH_RESPONSE":
        msg = proto.AuthResponseMessage(bytes(o["token"]))
    elif k == "OPTIONS":
        msg = proto.OptionsMessage()
    elif k == "REVISE_REQUEST":
        msg = proto.ReviseRequestMessage(o["op"], o["id"], o["next"])
    else:
        raise ValueError(k)
    msg.tracing = fo["tracing"]
    pl = opt(fo["payload"])
    if pl is not None:
        msg.custom_payload = {text(a): wire_value(b, proto) for a, b in pl}
    return msg, fo["stream"], pv, (compressor if fo["compress"] else None), fo["beta"]


def encode_case(case):
    """('frame', bytes) | ('raised', exception class name)"""
    proto = repo_import("cassandra.protocol")
    try:
        msg, stream, pv, comp, beta = build_request(case)
        return ("frame", proto.ProtocolHandler.encode_message(msg, stream, pv, comp, beta))
    except Exception as ex:                      # the code under test may be broken in any way
        return ("raised", type(ex).__name__)


_SHARED_PARTS = ("params.", "custom_payload", "header.", "compression")


def _common_prefix(a, b):
    n = min(len(a), len(b))
    i = 0
    while i < n and a[i] == b[i]:
        i += 1
    return i


def locate(case, real, alts, layout):
    """Names of the deviations of `real` from the closest conforming frame: list of group keys (scope, detail)."""
    pv, kind = case["pv"], case["kind"]
    hl = 9 if pv >= 3 else 8
    def distance(a):                 # closest conforming frame: same length first, then fewest differing bits
        a = bytes(a)
        return (abs(len(a) - len(real)), -_common_prefix(a, real) if len(a) != len(real) else 0,
                sum(bin(x ^ y).count("1") for x, y in zip(a, real)))
    best = bytes(min(sorted(alts), key=distance))
    rb, sb = real[hl:], best[hl:]
    if rb == sb:
        names = ["version", "flags"] + (["stream", "stream"] if pv >= 3 else ["stream"]) + ["opcode"] + ["length"] * 4
        i = _common_prefix(real[:hl], best[:hl])
        name = names[i] if i < len(names) else "length"
        if name == "flags":
            x = real[1] ^ best[1]
            return [("header.flags", "bit-0x%x" % (1 << b)) for b in range(8) if x >> b & 1]
        return [("header." + name, "differs")]
    i = _common_prefix(rb, sb)
    pos = 0
    for name, ln in layout:
        if i < pos + ln:
            scope = name if name.startswith(_SHARED_PARTS) else "%s:%s" % (kind, name)
            if name.endswith("flags") and len(rb) >= pos + ln:
                x = int.from_bytes(rb[pos:pos + ln], "big") ^ int.from_bytes(sb[pos:pos + ln], "big")
                bits = [b for b in range(ln * 8) if x >> b & 1]
                if len(bits) <= 2:                       # a flag or two wrong; more = the word itself is misplaced / mis-sized
                    return [(scope, "bit-0x%x" % (1 << b)) for b in bits]
            return [(scope, "truncated" if i >= len(rb) else "differs")]
        pos += ln
    return [("%s:end-of-body" % kind, "trailing-bytes" if len(rb) > len(sb) else "differs")]


def param_flags(case, real, layout):
    """the <flags> word of <query_parameters> in an encoded frame (0 when the layout has none)"""
    pos = 9 if case["pv"] >= 3 else 8
    for name, ln in layout:
        if name == "params.flags":
            return int.from_bytes(real[pos:pos + ln], "big")
        pos += ln
    return 0


def judge_request(state, got=None):
    """(None, got) when the real encoder agrees with the state; otherwise (group keys, got).
    `got` may be supplied by the caller (a frame produced through the session layer)."""
    case, expect = state["c"], state["expect"]
    if got is None:
        got = encode_case(case)
    if expect == "frame":
        if got[0] == "frame":
            if list(got[1]) in state["alts"]:
                return None, got
            keys = locate(case, got[1], state["alts"], state["layout"])
            return [("frame",) + k for k in keys], got
        return [("raised", case["kind"], got[1])], got
    if expect == "reject":
        if got[0] == "raised":
            return None, got
        must = sorted(n for n, m in state["reasons"] if m)      # frame-level options are not specific to a message kind
        return [("not-rejected", "any" if n == "custom_payload" else case["kind"], n) for n in must], got
    return None, got                             # "open": recorded by the caller, not judged


# ---- sequences through the session layer (WireRequests.tla, Session action)

_sessions = {}


def sim_session(pv):
    """a real Session over the simulation substrate, speaking protocol version pv (no sockets, no threads)"""
    if pv not in _sessions:
        from harness.sim.simcluster import SimWorld, FakeNode, make_cluster
        w = SimWorld()
        w.add_node(FakeNode("10.0.0.1", versions=(pv,)))
        cluster = make_cluster(w, ["10.0.0.1"], protocol_version=pv, inline=True)
        session = cluster.connect(wait_for_all_pools=True)
        session.use_client_timestamp = False          # the specification's session requests no timestamp
        _sessions[pv] = (cluster, session)
    return _sessions[pv][1]


def close_sessions():
    for cluster, _ in _sessions.values():
        try:
            cluster.shutdown()
        except Exception:
            pass
    _sessions.clear()


def _payload(pairs, proto):
    return {text(a): wire_value(b, proto) for a, b in pairs} if pairs else None


def make_statement(seq, case):
    """the ONE statement object of a sequence: consistency ONE, fetch size 5000, its own custom payload"""
    proto = repo_import("cassandra.protocol")
    q = repo_import("cassandra.query")
    own = _payload(seq["ownp"], proto)
    o = case["o"]
    if seq["stmt"] == "simple":
        return q.SimpleStatement(text(o["query"]), consistency_level=o["cl"], fetch_size=5000, custom_payload=own)
    if seq["stmt"] == "bound":
        rm = opt(o["rmid"])
        ps = q.PreparedStatement(column_metadata=[], query_id=bytes(o["id"]), routing_key_indexes=None, query="q", keyspace=None,
                                 protocol_version=case["pv"], result_metadata=[], result_metadata_id=None if rm is None else bytes(rm))
        ps.custom_payload = own
        ps.consistency_level = o["cl"]
        ps.fetch_size = 5000
        return ps                                     # bound anew for every execution, as applications do
    b = q.BatchStatement(consistency_level=o["cl"], custom_payload=own)
    for s in o["queries"]:
        b.add(q.SimpleStatement(text(s["q"])))
    return b


def session_frame(statement, state):
    """execute step of a sequence: Session._create_response_future(statement, per-call payload) -> the frame it would send"""
    proto = repo_import("cassandra.protocol")
    case = state["c"]
    try:
        session = sim_session(case["pv"])
        stmt = statement.bind(()) if hasattr(statement, "bind") else statement
        fut = session._create_response_future(stmt, None, False, _payload(case["seq"]["callp"], proto), 10.0)
        return ("frame", proto.ProtocolHandler.encode_message(fut.message, case["fo"]["stream"], case["pv"], None, False))
    except Exception as ex:
        return ("raised", type(ex).__name__)


# ------------------------------------------------------------------ C04: responses

def be_int(b):
    return int.from_bytes(bytes(b), "big", signed=True)


def type_tree(t):
    """cassandra.cqltypes class -> abstract type tree (same shape as WireResponses.tla)"""
    ct = repo_import("cassandra.cqltypes")
    if isinstance(t, type) and issubclass(t, ct.UserType):
        return {"k": "udt", "ks": t.keyspace, "name": t.typename,
                "fields": [[n, type_tree(s)] for n, s in zip(t.fieldnames, t.subtypes)]}
    if isinstance(t, type) and issubclass(t, ct.TupleType):
        return {"k": "tuple", "items": [type_tree(s) for s in t.subtypes]}
    if isinstance(t, type) and issubclass(t, ct.ListType):
        return {"k": "list", "e": type_tree(t.subtypes[0])}
    if isinstance(t, type) and issubclass(t, ct.SetType):
        return {"k": "set", "e": type_tree(t.subtypes[0])}
    if isinstance(t, type) and issubclass(t, ct.MapType):
        return {"k": "map", "key": type_tree(t.subtypes[0]), "val": type_tree(t.subtypes[1])}
    return {"k": "simple", "cass": getattr(t, "cassname", repr(t)), "cql": getattr(t, "typename", repr(t)),
            "subtypes": len(getattr(t, "subtypes", ()) or ())}


def spec_type_tree(t):
    """type tree of the specification -> same normal form as type_tree()"""
    k = t["k"]
    if k == "udt":
        return {"k": "udt", "ks": text(t["ks"]), "name": text(t["name"]),
                "fields": [[text(f[0]), spec_type_tree(f[1])] for f in t["fields"]]}
    if k == "tuple":
        return {"k": "tuple", "items": [spec_type_tree(s) for s in t["items"]]}
    if k in ("list", "set"):
        return {"k": k, "e": spec_type_tree(t["e"])}
    if k == "map":
        return {"k": "map", "key": spec_type_tree(t["key"]), "val": spec_type_tree(t["val"])}
    if k == "custom":
        return {"k": "custom", "cls": text(t["cls"])}
    return {"k": "native", "name": k}


MARSHAL = "org.apache.cassandra.db.marshal."


def type_matches(spec_t, real_t):
    """does the driver's type (normal form) denote the specification's type?"""
    k = spec_t["k"]
    if k == "native":
        return real_t["k"] == "simple" and real_t["cql"] == spec_t["name"] and real_t["subtypes"] == 0
    if k == "custom":
        cls = spec_t["cls"]
        return real_t["k"] == "simple" and (real_t["cass"] == cls or MARSHAL + real_t["cass"] == cls)
    if real_t["k"] != k:
        return False
    if k in ("list", "set"):
        return type_matches(spec_t["e"], real_t["e"])
    if k == "map":
        return type_matches(spec_t["key"], real_t["key"]) and type_matches(spec_t["val"], real_t["val"])
    if k == "tuple":
        return len(spec_t["items"]) == len(real_t["items"]) and all(map(type_matches, spec_t["items"], real_t["items"]))
    if k == "udt":
        return (spec_t["ks"] == real_t["ks"] and spec_t["name"] == real_t["name"]
                and [f[0] for f in spec_t["fields"]] == [f[0] for f in real_t["fields"]]
                and all(type_matches(a[1], b[1]) for a, b in zip(spec_t["fields"], real_t["fields"])))
    return False


def build_type(t):
    """specification type tree -> cassandra.cqltypes class (for result_metadata of NO_METADATA rows)"""
    ct = repo_import("cassandra.cqltypes")
    proto = repo_import("cassandra.protocol")
    k = t["k"]
    if k == "list":
        return ct.ListType.apply_parameters((build_type(t["e"]),))
    if k == "set":
        return ct.SetType.apply_parameters((build_type(t["e"]),))
    if k == "map":
        return ct.MapType.apply_parameters((build_type(t["key"]), build_type(t["val"])))
    if k == "tuple":
        return ct.TupleType.apply_parameters(tuple(build_type(s) for s in t["items"]))
    if k == "udt":
        return ct.UserType.make_udt_class(text(t["ks"]), text(t["name"]), tuple(text(f[0]) for f in t["fields"]),
                                          tuple(build_type(f[1]) for f in t["fields"]))
    if k == "custom":
        return ct.lookup_casstype(text(t["cls"]))
    for cls in proto.ResultMessage.type_codes.values():
        if getattr(cls, "typename", None) == k:
            return cls
    raise ValueError("no driver type for %r" % (k,))


def _b(x):
    """str / bytes -> bytes (text is compared as UTF-8 bytes); anything else unchanged"""
    if isinstance(x, str):
        return x.encode("utf8")
    return x


def _cell(v):
    """decoded cell -> bytes as on the wire, for the two value types the specification fills in (int, varchar)"""
    if v is None:
        return None
    if isinstance(v, bool):
        return "?" + repr(v)
    if isinstance(v, int):
        try:
            return struct.pack(">i", v)
        except struct.error:
            return "?" + repr(v)
    if isinstance(v, (str, bytes)):
        return _b(v)
    return "?" + repr(v)


def deep_value(v):
    """decoded value of a composite type -> the abstract value form of WireResponses.tla (EVal): field NAMES and
    values in order for a UDT (the driver returns a namedtuple), elements in order for tuple / list / set / map"""
    if v is None:
        return ["null"]
    if isinstance(v, bool):
        return ["?", repr(v)]
    if isinstance(v, int):
        return ["i", v]
    if isinstance(v, (str, bytes)):
        return ["s", list(_b(v))]
    if isinstance(v, tuple) and hasattr(v, "_fields"):
        return ["udt", [[list(_b(n)), deep_value(x)] for n, x in zip(v._fields, v)]]
    if isinstance(v, tuple):
        return ["tuple", [deep_value(x) for x in v]]
    if isinstance(v, list):
        return ["list", [deep_value(x) for x in v]]
    if hasattr(v, "items"):
        return ["map", [[deep_value(k), deep_value(x)] for k, x in v.items()]]
    if hasattr(v, "__iter__"):
        return ["set", [deep_value(x) for x in v]]
    return ["?", repr(v)]


def _val(v):
    """specification [bytes] value -> bytes / None"""
    return None if v[0] != "v" else bytes(v[1])


def _ob(m):
    """option of bytes -> bytes / None"""
    return bytes(m[0]) if m else None


def _ntop(addr):
    import socket
    return socket.inet_ntop(socket.AF_INET if len(addr) == 4 else socket.AF_INET6, bytes(addr))


# protocol error code -> (message class in cassandra.protocol, documented exception in cassandra or None)
ERROR_API = {
    0x0000: ("ServerError", None), 0x000A: ("ProtocolException", None), 0x0100: ("BadCredentials", None),
    0x1000: ("UnavailableErrorMessage", "Unavailable"), 0x1001: ("OverloadedErrorMessage", None),
    0x1002: ("IsBootstrappingErrorMessage", None), 0x1003: ("TruncateError", None),
    0x1100: ("WriteTimeoutErrorMessage", "WriteTimeout"), 0x1200: ("ReadTimeoutErrorMessage", "ReadTimeout"),
    0x1300: ("ReadFailureMessage", "ReadFailure"), 0x1400: ("FunctionFailureMessage", "FunctionFailure"),
    0x1500: ("WriteFailureMessage", "WriteFailure"), 0x1600: ("CDCWriteException", None),
    0x1700: ("ErrorMessage", None),            # CAS_WRITE_UNKNOWN: no class in the driver -> generic ErrorMessage
    0x2000: ("SyntaxException", None), 0x2100: ("UnauthorizedErrorMessage", "Unauthorized"),
    0x2200: ("InvalidRequestException", "InvalidRequest"), 0x2300: ("ConfigurationException", None),
    0x2400: ("AlreadyExistsException", "AlreadyExists"), 0x2500: ("PreparedQueryNotFound", None),
}
# field names of the protocol documents -> attribute names documented by the driver (cassandra.Unavailable, ...)
FIELD_API = {"cl": "consistency", "required": "required_replicas", "alive": "alive_replicas",
             "received": "received_responses", "blockfor": "required_responses", "write_type": "write_type",
             "data_present": "data_retrieved", "numfailures": "failures", "reasonmap": "error_code_map",
             "keyspace": "keyspace", "function": "function", "arg_types": "arg_types", "table": "table"}
UNDOCUMENTED_FIELDS = ("contentions",)         # v5 Write_timeout <contentions>: no attribute in the driver's API


def _info_value(name, v):
    cas = repo_import("cassandra")
    if name == "write_type":
        return cas.WriteType.name_to_value.get(text(v), "?" + text(v))
    if name == "reasonmap":
        return {_ntop(a): code for a, code in v}
    if name == "arg_types":
        return [bytes(x) for x in v]
    if name in ("keyspace", "function", "table"):
        return bytes(v)
    return v


def expected_fields(st):
    """what the decoded message must carry, as {field path: comparable value}, from a state of WireResponses.tla"""
    c, fx, exp = st["c"], st["fx"], st["exp"]
    f = {"stream_id": c["stream"],
         "trace_id": _ob(fx["trace"]),
         "warnings": [bytes(w) for w in fx["warnings"][0]] if fx["warnings"] else None,
         "custom_payload": {bytes(k): _val(v) for k, v in fx["payload"][0]} if fx["payload"] else None}
    cls = exp["cls"]
    if cls == "AUTHENTICATE":
        f["authenticator"] = bytes(exp["authenticator"])
    elif cls in ("AUTH_CHALLENGE", "AUTH_SUCCESS"):
        f["token"] = _val(exp["token"])
    elif cls == "SUPPORTED":
        f["options"] = {bytes(k): [bytes(x) for x in v] for k, v in exp["options"]}
    elif cls == "EVENT":
        f["event_type"] = exp["etype"]
        if exp["etype"] == "SCHEMA_CHANGE":
            f.update(_schema_expected(exp))
        else:
            f["change_type"] = bytes(exp["change"])
            f["address"] = (_ntop(exp["addr"]), exp["port"])
    elif cls == "ERROR":
        f["class"], f["exception"] = ERROR_API[exp["code"]]
        f["code"] = exp["code"]
        f["message"] = bytes(exp["msg"])
        if exp["code"] == 0x2500:
            f["info"] = bytes(exp["info"][0][1])
        elif exp["code"] != 0x1700:
            for name, v in exp["info"]:
                if name in UNDOCUMENTED_FIELDS:
                    continue
                f["info." + FIELD_API[name]] = _info_value(name, v)
                if f["exception"] is not None:           # the documented exception carries the same fields
                    f["exc." + FIELD_API[name]] = _info_value(name, v)
    elif cls == "RESULT":
        k = f["kind"] = exp["kind"]
        if k == "set_keyspace":
            f["new_keyspace"] = bytes(exp["keyspace"])
        elif k == "schema_change":
            f.update(_schema_expected(exp))
        elif k == "rows":
            cols = exp["cols"]
            f["column_names"] = [bytes(x["name"]) for x in cols]
            f["column_types"] = [spec_type_tree(x["type"]) for x in cols]
            f["column_tables"] = None if exp["nometa"] else [(bytes(x["ks"]), bytes(x["table"])) for x in cols]
            f["parsed_rows"] = exp["deep"] if "deep" in exp else [[_val(cell) for cell in row] for row in exp["rows"]]
            f["paging_state"] = _ob(exp["paging_state"])
            f["result_metadata_id"] = _ob(exp["metadata_id"])
            f["continuous_paging_seq"] = exp["cont"][0]["seq"] if exp["cont"] else None
            f["continuous_paging_last"] = exp["cont"][0]["last"] if exp["cont"] else None
        elif k == "prepared":
            f["query_id"] = bytes(exp["id"])
            f["result_metadata_id"] = _ob(exp["metadata_id"])
            f["pk_indexes"] = list(exp["pk"][0]) if exp["pk"] else None
            f["bind_metadata"] = [(bytes(x["ks"]), bytes(x["table"]), bytes(x["name"])) for x in exp["bind"]]
            f["bind_types"] = [spec_type_tree(x["type"]) for x in exp["bind"]]
            res = exp["result"]
            f["column_metadata"] = [(bytes(x["ks"]), bytes(x["table"]), bytes(x["name"])) for x in res[0]] if res else None
            f["column_metadata_types"] = [spec_type_tree(x["type"]) for x in res[0]] if res else None
    return f


def _schema_expected(exp):
    return {"target_type": exp["target"], "change_type": bytes(exp["change"]), "keyspace": bytes(exp["keyspace"]),
            "target_name": _ob(exp["name"]), "argument_types": [bytes(a) for a in exp["args"][0]] if exp["args"] else None}


def _schema_projected(ev):
    tt = ev.get("target_type")
    name = args = None
    if tt in ("FUNCTION", "AGGREGATE"):
        d = ev.get(tt.lower())
        name = _b(getattr(d, "name", None))
        at = getattr(d, "argument_types", None)
        args = None if at is None else [_b(a) for a in at]
    elif tt != "KEYSPACE":
        name = _b(ev.get(str(tt).lower()))
    extra = sorted(set(ev) - {"target_type", "change_type", "keyspace", "table", "type", "function", "aggregate"})
    return {"target_type": tt, "change_type": _b(ev.get("change_type")), "keyspace": _b(ev.get("keyspace")),
            "target_name": name, "argument_types": args, **({"unexpected_keys": extra} if extra else {})}


def _cols(md):
    return None if md is None else [(_b(c[0]), _b(c[1]), _b(c[2])) for c in md]


def projected_fields(st, msg):
    """the same {field path: value} read off the decoded message (and, for errors, its to_exception())"""
    proto = repo_import("cassandra.protocol")
    exp = st["exp"]
    tid = getattr(msg, "trace_id", None)
    w = getattr(msg, "warnings", None)
    cp = getattr(msg, "custom_payload", None)
    f = {"stream_id": getattr(msg, "stream_id", None),
         "trace_id": getattr(tid, "bytes", tid),
         "warnings": None if w is None else [_b(x) for x in w],
         "custom_payload": None if cp is None else {_b(k): v for k, v in cp.items()}}
    cls = exp["cls"]
    want = {"READY": proto.ReadyMessage, "AUTHENTICATE": proto.AuthenticateMessage, "AUTH_CHALLENGE": proto.AuthChallengeMessage,
            "AUTH_SUCCESS": proto.AuthSuccessMessage, "SUPPORTED": proto.SupportedMessage, "EVENT": proto.EventMessage,
            "ERROR": proto.ErrorMessage, "RESULT": proto.ResultMessage}[cls]
    if not isinstance(msg, want):
        f["message_class"] = type(msg).__name__
        return f
    if cls == "AUTHENTICATE":
        f["authenticator"] = _b(msg.authenticator)
    elif cls == "AUTH_CHALLENGE":
        f["token"] = _b(msg.challenge)
    elif cls == "AUTH_SUCCESS":
        f["token"] = _b(msg.token)
    elif cls == "SUPPORTED":
        o = {_b(k): [_b(x) for x in v] for k, v in msg.options.items()}
        o[b"CQL_VERSION"] = [_b(x) for x in msg.cql_versions]
        f["options"] = o
    elif cls == "EVENT":
        f["event_type"] = msg.event_type
        if msg.event_type == "SCHEMA_CHANGE":
            f.update(_schema_projected(msg.event_args))
        else:
            f["change_type"] = _b(msg.event_args.get("change_type"))
            f["address"] = msg.event_args.get("address")
    elif cls == "ERROR":
        cas = repo_import("cassandra")
        want_cls, want_exc = ERROR_API[exp["code"]]
        # class: exactly the one registered for the code (a generic ErrorMessage for codes the driver does not know)
        f["class"] = type(msg).__name__
        f["code"] = msg.code
        f["message"] = _b(msg.message)
        info = msg.info
        if exp["code"] == 0x2500:
            f["info"] = info
        elif exp["code"] != 0x1700 and isinstance(info, dict):
            for k, v in info.items():
                f["info." + k] = [_b(x) for x in v] if k == "arg_types" else _b(v)
            if not HasReasonMap(st["c"]["pv"]) and info.get("error_code_map") is None:
                f.pop("info.error_code_map", None)
        try:
            exc = msg.to_exception()
        except Exception as ex:                                  # a broken driver may fail here
            exc = ex
            f["exception"] = "raised " + type(ex).__name__
        if "exception" not in f:
            if want_exc is None:
                f["exception"] = None if (exc is msg and isinstance(exc, Exception)) else type(exc).__name__
            else:
                f["exception"] = want_exc if isinstance(exc, getattr(cas, want_exc)) else type(exc).__name__
                for name, _v in exp["info"]:
                    if name in UNDOCUMENTED_FIELDS:
                        continue
                    attr = FIELD_API[name]
                    v = getattr(exc, attr, "<no attribute>")
                    f["exc." + attr] = [_b(x) for x in v] if attr == "arg_types" and isinstance(v, (list, tuple)) else _b(v)
                if want_exc in ("Unauthorized", "InvalidRequest") and text(exp["msg"]) not in str(exc):
                    f["exc.message"] = str(exc)
    elif cls == "RESULT":
        kinds = {proto.RESULT_KIND_VOID: "void", proto.RESULT_KIND_ROWS: "rows", proto.RESULT_KIND_SET_KEYSPACE: "set_keyspace",
                 proto.RESULT_KIND_PREPARED: "prepared", proto.RESULT_KIND_SCHEMA_CHANGE: "schema_change"}
        k = f["kind"] = kinds.get(msg.kind, msg.kind)
        if k == "set_keyspace":
            f["new_keyspace"] = _b(msg.new_keyspace)
        elif k == "schema_change":
            f.update(_schema_projected(msg.schema_change_event))
        elif k == "rows":
            f["column_names"] = None if msg.column_names is None else [_b(x) for x in msg.column_names]
            f["column_types"] = None if msg.column_types is None else [type_tree(t) for t in msg.column_types]
            md = msg.column_metadata
            f["column_tables"] = None if md is None else [(_b(x[0]), _b(x[1])) for x in md]
            cell = deep_value if "deep" in exp else _cell
            f["parsed_rows"] = None if msg.parsed_rows is None else [[cell(v) for v in row] for row in msg.parsed_rows]
            f["paging_state"] = msg.paging_state
            f["result_metadata_id"] = getattr(msg, "result_metadata_id", None)
            f["continuous_paging_seq"] = msg.continuous_paging_seq
            last = msg.continuous_paging_last
            f["continuous_paging_last"] = None if last is None else bool(last)
        elif k == "prepared":
            f["query_id"] = msg.query_id
            f["result_metadata_id"] = getattr(msg, "result_metadata_id", None)
            f["pk_indexes"] = None if msg.pk_indexes is None else list(msg.pk_indexes)
            f["bind_metadata"] = _cols(msg.bind_metadata)
            f["bind_types"] = None if msg.bind_metadata is None else [type_tree(x[3]) for x in msg.bind_metadata]
            f["column_metadata"] = _cols(msg.column_metadata)
            f["column_metadata_types"] = None if msg.column_metadata is None else [type_tree(x[3]) for x in msg.column_metadata]
    return f


def HasReasonMap(pv):
    return pv in (5, 6, 65, 66)


_TYPE_FIELDS = ("column_types", "bind_types", "column_metadata_types")


def _same(field, want, got):
    if field in _TYPE_FIELDS:
        if want is None or got is None:
            return want is None and got is None
        return len(want) == len(got) and all(type_matches(a, b) for a, b in zip(want, got))
    if field == "token" and want is None:
        return got in (None, b"", "")           # a null [bytes] may surface as None or as empty
    return want == got


def judge_response(st):
    """(None, summary) when the real decoder agrees with the state; otherwise (group keys, summary)"""
    exp = st["exp"]
    cls = exp["cls"]
    sub = exp.get("kind") or ("0x%04x" % exp["code"] if cls == "ERROR" else exp.get("etype")) or ""
    scope = cls + (":" + sub if sub else "") + (":evolving-udt" if st["c"].get("scn") else "")
    got = decode_case(st["c"], result_metadata_for(st["c"]))
    if got[0] == "raised":
        return [("raised", scope, got[1])], {"raised": got[1], "text": got[2]}
    want = expected_fields(st)
    try:
        have = projected_fields(st, got[1])
    except Exception as ex:                     # projection of a message mangled by a broken driver
        return [("unprojectable", scope, type(ex).__name__)], {"projection_raised": repr(ex)[:200]}
    keys = []
    for field in want:
        if field not in have:
            keys.append(("decode", scope, field + ":missing"))
        elif not _same(field, want[field], have[field]):
            keys.append(("decode", scope, field))
    for field in have:
        if field not in want:
            keys.append(("decode", scope, field + ":unexpected"))
    return (keys or None), {"want": want, "have": have}


def decode_case(case, result_metadata=None):
    """('msg', message) | ('raised', exception class name, text)"""
    proto = repo_import("cassandra.protocol")
    try:
        msg = proto.ProtocolHandler.decode_message(case["pv"], {}, case["stream"], case["flags"], case["opcode"],
                                                   bytes(case["body"]), None, result_metadata)
        return ("msg", msg)
    except Exception as ex:
        return ("raised", type(ex).__name__, str(ex)[:200])


def result_metadata_for(case):
    """what the caller hands to decode_message as result_metadata (c.held of WireResponses.tla): None, or the
    (keyspace, table, name, type class) list of the prepared statement's result columns - possibly empty, possibly stale"""
    held = case.get("held")
    if not held:
        return None
    return [(text(c["ks"]), text(c["table"]), text(c["name"]), build_type(c["type"])) for c in held[0]]
