"""Binding between spec/WireRequests.tla / spec/WireResponses.tla and cassandra.protocol (C03, C04).

Requests (C03): a TLC state carries a case (kind, pv, frame options, message options) and the set of
conforming frames; `encode_case` builds the same message object and calls the real
ProtocolHandler.encode_message; `judge_request` compares and names the first deviating field.

Responses (C04): a TLC state carries (pv, header flags, opcode, body bytes, expected abstract content);
`decode_case` calls the real ProtocolHandler.decode_message and `project_response` turns the decoded
message (and, for errors, to_exception()) into the same abstract form.

Text travels as UTF-8 byte tuples in the specification; optional fields as () / (x,); [bytes] values as
("v", bytes) / ("null", ()) / ("unset", ()).
"""
import json
import os
import re
import struct
import time

from harness.pyenv import repo_import

# ------------------------------------------------------------------ fast reader for `tlc -dump` files

_F = re.compile(r'(\w+)\s*\|->')
_VAR = re.compile(r'/\\ (\w+) =')
_HDR = re.compile(r'^State \d+:\s*$', re.M)


def _to_json(text):
    """TLA+ values as printed by TLC -> JSON text: records -> objects, sequences AND sets -> arrays.
    Only C-level string operations (the dumps are tens of MB).  Strings in these specs never contain brackets."""
    t = text.replace('[', '\x01').replace(']', '\x02').replace('{', '[').replace('}', ']')
    t = t.replace('<<', '[').replace('>>', ']').replace('\x01', '{').replace('\x02', '}')
    t = t.replace('TRUE', 'true').replace('FALSE', 'false')
    t = _F.sub(r'"\1":', t)
    return _VAR.sub(r',"\1":', t)


def parse_dump_fast(path):
    """States of a TLC dump whose values are records / sequences / sets / strings / ints / booleans, as
    JSON-like Python data (records -> dict, sequences and sets -> list)."""
    with open(path) as f:
        text = f.read()
    parts = [p.strip() for p in _HDR.split(_to_json(text))]
    return json.loads("[" + ",".join("{" + p.lstrip(',') + "}" for p in parts if p) + "]")


def enumerate_fast(tlc, module, cfg, workdir, **kw):
    """tlc.enumerate_states with the fast reader; cross-checks the first states against harness.tlaval."""
    from harness import tlaval
    dump = os.path.join(workdir, "states_%d" % int(time.time() * 1000 % 10**9))
    res = tlc.check_model(module, cfg, workdir, dump=dump, **kw)
    path = dump if os.path.exists(dump) else dump + ".dump"
    states = parse_dump_fast(path)
    with open(path) as f:
        head = f.read(300000)
    parts = [p for p in _HDR.split(head) if p.strip()][:-1][:5]
    for i, p in enumerate(parts):
        slow = tlaval.to_py(tlaval.parse_state(p.strip()))
        if _canon(states[i]) != _canon(slow):
            raise tlc.MachineryError("fast dump reader disagrees with tlaval on state %d of %s" % (i + 1, module))
    os.unlink(path)
    if len(states) != res.distinct:
        raise tlc.MachineryError("dump of %s has %d states, TLC reports %d distinct" % (module, len(states), res.distinct))
    return res, states


def _canon(v):
    """order-insensitive normal form (sets come back in different orders from the two readers)"""
    if isinstance(v, dict):
        return {k: _canon(x) for k, x in v.items()}
    if isinstance(v, list):
        return sorted((_canon(x) for x in v), key=repr)
    return v


def plain(v):
    return v


# ------------------------------------------------------------------ value conversions


def opt(m):
    return m[0] if m else None


def text(b):
    return bytes(b).decode('utf8')


def limbs(l):
    """four 16-bit limbs, most significant first -> int"""
    return (l[0] << 48) | (l[1] << 32) | (l[2] << 16) | l[3]


def wire_value(v, proto):
    tag, b = v[0], v[1]
    if tag == "null":
        return None
    if tag == "unset":
        return proto._UNSET_VALUE
    return bytes(b)


def pv_name(pv):
    return {65: "dse1", 66: "dse2"}.get(pv, "v%d" % pv)


def pv_set(pvs):
    return ",".join(pv_name(p) for p in sorted(pvs))


# ------------------------------------------------------------------ C03: requests

COMP_MARK = b"\xc0\xde"


def compressor(body):
    """the opaque compression function of WireRequests.tla (Comp)"""
    return COMP_MARK + body


def build_request(case):
    """(message object, stream id, pv, compressor, allow_beta) for a case of WireRequests.tla"""
    proto = repo_import("cassandra.protocol")
    k, pv, fo, o = case["kind"], case["pv"], case["fo"], case["o"]

    def params_common():
        cont = opt(o["cont"])
        cpo = None
        if cont is not None:
            cl = repo_import("cassandra.cluster")
            unit = cl.ContinuousPagingOptions.PagingUnit.BYTES if cont["unit"] == "BYTES" else cl.ContinuousPagingOptions.PagingUnit.ROWS
            cpo = cl.ContinuousPagingOptions(page_unit=unit, max_pages=cont["max_pages"],
                                             max_pages_per_second=cont["pps"], max_queue_size=cont["queue"])
        ps = opt(o["pstate"])
        ts = opt(o["ts"])
        return dict(consistency_level=o["cl"], serial_consistency_level=opt(o["serial"]), fetch_size=opt(o["page"]),
                    paging_state=None if ps is None else bytes(ps), timestamp=None if ts is None else limbs(ts),
                    continuous_paging_options=cpo)

    if k == "QUERY":
        ks = opt(o["ks"])
        msg = proto.QueryMessage(query=text(o["query"]), keyspace=None if ks is None else text(ks), **params_common())
    elif k == "EXECUTE":
        rm = opt(o["rmid"])
        msg = proto.ExecuteMessage(query_id=bytes(o["id"]), query_params=[wire_value(v, proto) for v in opt(o["values"])],
                                   skip_meta=o["skip"], result_metadata_id=None if rm is None else bytes(rm),
                                   **params_common())
    elif k == "PREPARE":
        ks = opt(o["ks"])
        msg = proto.PrepareMessage(query=text(o["query"]), keyspace=None if ks is None else text(ks))
    elif k == "BATCH":
        q = repo_import("cassandra.query")
        bt = {0: q.BatchType.LOGGED, 1: q.BatchType.UNLOGGED, 2: q.BatchType.COUNTER}[o["btype"]]
        queries = [(s["prepared"], bytes(s["q"]) if s["prepared"] else text(s["q"]),
                    [wire_value(v, proto) for v in s["params"]]) for s in o["queries"]]
        ks, ts = opt(o["ks"]), opt(o["ts"])
        msg = proto.BatchMessage(bt, queries, o["cl"], opt(o["serial"]), None if ts is None else limbs(ts),
                                 None if ks is None else text(ks))
    elif k == "REGISTER":
        msg = proto.RegisterMessage([text(e) for e in o["events"]])
    elif k == "STARTUP":
        msg = proto.StartupMessage(cqlversion=text(o["cqlversion"]), options={text(a): text(b) for a, b in o["options"]})
    elif k == "CREDENTIALS":
        msg = proto.CredentialsMessage({text(a): text(b) for a, b in o["creds"]})
    elif k == "AUTH_RESPONSE":
        msg = proto.AuthResponseMessage(bytes(o["token"]))
    elif k == "OPTIONS":
        msg = proto.OptionsMessage()
    elif k == "REVISE_REQUEST":
        msg = proto.ReviseRequestMessage(o["op"], o["id"], o["next"])
    else:
        raise ValueError(k)
    msg.tracing = fo["tracing"]
    pl = opt(fo["payload"])
    if pl is not None:
        msg.custom_payload = {text(a): wire_value(b, proto) for a, b in pl}
    return msg, fo["stream"], pv, (compressor if fo["compress"] else None), fo["beta"]


def encode_case(case):
    """('frame', bytes) | ('raised', exception class name)"""
    proto = repo_import("cassandra.protocol")
    try:
        msg, stream, pv, comp, beta = build_request(case)
        return ("frame", proto.ProtocolHandler.encode_message(msg, stream, pv, comp, beta))
    except Exception as ex:                      # the code under test may be broken in any way
        return ("raised", type(ex).__name__)


_SHARED_PARTS = ("params.", "custom_payload", "header.", "compression")


def _common_prefix(a, b):
    n = min(len(a), len(b))
    i = 0
    while i < n and a[i] == b[i]:
        i += 1
    return i


def locate(case, real, alts, layout):
    """Names of the deviations of `real` from the closest conforming frame: list of group keys (scope, detail)."""
    pv, kind = case["pv"], case["kind"]
    hl = 9 if pv >= 3 else 8
    best = max(sorted(alts), key=lambda a: _common_prefix(bytes(a), real))
    best = bytes(best)
    rb, sb = real[hl:], best[hl:]
    if rb == sb:
        names = ["version", "flags"] + (["stream", "stream"] if pv >= 3 else ["stream"]) + ["opcode"] + ["length"] * 4
        i = _common_prefix(real[:hl], best[:hl])
        name = names[i] if i < len(names) else "length"
        if name == "flags":
            x = real[1] ^ best[1]
            return [("header.flags", "bit-0x%x" % (1 << b)) for b in range(8) if x >> b & 1]
        return [("header." + name, "differs")]
    i = _common_prefix(rb, sb)
    pos = 0
    for name, ln in layout:
        if i < pos + ln:
            scope = name if name.startswith(_SHARED_PARTS) else "%s:%s" % (kind, name)
            if name.endswith("flags") and len(rb) >= pos + ln:
                x = int.from_bytes(rb[pos:pos + ln], "big") ^ int.from_bytes(sb[pos:pos + ln], "big")
                return [(scope, "bit-0x%x" % (1 << b)) for b in range(ln * 8) if x >> b & 1]
            return [(scope, "truncated" if i >= len(rb) else "differs")]
        pos += ln
    return [("%s:end-of-body" % kind, "trailing-bytes" if len(rb) > len(sb) else "differs")]


def judge_request(state):
    """None when the real encoder agrees with the state; otherwise (group keys, description, got)."""
    case, expect = state["c"], state["expect"]
    got = encode_case(case)
    if expect == "frame":
        if got[0] == "frame":
            if list(got[1]) in state["alts"]:
                return None, got
            keys = locate(case, got[1], state["alts"], state["layout"])
            return [("frame",) + k for k in keys], got
        return [("raised", case["kind"], got[1])], got
    if expect == "reject":
        if got[0] == "raised":
            return None, got
        must = sorted(n for n, m in state["reasons"] if m)
        return [("not-rejected", case["kind"], n) for n in must], got
    return None, got                             # "open": recorded by the caller, not judged


# ------------------------------------------------------------------ C04: responses

def be_int(b):
    return int.from_bytes(bytes(b), "big", signed=True)


def type_tree(t):
    """cassandra.cqltypes class -> abstract type tree (same shape as WireResponses.tla)"""
    ct = repo_import("cassandra.cqltypes")
    if isinstance(t, type) and issubclass(t, ct.UserType):
        return {"k": "udt", "ks": t.keyspace, "name": t.typename,
                "fields": [[n, type_tree(s)] for n, s in zip(t.fieldnames, t.subtypes)]}
    if isinstance(t, type) and issubclass(t, ct.TupleType):
        return {"k": "tuple", "items": [type_tree(s) for s in t.subtypes]}
    if isinstance(t, type) and issubclass(t, ct.ListType):
        return {"k": "list", "e": type_tree(t.subtypes[0])}
    if isinstance(t, type) and issubclass(t, ct.SetType):
        return {"k": "set", "e": type_tree(t.subtypes[0])}
    if isinstance(t, type) and issubclass(t, ct.MapType):
        return {"k": "map", "key": type_tree(t.subtypes[0]), "val": type_tree(t.subtypes[1])}
    return {"k": "simple", "cass": getattr(t, "cassname", repr(t)), "cql": getattr(t, "typename", repr(t)),
            "subtypes": len(getattr(t, "subtypes", ()) or ())}


def spec_type_tree(t):
    """type tree of the specification -> same normal form as type_tree()"""
    k = t["k"]
    if k == "udt":
        return {"k": "udt", "ks": text(t["ks"]), "name": text(t["name"]),
                "fields": [[text(f[0]), spec_type_tree(f[1])] for f in t["fields"]]}
    if k == "tuple":
        return {"k": "tuple", "items": [spec_type_tree(s) for s in t["items"]]}
    if k in ("list", "set"):
        return {"k": k, "e": spec_type_tree(t["e"])}
    if k == "map":
        return {"k": "map", "key": spec_type_tree(t["key"]), "val": spec_type_tree(t["val"])}
    if k == "custom":
        return {"k": "custom", "cls": text(t["cls"])}
    return {"k": "native", "name": k}


MARSHAL = "org.apache.cassandra.db.marshal."


def type_matches(spec_t, real_t):
    """does the driver's type (normal form) denote the specification's type?"""
    k = spec_t["k"]
    if k == "native":
        return real_t["k"] == "simple" and real_t["cql"] == spec_t["name"] and real_t["subtypes"] == 0
    if k == "custom":
        cls = spec_t["cls"]
        return real_t["k"] == "simple" and (real_t["cass"] == cls or MARSHAL + real_t["cass"] == cls)
    if real_t["k"] != k:
        return False
    if k in ("list", "set"):
        return type_matches(spec_t["e"], real_t["e"])
    if k == "map":
        return type_matches(spec_t["key"], real_t["key"]) and type_matches(spec_t["val"], real_t["val"])
    if k == "tuple":
        return len(spec_t["items"]) == len(real_t["items"]) and all(map(type_matches, spec_t["items"], real_t["items"]))
    if k == "udt":
        return (spec_t["ks"] == real_t["ks"] and spec_t["name"] == real_t["name"]
                and [f[0] for f in spec_t["fields"]] == [f[0] for f in real_t["fields"]]
                and all(type_matches(a[1], b[1]) for a, b in zip(spec_t["fields"], real_t["fields"])))
    return False


def build_type(t):
    """specification type tree -> cassandra.cqltypes class (for result_metadata of NO_METADATA rows)"""
    ct = repo_import("cassandra.cqltypes")
    proto = repo_import("cassandra.protocol")
    k = t["k"]
    if k == "list":
        return ct.ListType.apply_parameters((build_type(t["e"]),))
    if k == "set":
        return ct.SetType.apply_parameters((build_type(t["e"]),))
    if k == "map":
        return ct.MapType.apply_parameters((build_type(t["key"]), build_type(t["val"])))
    if k == "tuple":
        return ct.TupleType.apply_parameters(tuple(build_type(s) for s in t["items"]))
    if k == "udt":
        return ct.UserType.make_udt_class(text(t["ks"]), text(t["name"]), tuple(text(f[0]) for f in t["fields"]),
                                          tuple(build_type(f[1]) for f in t["fields"]))
    if k == "custom":
        return ct.lookup_casstype(text(t["cls"]))
    for cls in proto.ResultMessage.type_codes.values():
        if getattr(cls, "typename", None) == k:
            return cls
    raise ValueError("no driver type for %r" % (k,))


def _cell(v, real_type_tree):
    """decoded cell -> bytes as on the wire, for the two value types the specification uses (int, text/varchar/ascii)"""
    if v is None:
        return None
    if isinstance(v, bool):
        return ("?", repr(v))
    if isinstance(v, int):
        return struct.pack(">i", v)
    if isinstance(v, str):
        return v.encode("utf8")
    if isinstance(v, bytes):
        return v
    return ("?", repr(v))


def _s(x):
    """str / bytes -> bytes (text fields are compared as UTF-8 bytes)"""
    if isinstance(x, str):
        return x.encode("utf8")
    return x


def decode_case(case, result_metadata=None):
    """('msg', message) | ('raised', exception class name, text)"""
    proto = repo_import("cassandra.protocol")
    try:
        msg = proto.ProtocolHandler.decode_message(case["pv"], {}, case["stream"], case["flags"], case["opcode"],
                                                   bytes(case["body"]), None, result_metadata)
        return ("msg", msg)
    except Exception as ex:
        return ("raised", type(ex).__name__, str(ex)[:200])


def result_metadata_for(exp):
    """what the session layer passes as result_metadata for a ROWS answer to an EXECUTE with skip_metadata:
    the column metadata of the prepared statement = the columns the specification generated"""
    if exp.get("kind") == "rows" and exp.get("nometa"):
        return [(text(c["ks"]), text(c["table"]), text(c["name"]), build_type(c["type"])) for c in exp["cols"]]
    return None
