"""C33 binding: spec/Collections.tla  <->  cassandra.util.SortedSet / OrderedMap / OrderedMapSerializedKey.

The specification works on the mathematical model (a subset of 1..N; a sequence of <<key, value>> pairs
with keys in 1..N).  An *instantiation* maps model elements / keys to concrete Python values (ints, tuples,
unhashable lists, dicts; for the serialized-key map two Python values with the same CQL encoding stand for
one model key) and back.  `SetBinding` / `MapBinding` execute one spec action (`act` = name, arg, res, exc)
on the real object in every calling style the class offers for it (method, operator, reflected operator,
variadic call, aliased operand) and compare, in model space,
    * the result (or the exception class) of every style with the spec's `res` / `exc`,
    * the projected state of the real object afterwards with the spec's S / M.
Exceptions thrown by the code under test never escape: they become observations.

`replay_graph` replays walks through the TLC state graph: mutator edges along the walk, and at every node
visited for the first time all of its terminal observer edges on the same live object (sound because the state
projection is compared after each observer as well).
"""
import copy
import operator

from harness.pyenv import repo_import

NONE = "None"
# instantiations whose set operations are also run with the operand form "dups": a plain list / tuple that repeats
# elements ([a, b, a, b]); the model operand stays the SET of its elements.  checks/c33.py narrows it in the quick tier.
DUP_FORM_INSTS = {"ints", "tuples", "lists"}
_NO_DUPS = {"symmetric_difference", "eq", "ne", "ixor"}     # need other.difference / compare len(): see assumptions
_EXC = {"KeyError": KeyError, "IndexError": IndexError}


def _scramble(elems):
    """Deterministic non-sorted order of model elements."""
    return sorted(elems, key=lambda e: ((e * 7) % 5, e))


class Divergence(Exception):
    def __init__(self, info):
        Exception.__init__(self, info.get("what"))
        self.info = info


# ------------------------------------------------------------------------------------------ instantiations

class SetInst:
    """Concrete element domain for SortedSet: ascending values for model elements 1..5."""

    def __init__(self, name, values, forms, fresh=None, key=None):
        self.name = name
        self.values = values
        self.forms = forms                      # operand forms: sortedset / set / frozenset / list
        self._fresh = fresh or (lambda v: v)
        self._key = key or (lambda v: v)
        self._abs = {}
        for i, v in enumerate(values):
            self._abs[self._key(v)] = i + 1
        assert all(values[i] < values[i + 1] for i in range(len(values) - 1))

    def c(self, e):
        return self._fresh(self.values[e - 1])

    def a(self, x):
        try:
            return self._abs[self._key(x)]
        except Exception:
            return "?" + repr(x)[:40]


SET_INSTS = {
    "ints": SetInst("ints", [-7, 0, 3, 1000, 1001], ["sortedset", "set", "list"]),
    "tuples": SetInst("tuples", [(0, 1), (0, 2), (1,), (1, 0), (2, -1)], ["sortedset", "frozenset"]),
    "lists": SetInst("lists", [[0, 1], [0, 2], [1], [1, 0], [2, -1]], ["sortedset", "list"],
                     fresh=lambda v: list(v), key=lambda v: tuple(v) if isinstance(v, list) else ("not-a-list", repr(v))),
}


class MapInst:
    """Concrete key/value domain for the maps.  reps[k-1] lists the Python values that denote model key k
    (more than one only for the serialized-key map: values with the same CQL encoding)."""

    def __init__(self, name, cls, reps, vals, key, hashable, fresh=None):
        self.name = name
        self.cls = cls                          # "OrderedMap" | "OrderedMapSerializedKey"
        self.reps = reps
        self.vals = vals
        self._key = key
        self.hashable = hashable
        self._fresh = fresh or (lambda v: v)
        self._abs = {}
        for i, rs in enumerate(reps):
            for r in rs:
                self._abs[key(r)] = i + 1
        self._vabs = {}

    def k(self, k, rep=0):
        rs = self.reps[k - 1]
        return self._fresh(rs[rep % len(rs)])

    def v(self, v):
        x = self.vals[v - 1]
        return list(x) if isinstance(x, list) else x

    def ak(self, x):
        try:
            return self._abs[self._key(x)]
        except Exception:
            return "?" + repr(x)[:40]

    def av(self, x):
        for i, v in enumerate(self.vals):
            if type(x) is type(v) and x == v:
                return i + 1
        return "?" + repr(x)[:40]


def _dkey(d):
    return ("d",) + tuple(sorted(d.items())) if isinstance(d, dict) else ("?", repr(d))


def _lkey(x):
    return ("l",) + tuple(x) if isinstance(x, (list, tuple)) else ("?", repr(x))


MAP_INSTS = {
    "om-int": MapInst("om-int", "OrderedMap", [[5], [-1], [70], [8], [9]], ["a", "b"], lambda x: ("i", x), True),
    "om-tuple": MapInst("om-tuple", "OrderedMap", [[(1, 2)], [(1,)], [(0, 9)], [()], [(3,)]], [10, 20],
                        lambda x: ("t", x) if isinstance(x, tuple) else ("?", repr(x)), True),
    "om-list": MapInst("om-list", "OrderedMap", [[[1, 2]], [[1]], [[0, 9]], [[]], [[3]]], [["x"], ["y"]],
                       lambda x: ("L",) + tuple(x) if isinstance(x, list) else ("?", repr(x)), False,
                       fresh=lambda v: list(v)),
    "om-dict": MapInst("om-dict", "OrderedMap", [[{"a": 1}], [{"a": 2}], [{"b": 1}], [{}], [{"a": 1, "b": 1}]],
                       ["a", "b"], _dkey, False, fresh=lambda v: dict(v)),
    # keys of CQL type list<int>: a list and a tuple with the same items have the same encoding -> same key
    "omsk-list<int>": MapInst("omsk-list<int>", "OrderedMapSerializedKey",
                              [[[1, 2], (1, 2)], [[1], (1,)], [[0, 9], (0, 9)], [[], ()], [[3], (3,)]],
                              ["a", "b"], _lkey, False,
                              fresh=lambda v: list(v) if isinstance(v, list) else v),
}


def key_cql_type():
    cq = repo_import("cassandra.cqltypes")
    return cq.lookup_casstype("org.apache.cassandra.db.marshal.FrozenType(org.apache.cassandra.db.marshal.ListType("
                              "org.apache.cassandra.db.marshal.Int32Type))")


# ------------------------------------------------------------------------------------------ SortedSet binding

SET_MUTATORS = {"new", "add", "remove", "pop", "clear", "update", "ior", "iand", "isub", "ixor", "delitem", "delslice",
                "derive", "mut_result", "mut_original"}
_SETVAL = {"copy", "union", "intersection", "difference", "rdifference", "symmetric_difference"}
_SEQVAL = {"iter", "reversed", "getslice"}
_BOOLVAL = {"contains", "issubset", "issuperset", "isdisjoint", "le", "lt", "ge", "gt", "eq", "ne"}
_IOPS = {"ior": operator.ior, "iand": operator.iand, "isub": operator.isub, "ixor": operator.ixor}
_ZERO_OPS = {"copy": "copy", "union0": "union", "intersection0": "intersection", "difference0": "difference"}
_OPERATORS = {"union": operator.or_, "intersection": operator.and_, "difference": operator.sub,
              "symmetric_difference": operator.xor}
_BINARY = {"union", "intersection", "difference", "rdifference", "symmetric_difference", "issubset", "issuperset",
           "isdisjoint", "le", "lt", "ge", "gt", "eq", "ne"}


class SetBinding:
    kind = "set"

    def __init__(self, inst, form, n):
        self.inst = inst if isinstance(inst, SetInst) else SET_INSTS[inst]
        self.form = form or self.inst.forms[0]
        self.n = n
        self.cls = repo_import("cassandra.util").SortedSet
        self.obj = None
        self.calls = 0
        self._ocache = {}
        self.fresh()

    def fresh(self):
        self.cur = []                                # model items the object holds (as verified after the last step)
        self.robj = None                             # the second object: what a set-valued call returned
        try:
            self.obj = self.cls()
        except Exception as ex:                      # a broken constructor must not crash the harness
            self.obj = ex
        return self

    # -- the live object and what the harness knows about it
    def state(self):
        return (self.obj, self.cur, self.robj)

    def load(self, st):
        self.obj, self.cur, self.robj = st

    def fork(self, st):
        o, r = clone_pair(st[0], st[2])
        return (o, st[1], r)

    def forms_for(self, act):
        """Operand forms under which the class offers this operation (first = the one behaviours continue with)."""
        name = act["name"]
        forms = self.inst.forms
        if name == "derive":
            op, T = act["arg"]
            if op in _ZERO_OPS:
                return ["call"]
            fs = [f for f in forms if not (f == "list" and op == "symmetric_difference")] + self._dups(op, T)
            out = ["m:" + f for f in fs] + ["o:" + f for f in fs]      # method call / operator
            if sorted(T) == self.cur:
                out += ["m:alias", "o:alias"]                           # s.union(s), s | s, ...
            return out
        if name in ("new", "update") or name in _BINARY:
            if name == "symmetric_difference":
                return [f for f in forms if f != "list"]      # needs other.difference: not offered for plain lists
            return forms + self._dups(name, act["arg"])
        if name in _IOPS:
            fs = [f for f in forms if not (f == "list" and name == "ixor")] + self._dups(name, act["arg"])
            if sorted(act["arg"]) == self.cur:
                fs = fs + ["alias"]                           # s |= s, s -= s, ...
            return fs
        return forms[:1]

    # -- operands
    def cached_operand(self, T, form):
        """Operand for a pure operation: reused across calls, verified unchanged each time it is handed out."""
        key = (form, tuple(sorted(T)))
        hit = self._ocache.get(key)
        if hit is not None:
            o, snap = hit
            try:
                if (list(o) if form in ("sortedset", "list", "dups") else sorted(o)) == snap:
                    return o
            except Exception:
                pass
        o = self.operand(T, form)
        self._ocache[key] = (o, list(o) if form in ("sortedset", "list", "dups") else sorted(o))
        return o

    def operand(self, T, form, dup=False):
        c = self.inst.c
        items = [c(e) for e in _scramble(T)]
        if form == "sortedset":
            return self.cls(items)
        if form == "set":
            return set(items)
        if form == "frozenset":
            return frozenset(items)
        if form == "dups":
            # a non-set iterable with repeated elements, read as the set of its elements
            items += [c(e) for e in _scramble(T)[:2]]
            return tuple(items) if self.inst.name == "ints" else items
        if dup and items:
            items.append(c(_scramble(T)[0]))
        return items

    def _want(self, T, form):
        """Model-space contents the operand object must still have after the call."""
        if form == "dups":
            return sorted(list(T) + _scramble(T)[:2])
        return sorted(T)

    def _dups(self, name, T):
        return ["dups"] if (len(T) and name not in _NO_DUPS and self.inst.name in DUP_FORM_INSTS) else []

    # -- normalisation into model space
    def nseq(self, r):
        a = self.inst.a
        return [a(x) for x in r]

    def project(self):
        try:
            o = self.obj
            st = {"items": self.nseq(list(o)), "len": len(o)}
            r = self.robj
            if r is not None:
                st["result_items"] = self.nseq(list(r))
                st["result_len"] = len(r)
                st["result_is_self"] = r is o
            return st
        except Exception as ex:
            return {"exc": type(ex).__name__}

    @staticmethod
    def expected_state(node):
        s = sorted(node["S"])
        st = {"items": s, "len": len(s)}
        R = node.get("R") or ()
        if len(R):
            r = sorted(R[0])
            st["result_items"] = r
            st["result_len"] = len(r)
            st["result_is_self"] = False
        return st

    def _norm(self, name, r):
        if name == "derive":
            return {"items": self.nseq(list(r)), "same_object": r is self.obj}
        if name in ("mut_result", "mut_original"):
            return NONE if r is None else self.inst.a(r)
        if name in _SETVAL:
            # a set-valued call returns a NEW set: not the receiver, and emptying / growing it must not reach the
            # receiver or the operand (the state and the operand are compared right after the call)
            snap = self.nseq(list(r))
            if r is self.obj:
                return "the-receiver-itself:" + repr(snap)
            try:
                if snap:
                    r.clear()
                else:
                    r.add(self.inst.c(1))
            except Exception:
                pass
            return snap
        if name in _SEQVAL:
            return self.nseq(list(r))
        if name in _BOOLVAL:
            return r if isinstance(r, bool) else "non-bool:" + repr(r)[:40]
        if name in ("pop", "getitem"):
            return self.inst.a(r)
        if name == "len":
            return r if isinstance(r, int) else "non-int:" + repr(r)[:40]
        return NONE if r is None else "not-None:" + repr(r)[:40]

    def _expect(self, act):
        name, res = act["name"], act["res"]
        if act["exc"]:
            return {"exc": act["exc"]}
        if name in _SETVAL:
            return sorted(res)
        if name in _SEQVAL:
            return list(res)
        if name in _IOPS:
            return None                               # `s op= o` rebinds s to whatever comes back; only the state counts
        if name == "derive":
            return {"items": sorted(res), "same_object": False}
        return res

    # -- calling styles: list of (style name, thunk)
    def styles(self, act, step):
        name, arg = act["name"], act["arg"]
        s = self.obj
        c = self.inst.c
        form = self.form
        if name in ("union", "intersection", "difference", "rdifference", "symmetric_difference", "issubset",
                    "issuperset", "isdisjoint", "le", "lt", "ge", "gt", "eq", "ne"):
            T = arg
            if form == "list" and name == "symmetric_difference":
                return []                             # needs other.difference: not offered for plain lists
            o = self.cached_operand(T, form)
            builtin = form != "sortedset"
            alias = (form == "sortedset" and sorted(T) == self.cur)
            out = []
            if name == "union":
                out = [("s.union(o)", lambda: s.union(o)), ("s | o", lambda: s | o)]
                if builtin:
                    out.append(("o | s", lambda: o | s))
                lo = sorted(T)
                o1, o2 = self.cached_operand(lo[:len(lo) // 2], form), self.cached_operand(lo[len(lo) // 2:], form)
                out.append(("s.union(o1, o2)", lambda: s.union(o1, o2)))
                if alias:
                    out.append(("s | s", lambda: s | s))
            elif name == "intersection":
                out = [("s.intersection(o)", lambda: s.intersection(o)), ("s & o", lambda: s & o)]
                if builtin:
                    out.append(("o & s", lambda: o & s))
                full = self.cached_operand(range(1, self.n + 1), form)
                out.append(("s.intersection(o, all)", lambda: s.intersection(o, full)))
                out.append(("s.intersection(all, o)", lambda: s.intersection(full, o)))
                if alias:
                    out.append(("s & s", lambda: s & s))
            elif name == "difference":
                out = [("s.difference(o)", lambda: s.difference(o)), ("s - o", lambda: s - o)]
                lo = sorted(T)
                o1, o2 = self.cached_operand(lo[:len(lo) // 2], form), self.cached_operand(lo[len(lo) // 2:], form)
                out.append(("s.difference(o1, o2)", lambda: s.difference(o1, o2)))
                if alias:
                    out.append(("s - s", lambda: s - s))
            elif name == "rdifference":
                out = [("o - s", lambda: o - s)]
                if not builtin:
                    out.append(("o.difference(s)", lambda: o.difference(s)))
            elif name == "symmetric_difference":
                out = [("s.symmetric_difference(o)", lambda: s.symmetric_difference(o)), ("s ^ o", lambda: s ^ o),
                       ("o ^ s", lambda: o ^ s)]
                if alias:
                    out.append(("s ^ s", lambda: s ^ s))
            elif name == "issubset":
                out = [("s.issubset(o)", lambda: s.issubset(o))]
            elif name == "issuperset":
                out = [("s.issuperset(o)", lambda: s.issuperset(o))]
            elif name == "isdisjoint":
                out = [("s.isdisjoint(o)", lambda: s.isdisjoint(o))]
            elif name == "le":
                out = [("s <= o", lambda: s <= o), ("o >= s", lambda: o >= s)]
            elif name == "lt":
                out = [("s < o", lambda: s < o), ("o > s", lambda: o > s)]
            elif name == "ge":
                out = [("s >= o", lambda: s >= o), ("o <= s", lambda: o <= s)]
            elif name == "gt":
                out = [("s > o", lambda: s > o), ("o < s", lambda: o < s)]
            elif name == "eq":
                out = [("s == o", lambda: s == o), ("o == s", lambda: o == s)]
                if alias:
                    out.append(("s == s", lambda: s == s))
            elif name == "ne":
                out = [("s != o", lambda: s != o), ("o != s", lambda: o != s)]
                if alias:
                    out.append(("s != s", lambda: s != s))
            # the operand must come back unchanged
            self._operand_check = (o, self._want(T, form))
            return out
        if name == "contains":
            return [("e in s", lambda: c(arg) in s), ("s.__contains__(e)", lambda: s.__contains__(c(arg)))]
        if name == "len":
            return [("len(s)", lambda: len(s))]
        if name == "iter":
            return [("list(s)", lambda: list(s)), ("[x for x in s]", lambda: [x for x in iter(s)])]
        if name == "reversed":
            return [("reversed(s)", lambda: list(reversed(s)))]
        if name == "copy":
            return [("s.copy()", lambda: s.copy())]        # independence probed in _norm
        if name == "getitem":
            return [("s[i]", lambda: s[arg])]
        if name == "getslice":
            lo, hi = arg
            return [("s[lo:hi]", lambda: s[lo:hi])]
        raise ValueError("unknown set observer %r" % (name,))

    def mutate(self, act, step):
        """Execute a mutator in the style/form of this pass. Returns the raw result."""
        name, arg = act["name"], act["arg"]
        s = self.obj
        c = self.inst.c
        form = self.form
        if name == "new":
            self.obj = self.cls(self.operand(arg, form, dup=True))
            return None
        if name == "add":
            return s.add(c(arg))
        if name == "remove":
            return s.remove(c(arg))
        if name == "pop":
            return s.pop()
        if name == "clear":
            return s.clear()
        if name == "update":
            o = self.operand(arg, form, dup=True)
            self._operand_check = (o, self._want(arg, form)) if form != "list" else None
            return s.update(o)
        if name in _IOPS:
            f = form
            if f == "list" and name == "ixor":
                f = "sortedset"                       # s ^= [..] needs other.difference: not offered
            if f == "alias":
                o = s                                 # aliasing: s |= s, s -= s, ...
                self._operand_check = None
            else:
                o = self.operand(arg, f)
                self._operand_check = (o, self._want(arg, f))
            self.obj = _IOPS[name](s, o)
            return None
        if name == "derive":
            op, T = arg
            if op in _ZERO_OPS:
                r = getattr(s, _ZERO_OPS[op])()           # s.copy() / s.union() / s.intersection() / s.difference()
            else:
                how, f = form.split(":")
                if f == "alias":
                    o = s
                    self._operand_check = None
                else:
                    o = self.operand(T, f)
                    self._operand_check = (o, self._want(T, f))
                r = getattr(s, op)(o) if how == "m" else _OPERATORS[op](s, o)
            self.robj = r
            return r
        if name in ("mut_result", "mut_original"):
            target = self.robj if name == "mut_result" else s
            what, e = arg
            if what == "add":
                return target.add(c(e))
            if what == "clear":
                return target.clear()
            return target.pop()
        if name == "delitem":
            del s[arg]
            return None
        if name == "delslice":
            lo, hi = arg
            del s[lo:hi]
            return None
        raise ValueError("unknown set mutator %r" % (name,))

    def is_mutator(self, name):
        return name in SET_MUTATORS


# ------------------------------------------------------------------------------------------ map binding

MAP_MUTATORS = {"new", "setitem", "delitem", "popitem",
                "copy", "c_setitem", "c_delitem", "c_popitem", "src_setitem", "src_delitem"}


def _base(name):
    """c_getitem / src_setitem -> getitem / setitem: the same operation, addressed to the copy / the source."""
    return name[2:] if name.startswith("c_") else name[4:] if name.startswith("src_") else name
_SENT = object()


class MapBinding:
    kind = "map"

    def __init__(self, inst, form, n):
        self.inst = inst if isinstance(inst, MapInst) else MAP_INSTS[inst]
        self.form = form or "a"                       # "a" | "b": constructor style, key representation phase
        self.multirep = any(len(r) > 1 for r in self.inst.reps)
        self.n = n
        util = repo_import("cassandra.util")
        self.cls = getattr(util, self.inst.cls)
        self.serialized = self.inst.cls == "OrderedMapSerializedKey"
        self.ktype = key_cql_type() if self.serialized else None
        self.calls = 0
        self.fresh()

    def state(self):
        return (self.obj, self.cur, self.rep, self.cobj, self.crep, self.chow)

    def load(self, st):
        self.obj, self.cur, self.rep, self.cobj, self.crep, self.chow = st

    def fork(self, st):
        o, c = clone_pair(st[0], st[3])
        return (o, st[1], dict(st[2]), c, dict(st[4]), st[5])

    def copy_is_pickle_keyed(self):
        """The copy is a plain OrderedMap made from a serialized-key map: it identifies keys by pickle, so only the
        Python value it stores denotes the key ([1, 2] and (1, 2) are different keys for it)."""
        return self.serialized and self.chow == "ctor"

    def forms_for(self, act):
        name = act["name"]
        if name == "new":
            return ["a", "b"]
        if name.startswith("c_") and self.copy_is_pickle_keyed():
            return ["a"]
        if self.multirep and _base(name) in ("setitem", "delitem", "getitem", "get", "contains") \
                and not name.startswith("src_"):
            return ["a", "b"]                           # both Python values that denote the key
        return ["a"]

    def _empty(self):
        return self.cls(self.ktype, 4) if self.serialized else self.cls()

    def fresh(self):
        self.cur = []
        self.rep = {}                                  # model key -> representation last written
        self.cobj, self.crep, self.chow = None, {}, None   # the copy (MCopy), its representations, how it was made
        try:
            self.obj = self._empty()
        except Exception as ex:
            self.obj = ex
        return self

    def _rep_for(self, k, step):
        return (k + step + (1 if self.form == "b" else 0)) % 2

    def build(self, pairs, reps=None):
        """Another map of the same class holding `pairs` (model space) in that order."""
        inst = self.inst
        items = [(inst.k(k, (reps or {}).get(k, 0)), inst.v(v)) for k, v in pairs]
        if not self.serialized:
            return self.cls(items)
        m = self._empty()
        for kk, vv in items:
            m._insert(kk, vv)
        return m

    def _project_one(self, m, rep, other_rep):
        inst = self.inst
        items = [[inst.ak(k), inst.av(v)] for k, v in m.items()]
        look = []
        for k in range(1, self.n + 1):
            # look up through the *other* representation (unless only the stored one denotes the key)
            kk = inst.k(k, rep.get(k, 0) + (1 if other_rep else 0))
            got = m.get(kk, _SENT)
            look.append([kk in m, NONE if got is _SENT else inst.av(got)])
        return items, len(m), look

    def project(self):
        try:
            items, n, look = self._project_one(self.obj, self.rep, True)
            st = {"items": items, "len": n, "lookup": look}
            if self.cobj is not None:
                items, n, look = self._project_one(self.cobj, self.crep, not self.copy_is_pickle_keyed())
                st.update({"copy_items": items, "copy_len": n, "copy_lookup": look,
                           "copy_is_source": self.cobj is self.obj})
            return st
        except Exception as ex:
            return {"exc": type(ex).__name__}

    def expected_state(self, node):
        def one(M):
            d = dict((k, v) for k, v in M)
            return [[k, v] for k, v in M], len(M), [[k in d, d.get(k, NONE)] for k in range(1, self.n + 1)]
        items, n, look = one(node["M"])
        st = {"items": items, "len": n, "lookup": look}
        C = node.get("C") or ()
        if len(C):
            items, n, look = one(C[0])
            st.update({"copy_items": items, "copy_len": n, "copy_lookup": look, "copy_is_source": False})
        return st

    def _norm(self, name, r):
        inst = self.inst
        name = _base(name)
        if name in ("getitem",):
            return inst.av(r)
        if name == "get":
            return NONE if r is None or r is _SENT else inst.av(r)
        if name in ("contains", "eq_map", "ne_map", "eq_dict", "ne_dict"):
            return r if isinstance(r, bool) else "non-bool:" + repr(r)[:40]
        if name == "len":
            return r if isinstance(r, int) else "non-int:" + repr(r)[:40]
        if name == "keys":
            return [inst.ak(k) for k in r]
        if name == "values":
            return [inst.av(v) for v in r]
        if name == "items":
            return [[inst.ak(k), inst.av(v)] for k, v in r]
        if name == "popitem":
            k, v = r
            return [inst.ak(k), inst.av(v)]
        return NONE if r is None else "not-None:" + repr(r)[:40]

    def _expect(self, act):
        name, res = _base(act["name"]), act["res"]
        if act["exc"]:
            return {"exc": act["exc"]}
        if name in ("keys", "values"):
            return list(res)
        if name == "items":
            return [list(p) for p in res]
        if name == "popitem":
            return list(res)
        return res

    def styles(self, act, step):
        name, arg = act["name"], act["arg"]
        m = self.obj
        inst = self.inst
        self._operand_check = None
        rep_for = self._rep_for
        if name.startswith("c_"):                      # the same observers, addressed to the copy
            name, m = name[2:], self.cobj
            if self.copy_is_pickle_keyed():
                rep_for = lambda k, step: self.crep.get(k, 0)
        if name in ("getitem", "get", "contains"):
            kk = inst.k(arg, rep_for(arg, step))
            if name == "getitem":
                return [("m[k]", lambda: m[kk])]
            if name == "get":
                return [("m.get(k)", lambda: m.get(kk)), ("m.get(k, default)", lambda: m.get(kk, _SENT))]
            return [("k in m", lambda: kk in m), ("k in m.keys()", lambda: kk in m.keys())]
        if name == "len":
            return [("len(m)", lambda: len(m))]
        if name == "keys":
            return [("list(m.keys())", lambda: list(m.keys())), ("list(m)", lambda: list(m))]
        if name == "values":
            return [("list(m.values())", lambda: list(m.values()))]
        if name == "items":
            return [("list(m.items())", lambda: list(m.items()))]
        if name in ("eq_map", "ne_map"):
            # equality of two ordered maps compares (key, value) pairs with Python's ==; the operand is written
            # with the key representations the object holds (see the assumption in checks/c33.py)
            o = self.build(arg, self.rep)
            if name == "eq_map":
                return [("m == o", lambda: m == o), ("o == m", lambda: o == m)]
            return [("m != o", lambda: m != o), ("o != m", lambda: o != m)]
        if name in ("eq_dict", "ne_dict"):
            if not inst.hashable:
                return []                              # a dict cannot hold these keys
            d = dict((inst.k(k), inst.v(v)) for k, v in arg)
            if name == "eq_dict":
                return [("m == d", lambda: m == d), ("d == m", lambda: d == m)]
            return [("m != d", lambda: m != d), ("d != m", lambda: d != m)]
        raise ValueError("unknown map observer %r" % (name,))

    def mutate(self, act, step):
        name, arg = act["name"], act["arg"]
        m = self.obj
        inst = self.inst
        self._operand_check = None
        if name == "new":
            reps = [self._rep_for(k, i) for i, (k, v) in enumerate(arg)]
            items = [(inst.k(k, r), inst.v(v)) for (k, v), r in zip(arg, reps)]
            distinct = len(set(k for k, v in arg)) == len(arg)
            if self.serialized:
                new = self._empty()
                for kk, vv in items:
                    if self.form == "b" and distinct:      # what MapType.deserialize_safe does
                        new._insert_unchecked(kk, self.ktype.serialize(kk, 4), vv)
                    else:
                        new._insert(kk, vv)
            elif self.form == "b" and inst.hashable and distinct:
                new = self.cls(dict(items))
            elif self.form == "b":
                new = self.cls(iter(items))
            else:
                new = self.cls(items)
            self.obj = new
            self.rep = {}
            for (k, v), r in zip(arg, reps):
                self.rep[k] = r
            return None
        if name == "copy":
            self.crep = dict(self.rep)
            self.chow = arg
            if arg == "ctor":
                self.cobj = repo_import("cassandra.util").OrderedMap(m)      # a plain OrderedMap, whatever m is
            else:
                c = self._empty()                                            # m's own class, item by item
                for kk, vv in m.items():
                    c[kk] = vv
                self.cobj = c
            return None
        reps = self.rep
        rep_for = self._rep_for
        if name.startswith("c_"):                      # the same mutators, addressed to the copy
            name, m, reps = name[2:], self.cobj, self.crep
            if self.copy_is_pickle_keyed():
                rep_for = lambda k, step: self.crep.get(k, 0)
        elif name.startswith("src_"):
            name = name[4:]
        if name == "setitem":
            k, v = arg
            r = rep_for(k, step)
            m[inst.k(k, r)] = inst.v(v)
            reps[k] = r
            return None
        if name == "delitem":
            del m[inst.k(arg, rep_for(arg, step))]
            reps.pop(arg, None)
            return None
        if name == "popitem":
            r = m.popitem()
            try:
                reps.pop(inst.ak(r[0]), None)
            except Exception:
                pass
            return r
        raise ValueError("unknown map mutator %r" % (name,))

    def is_mutator(self, name):
        return name in MAP_MUTATORS


# ------------------------------------------------------------------------------------------ one step

def step(b, act, exp_state, idx, corrupt=None):
    """Execute spec action `act` on binding b's live object; return None or a divergence dict."""
    name = act["name"]
    expect = b._expect(act)
    if corrupt:
        expect, exp_state = corrupt(expect, exp_state)
    b._operand_check = None
    if b.is_mutator(name):
        try:
            b.calls += 1
            got = b._norm(name, b.mutate(act, idx))
        except Exception as ex:
            want = _EXC.get(expect["exc"]) if isinstance(expect, dict) else None
            got = {"exc": expect["exc"]} if (want and isinstance(ex, want)) else {"exc": type(ex).__name__}
        observations = [(name, got)]
    else:
        try:
            sty = b.styles(act, idx)
        except Exception as ex:                          # building an operand on a broken class
            sty = [("operand", (lambda ex=ex: (_ for _ in ()).throw(ex)))]
        observations = []
        for label, thunk in sty:
            try:
                b.calls += 1
                got = b._norm(name, thunk())
            except Exception as ex:
                want = _EXC.get(expect["exc"]) if isinstance(expect, dict) else None
                got = {"exc": expect["exc"]} if (want and isinstance(ex, want)) else {"exc": type(ex).__name__}
            observations.append((label, got))
    for label, got in observations:
        if expect is not None and got != expect:
            # a wrong answer that leaves the object in the state the model expects does not end the walk
            sync = b.project() == exp_state
            if sync:
                b.cur = exp_state["items"]
            return {"what": "result", "op": name, "style": label, "form": b.form, "inst": b.inst.name,
                    "action": act, "expected": expect, "observed": got, "state_in_sync": sync}
    st = b.project()
    if st != exp_state:
        return {"what": "state", "op": name, "style": observations[0][0] if observations else name,
                "form": b.form, "inst": b.inst.name, "action": act, "expected": exp_state, "observed": st}
    b.cur = exp_state["items"]
    oc = getattr(b, "_operand_check", None)
    if oc:
        o, want = oc
        try:
            got = sorted(b.nseq(list(o)), key=repr)
        except Exception as ex:
            got = {"exc": type(ex).__name__}
        if got != sorted(want, key=repr):
            return {"what": "operand-modified", "op": name, "style": name, "form": b.form, "inst": b.inst.name,
                    "action": act, "expected": want, "observed": got}
    return None


def make_binding(kind, inst, form, n):
    return SetBinding(inst, form, n) if kind == "set" else MapBinding(inst, form, n)


def instantiations(kind):
    return list(SET_INSTS) if kind == "set" else list(MAP_INSTS)


def clone(obj):
    """Structural copy of the real object's representation (its __dict__), made without calling any method
    of the class under test: used to branch a behaviour at a node of the state graph."""
    try:
        new = object.__new__(type(obj))
        new.__dict__.update(copy.deepcopy(obj.__dict__))
        return new
    except Exception:
        return obj


def clone_pair(obj, other):
    """clone() of two objects at once: storage they share stays shared between the copies."""
    if other is None:
        return clone(obj), None
    if other is obj:
        c = clone(obj)
        return c, c
    try:
        d1, d2 = copy.deepcopy((obj.__dict__, other.__dict__))
        a = object.__new__(type(obj))
        a.__dict__.update(d1)
        b = object.__new__(type(other))
        b.__dict__.update(d2)
        return a, b
    except Exception:
        return obj, other


def jsonable(v):
    """Plain Python -> JSON-able (sets become sorted lists, tuples lists)."""
    if isinstance(v, dict):
        return {str(k): jsonable(x) for k, x in v.items()}
    if isinstance(v, (list, tuple)):
        return [jsonable(x) for x in v]
    if isinstance(v, (set, frozenset)):
        return sorted(jsonable(x) for x in v)
    if v is None or isinstance(v, (bool, int, str)):
        return v
    return repr(v)


def plain(v):
    """TLA+ value (FrozenDict / tuple / frozenset / MV) -> plain Python with sets as frozensets kept."""
    if isinstance(v, dict):
        return {k: plain(x) for k, x in v.items()}
    if isinstance(v, tuple):
        return tuple(plain(x) for x in v)
    if isinstance(v, frozenset):
        return frozenset(plain(x) for x in v)
    if isinstance(v, bool) or isinstance(v, int):
        return v
    return str(v)


def run_sequence(kind, inst, n, ops, corrupt_at=None, corrupt=None):
    """ops: list of (act, expected_state, form); form "*" = every form the binding offers for the action.
    Executes them on one fresh object.  Returns (index, divergence) of the first divergence or None."""
    b = make_binding(kind, inst, None, n)
    midx = 0
    for i, (act, exp, form) in enumerate(ops):
        if b.is_mutator(act["name"]):
            midx += 1
        forms = b.forms_for(act) if form == "*" else [form]
        if b.is_mutator(act["name"]):
            forms = forms[:1]
        for f in forms:
            b.form = f
            d = step(b, act, exp, midx, corrupt if corrupt_at == i else None)
            if d:
                return i, d
    return None


def replay_walks(kind, inst, n, nodes, walks, on_divergence):
    """Replay walks (lists of node ids) from scratch: one fresh object per walk, no branching by cloning; the
    operand form rotates with the walk."""
    b = make_binding(kind, inst, None, n)
    stats = {"walks": 0, "clean_walks": 0, "divergences": 0}
    for wi, w in enumerate(walks):
        b.fresh()
        history = []
        ok = True
        midx = 0
        for idx in range(1, len(w)):
            node = nodes[w[idx]]
            act = node["act"]
            fs = b.forms_for(act)
            b.form = fs[(wi + idx) % len(fs)]
            if b.is_mutator(act["name"]):
                midx += 1
            e = b.expected_state(node)
            history.append((act, e, b.form))
            d = step(b, act, e, midx)
            if d:
                ok = False
                stats["divergences"] += 1
                on_divergence(d, history)
                if not d.get("state_in_sync"):
                    break
        stats["walks"] += 1
        stats["clean_walks"] += 1 if ok else 0
    stats["calls"] = b.calls
    return stats


def replay_dfs(kind, inst, n, nodes, succ, obs_out, init, on_divergence, max_desync=500):
    """Replay EVERY edge of the state graph under one instantiation, in every operand form the class offers for
    the edge's operation.  Depth-first from the initial state: the live object of a node is branched by clone()
    for each outgoing edge, so each behaviour (path) is executed operation by operation without re-running
    prefixes.  Terminal observer edges of a node are fired on the node's live object (the state projection is
    compared after each, so purity is checked, not assumed).
    Returns (stats, covered edges)."""
    b = make_binding(kind, inst, None, n)
    expcache = {}

    def exp(nid):
        e = expcache.get(nid)
        if e is None:
            e = expcache[nid] = b.expected_state(nodes[nid])
        return e

    stats = {"edges": 0, "edge_executions": 0, "behaviours": 0, "clean_behaviours": 0, "divergences": 0,
             "desynced": 0, "clones": 0}
    covered = set()
    expanded = set()

    def visit(nid, st, depth, lineage, clean):
        expanded.add(nid)
        e = exp(nid)
        b.load(st)
        here = []
        for leaf in obs_out.get(nid, ()):
            act = nodes[leaf]["act"]
            covered.add((nid, leaf))
            if b.is_mutator(act["name"]):
                # a terminal probe that changes one of the objects: on a branch, the node's object stays as it is
                el = exp(leaf)
                for f in b.forms_for(act):
                    b.load(b.fork(st))
                    stats["clones"] += 1
                    b.form = f
                    stats["edge_executions"] += 1
                    d = step(b, act, el, depth)
                    if d:
                        clean = False
                        stats["divergences"] += 1
                        on_divergence(d, lineage + here + [(act, el, f)])
                b.load(st)
                continue
            here.append((act, e, "*"))
            for f in b.forms_for(act):
                b.form = f
                stats["edge_executions"] += 1
                d = step(b, act, e, depth)
                if d:
                    clean = False
                    stats["divergences"] += 1
                    on_divergence(d, lineage + here[:-1] + [(act, e, f)])
                    if not d.get("state_in_sync"):
                        stats["desynced"] += 1
                        return
        st = b.state()
        outs = succ.get(nid, ())
        if not outs:
            stats["behaviours"] += 1
            stats["clean_behaviours"] += 1 if clean else 0
            return
        lin = lineage + here
        for v in outs:
            if stats["desynced"] >= max_desync:
                return
            act = nodes[v]["act"]
            ev = exp(v)
            covered.add((nid, v))
            b.load(st)
            forms = b.forms_for(act)
            go = None
            edge_clean = True
            for i, f in enumerate(forms):
                b.load(b.fork(st))
                stats["clones"] += 1
                b.form = f
                stats["edge_executions"] += 1
                d = step(b, act, ev, depth + 1)
                if d:
                    edge_clean = False
                    stats["divergences"] += 1
                    on_divergence(d, lin + [(act, ev, f)])
                    if not d.get("state_in_sync"):
                        stats["desynced"] += 1
                        continue
                if i == 0:
                    go = b.state()
            if go is not None and v not in expanded:
                visit(v, go, depth + 1, lin + [(act, ev, forms[0])], clean and edge_clean)
            else:
                stats["behaviours"] += 1
                stats["clean_behaviours"] += 1 if (clean and edge_clean) else 0

    for i0 in init:
        b.fresh()
        visit(i0, b.state(), 0, [], True)
    stats["edges"] = len(covered)
    stats["calls"] = b.calls
    return stats, covered
