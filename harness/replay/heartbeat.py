"""Binding between spec/Heartbeat.tla and the real ConnectionHeartbeat / HeartbeatFuture (C44).

A simulated cluster (NPools nodes, one session) provides the real holders: one HostConnection pool per node and
the ControlConnection, each with one SimConnection whose id space is scaled down to the spec's MaxId.  The real
``ConnectionHeartbeat.run`` is executed - the object is built by the real ``__init__`` with ``start()`` a no-op,
so no thread - for exactly one loop iteration per round:
its ``_shutdown_event`` is a scripted object whose ``is_set()`` (called by run() between any two loop bodies via
``_raise_if_stopped``) hands control back to the harness (greenlet switch), so that the event-loop actions of a
behaviour (the answer to the OPTIONS request, a transport failure) are interleaved exactly where the
specification has them.  FakeNode.hold_options keeps the heartbeat OPTIONS unanswered until the behaviour says so;
an unanswered HeartbeatFuture.wait() times out at once in virtual time.

Observed from the outside: OPTIONS frames received by the node, owner.return_connection calls (wrapped on the
holder instances), is_defunct / is_closed, msg_received, in_flight, request_ids, highest_request_id, and which
connections the holders still hand out.  A recording subclass of HeartbeatFuture (installed as
cassandra.connection.HeartbeatFuture for the duration of a round) only logs construction and the result of wait().
"""
from collections import deque

import greenlet

from harness.sim import simcluster                                   # noqa: F401  (installs the reactor shim)
from harness.sim.simcluster import SimWorld, FakeNode, make_cluster
from harness import wire

import cassandra.connection as cconn
from cassandra.protocol import QueryMessage

INTERVAL, TIMEOUT = 30.0, 5.0


class ScriptedShutdownEvent:
    """_shutdown_event of a heartbeat that performs exactly one iteration of run()'s loop."""

    def __init__(self, harness):
        self.h = harness
        self.waits = 0
        self.flag = False

    def wait(self, timeout=None):
        self.waits += 1
        if self.waits >= 2:              # the wait that ends the iteration: stop afterwards
            self.flag = True
        return self.flag

    def is_set(self):
        self.h.yield_to_harness()
        return self.flag

    def set(self):
        self.flag = True


class OneRoundHeartbeat(cconn.ConnectionHeartbeat):
    """The real ConnectionHeartbeat, built by its real __init__ (whatever state that creates); only start() is a
    no-op so that no thread runs.  The harness then swaps in the scripted _shutdown_event and calls run() itself."""

    def start(self):
        pass


def make_heartbeat(interval_sec, get_connection_holders, timeout, shutdown_event):
    hb = OneRoundHeartbeat(interval_sec, get_connection_holders, timeout)
    hb._shutdown_event = shutdown_event
    return hb


class HbHarness:
    def __init__(self, npools, max_id, init_free):
        self.max_id, self.init_free = max_id, init_free
        self.world = SimWorld()
        self.nodes = []
        for i in range(npools):
            n = self.world.add_node(FakeNode("10.0.0.%d" % (i + 1), tokens=["%02x" % (16 * i)]))
            n.hold_options = True
            self.nodes.append(n)
        self.cluster = make_cluster(self.world, ["10.0.0.1"], protocol_version=4, idle_heartbeat_interval=0)
        self.session = self.cluster.connect(wait_for_all_pools=True)
        self.cluster.executor.inline = False
        self.log = []
        self.conns = {}
        self.owner = {}
        self.returns = {}
        holders = self.cluster.get_connection_holders()
        if len(holders) != npools + 1:
            raise RuntimeError("expected %d pools and the control connection, got %r" % (npools, holders))
        for i, h in enumerate(holders):
            name = "cc" if h is self.cluster.control_connection else "p%d" % (i + 1)
            cs = h.get_connections()
            if len(cs) != 1:
                raise RuntimeError("holder %r has %d connections" % (h, len(cs)))
            self.conns[name] = cs[0]
            self.owner[name] = h
            self.returns[name] = 0
            self._wrap_owner(h)
        self.order = ["p%d" % (i + 1) for i in range(npools)] + ["cc"]
        if list(self.conns) != self.order:
            raise RuntimeError("holder order %r differs from the specification's %r" % (list(self.conns), self.order))
        for name, c in self.conns.items():
            if c.in_flight != 0:
                raise RuntimeError("fresh connection %s has in_flight=%d" % (name, c.in_flight))
            c.max_request_id = max_id
            c.request_ids = deque(range(init_free))
            c.highest_request_id = init_free - 1
            self._wrap_conn(name, c)
        self.mark = {name: 0 for name in self.conns}
        self.round_returns = {name: 0 for name in self.conns}
        self.owed = {}
        self.gl = None
        self.main = greenlet.getcurrent()
        self.round_error = None

    # ------------------------------------------------------------ instrumentation (instance level only)
    def name_of(self, conn):
        for n, c in self.conns.items():
            if c is conn:
                return n
        return "?"

    def _wrap_owner(self, h):
        orig = h.return_connection

        def return_connection(connection, *a, **k):
            n = self.name_of(connection)
            self.round_returns[n] = self.round_returns.get(n, 0) + 1
            self.log.append(("return", n))
            return orig(connection, *a, **k)
        h.return_connection = return_connection

    def _wrap_conn(self, name, c):
        orig = c.reset_idle

        def reset_idle():
            self.log.append(("reset", name))
            return orig()
        c.reset_idle = reset_idle

    def yield_to_harness(self):
        if self.gl is not None and greenlet.getcurrent() is self.gl:
            self.main.switch()

    # ------------------------------------------------------------ initial state
    def _request(self, c):
        with c.lock:
            rid = c.get_request_id()
            c.in_flight += 1

        def cb(response, c=c):
            with c.lock:
                c.in_flight -= 1
        c.send_msg(QueryMessage(query="SELECT %d" % rid, consistency_level=1), rid, cb)
        return rid

    def setup(self, init):
        """init: name -> record of the specification's Init state."""
        for name, r in init.items():
            c = self.conns[name]
            if r["alive"] == "ok":
                rids = [self._request(c) for _ in range(r["inflight"])]
                for rid in r.get("orph", ()):
                    # the request timed out on the client: what ResponseFuture._on_timeout does to the connection
                    if rid not in rids:
                        raise RuntimeError("cannot orphan stream %s: outstanding %s" % (rid, rids))
                    c._requests.pop(rid)
                    with c.lock:
                        c.orphaned_request_ids.add(rid)
                    self.owed[(name, rid)] = next((node, p) for node in self.nodes for p in node.pending
                                                  if p.conn is c and p.frame.stream == rid)
                c.msg_received = not r["idle"]
                if not r.get("writable", True):
                    c._socket_writable = False      # what the libev reactor does while its write buffer is backed up
            elif r["alive"] == "defunct":
                c.socket_error()
            else:
                c.server_closed()
        for n in self.nodes:                 # outstanding requests stay unanswered for good
            n.pending = [p for p in n.pending if p.req.get("op") == "OPTIONS"]
        self.mark = {n: self._options_seen(n) for n in self.conns}

    # ------------------------------------------------------------ actions
    def _resume(self):
        """Run the round until its next yield point; False when run() has returned."""
        if self.gl is None or self.gl.dead:
            return False
        self.gl.switch()
        return not self.gl.dead

    def _step(self):
        """Run until one loop body has been executed (the log grew) -> its log entries."""
        n = len(self.log)
        while len(self.log) == n:
            if not self._resume():
                break
        return self.log[n:]

    def _run_round(self):
        saved = cconn.HeartbeatFuture
        h = self

        class RecordingFuture(saved):
            def __init__(self, connection, owner):
                self._harness_conn = connection
                try:
                    saved.__init__(self, connection, owner)
                finally:
                    h.log.append(("send", h.name_of(connection)))

            def wait(self, timeout):
                try:
                    saved.wait(self, timeout)
                except Exception as exc:
                    h.log.append(("wait", h.name_of(self._harness_conn), type(exc).__name__))
                    raise
                h.log.append(("wait", h.name_of(self._harness_conn), "ok"))
        cconn.HeartbeatFuture = RecordingFuture
        try:
            hb = make_heartbeat(INTERVAL, self.cluster.get_connection_holders, TIMEOUT, ScriptedShutdownEvent(self))
            hb.run()
        except Exception as exc:             # run() swallows everything itself; this is a broken driver
            self.round_error = exc
        finally:
            cconn.HeartbeatFuture = saved

    def act_StartRound(self, a, post):
        self.mark = {n: self._options_seen(n) for n in self.conns}
        self.round_returns = {n: 0 for n in self.conns}
        self.gl = greenlet.greenlet(self._run_round)
        n = len(self.log)
        self._resume()                       # up to "while not self._shutdown_event.is_set()"
        return self.log[n:], []

    def act_SendStep(self, a, post):
        c = a["c"]
        r = post["pre_conn"][c]
        if r["alive"] != "ok":
            want = [("return", c)]
        elif not r["idle"]:
            want = [("reset", c)]
        else:
            want = [("send", c)]
        return self._step(), want

    def act_WaitStep(self, a, post):
        c = a["c"]
        got = self._step()
        if a["kind"] == "ok":
            return got, [("wait", c, "ok"), ("reset", c)]
        got = [e[:2] if e[0] == "wait" and e[2] != "ok" else e for e in got]      # any exception class is a failure
        return got, [("wait", c)]

    def act_FailStep(self, a, post):
        return self._step(), [("return", a["c"])]

    def act_EndSend(self, a, post):
        return [], []

    act_EndWait = act_EndSend

    def act_EndRound(self, a, post):
        n = len(self.log)
        guard = 0
        while self._resume():
            guard += 1
            if guard > 10000:
                raise RuntimeError("heartbeat round does not end")
        self.gl = None
        return self.log[n:], []

    def _pending_options(self, c):
        for node in self.nodes:
            for p in node.pending:
                if p.conn is c and p.req.get("op") == "OPTIONS":
                    return node, p
        return None, None

    def act_Answer(self, a, post):
        c = self.conns[a["c"]]
        k = a["kind"]
        n = len(self.log)
        if k in ("ok", "err"):
            node, p = self._pending_options(c)
            if p is None:
                return [("no OPTIONS request pending on", a["c"])], []
            if k == "ok":
                node.respond(p, wire.SUPPORTED, wire.body_supported(node.supported))
            else:
                node.respond_error(p, wire.ERR_OVERLOADED, "overloaded")
        elif k == "connerr":
            c.socket_error()
        else:
            c.server_closed()
        return self.log[n:], []

    def act_Traffic(self, a, post):
        c = self.conns[a["c"]]
        n = len(self.log)
        kind = a.get("kind") or "reqresp"
        if kind == "reqresp":
            rid = self._request(c)
            for node in self.nodes:
                for p in list(node.pending):
                    if p.conn is c and p.frame.stream == rid and p.req.get("op") == "QUERY":
                        node.respond_void(p)
        elif kind == "late":                 # the server's late answer to the orphaned stream, as real bytes
            key = next((k for k in self.owed if k[0] == a["c"]), None)
            if key is None:
                return [("no orphaned request on", a["c"])], []
            node, p = self.owed.pop(key)
            node.send(p.conn, p.frame.version, p.frame.stream, wire.RESULT, wire.body_void())
        else:                                # a pushed event
            node = next(nd for nd in self.nodes if nd.address == c.endpoint.address)
            node.push_event(c, wire.body_event_schema(4, "CREATED", "KEYSPACE", "ks_heartbeat_traffic"))
        return self.log[n:], []

    def act_Die(self, a, post):
        n = len(self.log)
        self.conns[a["c"]].socket_error()
        return self.log[n:], []

    def do(self, act, post):
        return getattr(self, "act_" + act["name"])(act, post)

    # ------------------------------------------------------------ projection
    def _options_seen(self, name):
        c = self.conns[name]
        return sum(1 for node in self.nodes for sid, req in node.received if sid == c.sim_id and req.get("op") == "OPTIONS")

    def project(self):
        held = [x for h in self.cluster.get_connection_holders() for x in h.get_connections()]
        out = {}
        for name, c in self.conns.items():
            alive = "defunct" if c.is_defunct else ("closed" if c.is_closed else "ok")
            r = {"alive": alive, "held": any(x is c for x in held),
                 "sent": self._options_seen(name) - self.mark[name], "returned": self.round_returns[name]}
            if alive == "ok":
                r.update(idle=not c.msg_received, inflight=c.in_flight, free=list(c.request_ids),
                         highest=c.highest_request_id, writable=bool(c._socket_writable),
                         orph=sorted(c.orphaned_request_ids))
            out[name] = r
        return out


def spec_view(st):
    out = {}
    for name, r in st["conn"].items():
        v = {"alive": str(r["alive"]), "held": r["held"], "sent": st["sentCnt"][name], "returned": st["retCnt"][name]}
        if r["alive"] == "ok":
            v.update(idle=r["idle"], inflight=r["inflight"], free=list(r["free"]), highest=r["highest"],
                     writable=r["writable"], orph=sorted(r["orph"]))
        out[str(name)] = v
    return out


def diff(spec, code):
    d = {}
    for name in spec:
        for k in set(spec[name]) | set(code.get(name, {})):
            sv, cv = spec[name].get(k), code.get(name, {}).get(k)
            if sv != cv:
                d["%s.%s" % (name, k)] = {"spec": sv, "code": cv}
    return d


def actions_of(states):
    return [{"name": str(s["act"]["name"]), "c": str(s["act"]["c"]), "kind": str(s["act"]["kind"])} for s in states[1:]]


def replay(consts, states, harness=None):
    """spec -> code: run one behaviour of Heartbeat.tla (state dicts, Init first) on the real objects.
    Returns None or a divergence {step, action, diff}."""
    h = harness or HbHarness(consts["NPools"], consts["MaxId"], consts["InitFree"])
    h.setup({str(n): r for n, r in states[0]["conn"].items()})
    d = diff(spec_view(states[0]), h.project())
    if d:
        return {"step": 0, "action": {"name": "Init", "c": "", "kind": ""}, "diff": d, "machinery": True}
    for i, st in enumerate(states[1:], 1):
        a = {"name": str(st["act"]["name"]), "c": str(st["act"]["c"]), "kind": str(st["act"]["kind"])}
        post = {"pre_conn": states[i - 1]["conn"]}
        try:
            got, want = h.do(a, post)
        except Exception as exc:             # the driver under test blew up outside run()'s own handlers
            return {"step": i, "action": a, "diff": {"exception": {"spec": None, "code": "%s: %s" % (type(exc).__name__, exc)}}}
        d = {}
        if list(got) != list(want):
            d["log"] = {"spec": [list(e) for e in want], "code": [list(e) for e in got]}
        d.update(diff(spec_view(st), h.project()))
        if h.round_error is not None:
            d["round_error"] = {"spec": None, "code": repr(h.round_error)}
        if d:
            return {"step": i, "action": a, "diff": d}
    if h.gl is not None and not h.gl.dead:       # behaviour ended inside a round: let the thread function finish
        try:
            h.act_EndRound(None, None)
        except Exception:
            pass
    return None
