"""C11 binding: REAL reactor connections (asyncio, twisted) pushing from several OS threads; the bytes the
peer receives are parsed back into chunk events and validated against spec/Trace_PushQueue.tla.

Runs in a subprocess per reactor (event loops are process-global). No network: asyncio adopts one end of
a socket.socketpair(); twisted connects to a listening socket on 127.0.0.1 owned by the harness.
Message format (harness-defined payload pushed through conn.push): the message is a sequence of 16-byte
records  b"M" + t(1) + m(2) + total_len(4) + offset(4) + b"...." so every out_buffer_size chunk of every
message is self-identifying and an interleaved / truncated / duplicated stream is recognisable.
"""
import json
import os
import random
import socket
import struct
import subprocess
import sys
import threading
import time

REC = 16
CHUNK = 4096


def make_message(t, m, nbytes):
    assert nbytes % REC == 0
    out = bytearray()
    for off in range(0, nbytes, REC):
        out += b"M" + bytes([t]) + struct.pack(">HII", m, nbytes, off) + b"...."
    return bytes(out)


def parse_stream(data):
    """bytes -> list of chunk events {e:'Chunk', t, m, k, n} (or one {e:'Garbage', ...} and stop)."""
    events = []
    pos = 0
    n = len(data)
    while pos < n:
        if n - pos < REC or data[pos:pos + 1] != b"M":
            events.append({"e": "Garbage", "at": pos, "why": "no record header"})
            return events
        t = data[pos + 1]
        m, total, off = struct.unpack(">HII", data[pos + 2:pos + 12])
        nch = (total + CHUNK - 1) // CHUNK
        if off % CHUNK != 0:
            events.append({"e": "Garbage", "at": pos, "why": "chunk does not start at a chunk boundary", "t": t, "m": m, "off": off})
            return events
        k = off // CHUNK + 1
        clen = min(CHUNK, total - off)
        # the whole chunk must be this message's records, contiguous
        end = pos + clen
        if end > n:
            events.append({"e": "Garbage", "at": pos, "why": "truncated chunk", "t": t, "m": m, "k": k})
            return events
        o = off
        p = pos
        while p < end:
            if data[p:p + 1] != b"M" or data[p + 1] != t or struct.unpack(">HII", data[p + 2:p + 12]) != (m, total, o):
                events.append({"e": "Garbage", "at": p, "why": "foreign bytes inside a chunk", "t": t, "m": m, "k": k})
                return events
            p += REC
            o += REC
        events.append({"e": "Chunk", "t": t, "m": m, "k": k, "n": nch})
        pos = end
    return events


# ------------------------------------------------------------------ child process
def _child(reactor, threads, k_msgs, sizes, seed, timeout, cap=0, loop_pusher=0):
    repo = os.environ.get("VERIF_REPO", "/repo")
    sys.path.insert(0, repo)
    import logging
    logging.disable(logging.CRITICAL)
    rng = random.Random(seed)
    total = sum(sum(s) for s in sizes)
    received = bytearray()
    done = threading.Event()

    def reader(sock):
        sock.settimeout(0.2)
        deadline = time.time() + timeout
        while len(received) < total and time.time() < deadline:
            try:
                b = sock.recv(65536)
            except socket.timeout:
                continue
            except OSError:
                break
            if not b:
                break
            received.extend(b)
        done.set()

    if reactor == "asyncio":
        from cassandra.io.asyncioreactor import AsyncioConnection
        a, b = socket.socketpair()
        if cap:
            # a socket that takes at most `cap` bytes per send() call (a nearly full send buffer): short writes are
            # the environment's business, whatever the reactor does about them the byte stream must be the same
            class ShortWriteSocket(socket.socket):
                def send(self, data, *flags):
                    return socket.socket.send(self, bytes(data)[:cap], *flags)
            a = ShortWriteSocket(fileno=a.detach())

        class Conn(AsyncioConnection):
            def _connect_socket(self):
                self._socket = a

            def _send_options_message(self):
                pass
        AsyncioConnection.initialize_reactor()
        conn = Conn("127.0.0.1", 9042, connect_timeout=5)
        peer = b
    else:
        from cassandra.io.twistedreactor import TwistedConnection
        srv = socket.socket()
        srv.bind(("127.0.0.1", 0))
        srv.listen(1)
        port = srv.getsockname()[1]
        ready = threading.Event()

        class Conn(TwistedConnection):
            def _send_options_message(self):
                ready.set()
        TwistedConnection.initialize_reactor()
        conn = Conn("127.0.0.1", port, connect_timeout=5)
        srv.settimeout(10)
        peer, _ = srv.accept()
        if not ready.wait(10):
            print(json.dumps({"error": "twisted connection not established"}))
            return
    rt = threading.Thread(target=reader, args=(peer,), daemon=True)
    rt.start()
    msgs = {t: [make_message(t, m + 1, sizes[t - 1][m]) for m in range(k_msgs)] for t in range(1, threads + 1)}
    start = threading.Barrier(threads)

    def pusher(t):
        start.wait()
        if loop_pusher and t == 1:
            # pusher 1 pushes from the reactor's own loop thread (as a response callback that sends a request does),
            # one message per loop iteration so that its pushes fall between the steps of whatever the reactor is
            # doing for the application threads' pushes; the others are application threads
            finished = threading.Event()

            def push_next(i):
                conn.push(msgs[1][i])
                if i + 1 < len(msgs[1]):
                    later(push_next, i + 1)
                else:
                    finished.set()
            if reactor == "asyncio":
                loop = AsyncioConnection._loop
                later = lambda f, *a: loop.call_soon(f, *a)          # noqa: E731
                loop.call_soon_threadsafe(push_next, 0)
            else:
                from twisted.internet import reactor as _tw
                later = lambda f, *a: _tw.callLater(0, f, *a)        # noqa: E731
                _tw.callFromThread(push_next, 0)
            finished.wait(timeout)
            return
        for msg in msgs[t]:
            conn.push(msg)
    ths = [threading.Thread(target=pusher, args=(t,)) for t in range(1, threads + 1)]
    for th in ths:
        th.start()
    for th in ths:
        th.join()
    done.wait(timeout + 1)
    events = parse_stream(bytes(received))
    events.append({"e": "End", "pushed": [k_msgs] * threads, "received_bytes": len(received), "expected_bytes": total})
    print(json.dumps({"events": events}))
    sys.stdout.flush()
    os._exit(0)


def run_reactor(reactor, threads, k_msgs, sizes, seed, timeout=20, cap=0, loop_pusher=0):
    """Run one real execution in a subprocess; returns the event list (or raises RuntimeError)."""
    here = os.path.dirname(os.path.dirname(os.path.dirname(os.path.abspath(__file__))))
    code = ("import sys; sys.path.insert(0, %r); from harness.replay import pushqueue as p; "
            "p._child(%r, %d, %d, %r, %d, %d, %d, %d)" % (here, reactor, threads, k_msgs, sizes, seed, timeout, cap, loop_pusher))
    p = subprocess.run([sys.executable, "-c", code], stdout=subprocess.PIPE, stderr=subprocess.PIPE, timeout=timeout + 60,
                       text=True)
    line = p.stdout.strip().splitlines()[-1] if p.stdout.strip() else ""
    try:
        obj = json.loads(line)
    except ValueError:
        raise RuntimeError("reactor child failed: rc=%s stdout=%r stderr=%r" % (p.returncode, p.stdout[-500:], p.stderr[-1500:]))
    if "error" in obj:
        raise RuntimeError(obj["error"])
    return obj["events"]
