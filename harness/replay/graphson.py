"""Binding between spec/GraphSON.tla (+ Trace_GraphSON.tla) and cassandra.datastax.graph.graphson (C40).

A TLC state carries a case: GraphSON version, abstract value, the specification's JSON tree for it (`tree`), other
admissible forms (`alts`), the normalised value that has to come back (`norm`).  This module

  * turns abstract values into the Python objects the driver documents (`to_python`, several input forms for
    bytes-like and inet values) and the normalised value into the object that has to come back (`expected_python`);
  * runs the REAL serializers (GraphSON1Serializer / GraphSON2Serializer / GraphSON3Serializer) and turns
    json.loads(json.dumps(output)) into the specification's tree encoding (`to_tree`);
  * turns a specification tree into JSON text (`tree_json`) and runs the REAL readers on it (GraphSON2Reader /
    GraphSON3Reader; for GraphSON 1, which is untyped, GraphSON1Deserializer.deserialize_<type> as the documentation
    tells users to do, element by element);
  * runs the real round trip  read(json.dumps(serialize(x))).

Everything the driver does is wrapped: an exception of the code under test is an outcome, never a crash of the harness.

Tuple encoding (see GraphSON.tla): values and nodes are sequences whose first component is the kind; they arrive from
the TLC dump (or from a replay file) as lists.
"""
import datetime
import decimal
import ipaddress
import json
import math
import os
import re
import time
import uuid

from harness.pyenv import repo_import

VERSIONS = (1, 2, 3)
CONTAINERS = ("list", "set", "map")

# ------------------------------------------------------------------ fast reader for `tlc -dump` files
_VAR = re.compile(r'^/\\ (\w+) =', re.M)
_HDR = re.compile(r'^State \d+:\s*$', re.M)


def _to_json(text):
    """States of GraphSON.tla hold only sequences, strings, integers and booleans (no records, no sets, and no string
    contains '<', '>', 'TRUE' or 'FALSE'): `<<` / `>>` -> brackets, TRUE / FALSE -> JSON."""
    t = text.replace('<<', '[').replace('>>', ']').replace('TRUE', 'true').replace('FALSE', 'false')
    return _VAR.sub(r',"\1":', t)


def parse_dump_fast(path):
    with open(path) as f:
        text = f.read()
    parts = [p.strip() for p in _HDR.split(_to_json(text))]
    return json.loads("[" + ",".join("{" + p.lstrip(',') + "}" for p in parts if p) + "]")


def enumerate_fast(tlc, module, cfg, workdir, **kw):
    """like tlc.enumerate_states, with the fast reader; the first states are cross-checked against harness.tlaval"""
    from harness import tlaval
    dump = os.path.join(workdir, "states_%d" % int(time.time() * 1000 % 10 ** 9))
    res = tlc.check_model(module, cfg, workdir, dump=dump, **kw)
    path = dump if os.path.exists(dump) else dump + ".dump"
    states = parse_dump_fast(path)
    with open(path) as f:
        head = f.read(400000)
    parts = [p for p in _HDR.split(head) if p.strip()][:-1][:8]
    for i, p in enumerate(parts):
        slow = tlaval.to_py(tlaval.parse_state(p.strip()))
        if states[i] != slow:
            raise tlc.MachineryError("fast dump reader disagrees with tlaval on state %d of %s" % (i + 1, module))
    os.unlink(path)
    if len(states) != res.distinct:
        raise tlc.MachineryError("dump of %s has %d states, TLC reports %d distinct" % (module, len(states), res.distinct))
    return res, states


# ------------------------------------------------------------------ characters, digits, floats
def ch(c):
    return chr(int(c[2:], 16)) if len(c) > 1 and c.startswith("U+") else c


def text_of(chars):
    return "".join(ch(c) for c in chars)


def chars_of(s):
    return [c if ord(c) < 128 else "U+%04X" % ord(c) for c in s]


def int_of(neg, dig):
    n = int("".join(str(d) for d in dig))
    return -n if neg else n


def digits_of(n):
    return [n < 0, [int(c) for c in str(abs(n))]]


F32MAX = 3.4028234663852886e+38
FLOAT_ATOMS = {"0.0": 0.0, "-0.0": -0.0, "1.0": 1.0, "1.5": 1.5, "-2.5": -2.5, "0.1": 0.1, "1e300": 1e300, "5e-324": 5e-324,
               "f32max": F32MAX, "nan": float("nan"), "inf": float("inf"), "-inf": float("-inf")}


def float_of(atom):
    if atom in FLOAT_ATOMS:
        return FLOAT_ATOMS[atom]
    return float(atom.split(":", 1)[1])


def atom_of(f):
    if f != f:
        return "nan"
    for k, v in FLOAT_ATOMS.items():
        if v == f and math.copysign(1.0, v) == math.copysign(1.0, f):
            return k
    return "other:%r" % f


def coord_float(c):
    neg, i, f = c
    s = "".join(str(d) for d in i) + "." + ("".join(str(d) for d in f) or "0")
    return -float(s) if neg else float(s)


def coord_py(c):
    """the Python number of a coordinate as the user writes it: an int when it has no fraction digits"""
    neg, i, f = c
    if not f:
        n = int("".join(str(d) for d in i))
        return -n if neg else n
    return coord_float(c)


# ------------------------------------------------------------------ the driver under test
class Driver(object):
    def __init__(self):
        self.g = repo_import("cassandra.datastax.graph.graphson")
        self.util = repo_import("cassandra.util")

        class _Cluster(object):          # what GraphSON3Serializer / Reader look at in their context
            _user_types = {}
        self.context = {"cluster": _Cluster(), "graph_name": "verif"}

    # -- serializers (what Session._transform_params does with a parameter value)
    def serialize(self, ver, obj):
        g = self.g
        if ver == 1:
            out = g.GraphSON1Serializer.serialize(obj)
        elif ver == 2:
            out = g.GraphSON2Serializer().serialize(obj)
        else:
            out = g.GraphSON3Serializer(self.context).serialize(obj)
        return json.dumps(out)

    # -- readers
    def read(self, ver, text, shape):
        g = self.g
        if ver == 2:
            return g.GraphSON2Reader(self.context).read(text)
        if ver == 3:
            return g.GraphSON3Reader(self.context).read(text)
        return self.read1(json.loads(text), shape)

    V1 = {"int": "deserialize_bigint", "float": "deserialize_double", "dec": "deserialize_decimal", "bool": "deserialize_boolean",
          "uuid": "deserialize_uuid", "blob": "deserialize_blob", "inet": "deserialize_inet", "date": "deserialize_date",
          "time": "deserialize_time", "inst": "deserialize_timestamp", "dur": "deserialize_duration",
          "point": "deserialize_point", "line": "deserialize_linestring", "poly": "deserialize_polygon"}

    def read1(self, obj, shape):
        """GraphSON 1 results are plain JSON; the documentation: 'If you know your graph schema and want to deserialize
        properties, use the GraphSON1Deserializer ... deserialize_date, deserialize_uuid, ...' - applied element-wise."""
        k = shape[0]
        if k == "text":
            return obj
        if k == "list":
            if not isinstance(obj, list) or len(obj) != len(shape[1]):
                raise ValueError("GraphSON 1 result is not the array the schema says")
            return [self.read1(o, s) for o, s in zip(obj, shape[1])]
        if k == "map":
            if not isinstance(obj, dict) or len(obj) != len(shape[1]):
                raise ValueError("GraphSON 1 result is not the object the schema says")
            return {key: self.read1(o, s[1]) for (key, o), s in zip(obj.items(), shape[1])}
        if k not in self.V1:
            raise ValueError("GraphSON1Deserializer has no method for %s" % k)
        return getattr(self.g.GraphSON1Deserializer, self.V1[k])(obj)


# ------------------------------------------------------------------ abstract value -> Python object
def forms_of(val):
    """number of input forms of a value (bytes-like classes for blob); containers: the maximum over the elements"""
    k = val[0]
    if k == "blob":
        return 3
    if k in ("list", "set"):
        return max([forms_of(x) for x in val[1]] or [1])
    if k == "map":
        return max([max(forms_of(p[0]), forms_of(p[1])) for p in val[1]] or [1])
    return 1


class NotConstructible(Exception):
    """Python merges two elements of the abstract set / two keys of the abstract map, or the input class is not hashable"""


def to_python(drv, val, form=0):
    k = val[0]
    g, u = drv.g, drv.util
    if k == "int":
        n = int_of(val[2], val[3])
        h = val[1]
        return n if h == "none" else {"smallint": g.to_smallint, "int": g.to_int, "bigint": g.to_bigint}[h](n)
    if k == "float":
        f = float_of(val[2])
        h = val[1]
        return f if h == "none" else {"float": g.to_float, "double": g.to_double}[h](f)
    if k == "dec":
        return decimal.Decimal((1 if val[1] else 0, tuple(val[2]), val[3]))
    if k == "text":
        return text_of(val[1])
    if k == "bool":
        return bool(val[1])
    if k == "uuid":
        return uuid.UUID(bytes=bytes(val[1]))
    if k == "blob":
        b = bytes(val[1])
        return (b, bytearray(b), memoryview(b))[form % 3]
    if k == "inet":
        b = bytes(val[1])
        return ipaddress.IPv4Address(b) if len(b) == 4 else ipaddress.IPv6Address(b)
    if k == "date":
        return datetime.date(val[1], val[2], val[3])
    if k == "time":
        return datetime.time(val[1], val[2], val[3], val[4] // 1000)
    if k == "inst":
        tz = datetime.timezone(datetime.timedelta(minutes=val[9])) if val[8] else None
        return datetime.datetime(val[1], val[2], val[3], val[4], val[5], val[6], val[7] // 1000, tzinfo=tz)
    if k == "dur":
        td = datetime.timedelta(days=val[2], seconds=val[3], microseconds=val[4] // 1000)
        return -td if val[1] else td
    if k == "dsedur":
        return u.Duration(int_of(*val[1]), int_of(*val[2]), int_of(*val[3]))
    if k == "point":
        return u.Point(coord_py(val[1]), coord_py(val[2]))
    if k == "line":
        return u.LineString(tuple((coord_py(p[0]), coord_py(p[1])) for p in val[1]))
    if k == "poly":
        rings = [tuple((coord_py(p[0]), coord_py(p[1])) for p in r) for r in val[1]]
        return u.Polygon(rings[0], rings[1:]) if rings else u.Polygon()
    if k == "dist":
        return u.Distance(coord_py(val[1]), coord_py(val[2]), coord_py(val[3]))
    if k == "list":
        return [to_python(drv, x, form) for x in val[1]]
    if k == "set":
        try:
            s = set(to_python(drv, x, form) for x in val[1])
        except TypeError:                       # an unhashable input class (bytearray)
            raise NotConstructible(val)
        if len(s) != len(val[1]):
            raise NotConstructible(val)
        return s
    if k == "map":
        d = {}
        try:
            for kk, vv in val[1]:
                d[to_python(drv, kk, form)] = to_python(drv, vv, form)
        except TypeError:
            raise NotConstructible(val)
        if len(d) != len(val[1]):
            raise NotConstructible(val)
        return d
    raise ValueError("unknown abstract value %r" % (val,))


class ExpSet(object):
    """the set that has to come back (kept as a list: what comes back need not be hashable)"""

    def __init__(self, items):
        self.items = items

    def __repr__(self):
        return "{%s}" % ", ".join(repr(x) for x in self.items) if self.items else "set()"


class ExpMap(object):
    def __init__(self, pairs):
        self.pairs = pairs

    def __repr__(self):
        return "{%s}" % ", ".join("%r: %r" % (k, v) for k, v in self.pairs)


def expected_python(drv, norm):
    """the object the documentation says comes back for the normalised value"""
    k = norm[0]
    u = drv.util
    if k == "int":
        return int_of(norm[2], norm[3])
    if k == "float":
        return float_of(norm[2])
    if k == "blob":
        return bytearray(norm[1])
    if k == "point":
        return u.Point(coord_float(norm[1]), coord_float(norm[2]))
    if k == "line":
        return u.LineString(tuple((coord_float(p[0]), coord_float(p[1])) for p in norm[1]))
    if k == "poly":
        rings = [tuple((coord_float(p[0]), coord_float(p[1])) for p in r) for r in norm[1]]
        return u.Polygon(rings[0], rings[1:]) if rings else u.Polygon()
    if k == "dist":
        return u.Distance(coord_float(norm[1]), coord_float(norm[2]), coord_float(norm[3]))
    if k == "list":
        return [expected_python(drv, x) for x in norm[1]]
    if k == "set":
        return ExpSet([expected_python(drv, x) for x in norm[1]])
    if k == "map":
        return ExpMap([(expected_python(drv, kk), expected_python(drv, vv)) for kk, vv in norm[1]])
    return to_python(drv, norm)


def _match(items, others, eq):
    """one-to-one matching of two collections under eq (elements of an abstract set are pairwise different)"""
    others = list(others)
    if len(items) != len(others):
        return False
    for x in items:
        for i, y in enumerate(others):
            if eq(y, x):
                del others[i]
                break
        else:
            return False
    return True


def equal(back, want):
    """'an equal value': Python equality with what the documentation says comes back; NaN equal to NaN; containers
    element-wise; a set may come back as a set or - documented: 'set or list' - as a list, in any order"""
    if isinstance(want, ExpSet):
        return isinstance(back, (set, frozenset, list)) and _match(want.items, back, equal)
    if isinstance(want, ExpMap):
        return isinstance(back, dict) and _match(want.pairs, list(back.items()),
                                                lambda b, w: equal(b[0], w[0]) and equal(b[1], w[1]))
    if isinstance(want, list):
        return isinstance(back, list) and len(back) == len(want) and all(equal(x, y) for x, y in zip(back, want))
    if isinstance(want, float) and isinstance(back, float) and want != want and back != back:
        return True
    if isinstance(back, (list, dict, set, frozenset)):
        return False
    try:
        return bool(back == want)
    except Exception:
        return False


def strictly_equal(back, want):
    """equal, and also the same class, the same decimal exponent, the same sign of zero (finer than the property)"""
    if isinstance(want, ExpSet):
        return isinstance(back, (set, frozenset)) and _match(want.items, back, strictly_equal)
    if isinstance(want, ExpMap):
        return isinstance(back, dict) and _match(want.pairs, list(back.items()),
                                                lambda b, w: strictly_equal(b[0], w[0]) and strictly_equal(b[1], w[1]))
    if isinstance(want, list):
        return isinstance(back, list) and len(back) == len(want) and all(strictly_equal(x, y) for x, y in zip(back, want))
    if type(back) is not type(want):
        return False
    if isinstance(want, float):
        return (want != want and back != back) or (want == back and math.copysign(1.0, want) == math.copysign(1.0, back))
    if isinstance(want, decimal.Decimal):
        return want.as_tuple() == back.as_tuple()
    return equal(back, want)


def shape_of(val):
    k = val[0]
    if k in ("list", "set"):
        return [k, [shape_of(x) for x in val[1]]]
    if k == "map":
        return ["map", [[shape_of(p[0]), shape_of(p[1])] for p in val[1]]]
    return [k]


def leaves(val):
    k = val[0]
    if k in ("list", "set"):
        for x in val[1]:
            for y in leaves(x):
                yield y
    elif k == "map":
        for p in val[1]:
            for x in p:
                for y in leaves(x):
                    yield y
    else:
        yield val


def depth(val):
    k = val[0]
    if k in ("list", "set"):
        return 1 + max([depth(x) for x in val[1]] or [0])
    if k == "map":
        return 1 + max([max(depth(p[0]), depth(p[1])) for p in val[1]] or [0])
    return 0


# ------------------------------------------------------------------ JSON <-> specification trees
def to_tree(obj):
    """json.loads(...) of a real output -> node"""
    if isinstance(obj, bool):
        return ["b", obj]
    if isinstance(obj, int):
        return ["n"] + digits_of(obj)
    if isinstance(obj, float):
        return ["f", atom_of(obj)]
    if isinstance(obj, str):
        return ["s", chars_of(obj)]
    if obj is None:
        return ["z", 0]
    if isinstance(obj, list):
        return ["a", [to_tree(o) for o in obj]]
    if isinstance(obj, dict):
        if set(obj.keys()) == {"@type", "@value"} and isinstance(obj["@type"], str):
            return ["t", obj["@type"], to_tree(obj["@value"])]
        return ["o", [[chars_of(k), to_tree(v)] for k, v in obj.items()]]
    raise TypeError("not JSON data: %r" % (obj,))


def from_tree(node):
    k = node[0]
    if k == "b":
        return bool(node[1])
    if k == "n":
        return int_of(node[1], node[2])
    if k == "f":
        return float_of(node[1])
    if k == "s":
        return text_of(node[1])
    if k == "z":
        return None
    if k == "a":
        return [from_tree(n) for n in node[1]]
    if k == "o":
        return {text_of(p[0]): from_tree(p[1]) for p in node[1]}
    if k == "t":
        return {"@type": node[1], "@value": from_tree(node[2])}
    raise ValueError("not a node: %r" % (node,))


def tree_json(node):
    return json.dumps(from_tree(node))


def canon(node):
    """the order of the array of a g:Set is not part of the form (a Python set has no order)"""
    k = node[0]
    if k == "t":
        p = canon(node[2])
        if node[1] == "g:Set" and p[0] == "a":
            p = ["a", sorted(p[1], key=repr)]
        return ["t", node[1], p]
    if k == "a":
        return ["a", [canon(n) for n in node[1]]]
    if k == "o":
        return ["o", [[p[0], canon(p[1])] for p in node[1]]]
    return list(node)


def untuple(v):
    """tuples -> lists (replay files, tlaval values)"""
    if isinstance(v, (list, tuple)):
        return [untuple(x) for x in v]
    return v


def show_tree(node):
    try:
        return tree_json(node)
    except Exception:
        return repr(node)


def show_val(val):
    """short readable form of an abstract value (close to the Python expression)"""
    k = val[0]
    if k == "int":
        return "%d%s" % (int_of(val[2], val[3]), "" if val[1] == "none" else " (to_%s)" % val[1])
    if k == "float":
        return "float(%s)%s" % (val[2], "" if val[1] == "none" else " (to_%s)" % val[1])
    if k == "dec":
        return "Decimal('%s')" % decimal.Decimal((1 if val[1] else 0, tuple(val[2]), val[3]))
    if k == "text":
        return repr(text_of(val[1]))
    if k == "bool":
        return repr(bool(val[1]))
    if k == "uuid":
        return "UUID('%s')" % uuid.UUID(bytes=bytes(val[1]))
    if k == "blob":
        return "blob(%s)" % bytes(val[1]).hex()
    if k == "inet":
        return "inet(%s)" % ipaddress.ip_address(bytes(val[1]))
    if k == "date":
        return "date(%d, %d, %d)" % tuple(val[1:4])
    if k == "time":
        return "time(%d, %d, %d, %d)" % (val[1], val[2], val[3], val[4] // 1000)
    if k == "inst":
        return "datetime(%d, %d, %d, %d, %d, %d, %d%s)" % (val[1], val[2], val[3], val[4], val[5], val[6], val[7] // 1000,
                                                          ", utc%+d min" % val[9] if val[8] else "")
    if k == "dur":
        return "%stimedelta(days=%d, seconds=%d, microseconds=%d)" % ("-" if val[1] else "", val[2], val[3], val[4] // 1000)
    if k == "dsedur":
        return "Duration(%d, %d, %d)" % (int_of(*val[1]), int_of(*val[2]), int_of(*val[3]))
    if k == "point":
        return "Point(%r, %r)" % (coord_py(val[1]), coord_py(val[2]))
    if k == "line":
        return "LineString(%r)" % ([(coord_py(p[0]), coord_py(p[1])) for p in val[1]],)
    if k == "poly":
        return "Polygon(%r)" % ([[(coord_py(p[0]), coord_py(p[1])) for p in r] for r in val[1]],)
    if k == "dist":
        return "Distance(%r, %r, %r)" % (coord_py(val[1]), coord_py(val[2]), coord_py(val[3]))
    if k == "list":
        return "[%s]" % ", ".join(show_val(x) for x in val[1])
    if k == "set":
        return "{%s}" % ", ".join(show_val(x) for x in val[1]) if val[1] else "set()"
    if k == "map":
        return "{%s}" % ", ".join("%s: %s" % (show_val(p[0]), show_val(p[1])) for p in val[1])
    return repr(val)
