"""Binding between spec/SessionKeyspace.tla and the real Session / HostConnection / Connection / ResponseFuture.

A simulated cluster with one FakeNode per pool (protocol v4, executor tasks queued).  The configuration of a
behaviour is produced with the driver's own means: a pool "without connection at the moment" by letting a
request on its connection fail with a socket error (return_connection clears _connection and queues _replace),
a shut-down pool by pool.shutdown().  The switch is a real ResponseFuture executing `USE ks2` on the first pool
with a connection; the node answers SET_KEYSPACE, the fanned-out USE queries appear in the nodes' pending lists
and are answered in the behaviour's order.  Everything runs on the main greenlet: all steps are loop-thread
callbacks (atomic w.r.t. each other).
"""
from harness.sim import simcluster                                       # noqa: F401
from harness.sim.simcluster import SimWorld, FakeNode, make_cluster
from harness.sim.detsched import DetSched
from harness import wire

import cassandra
from cassandra.policies import FallthroughRetryPolicy, RoundRobinPolicy, ConvictionPolicy
from cassandra.cluster import ExecutionProfile, EXEC_PROFILE_DEFAULT

NEW = "ks2"
OLD = "ks"

S_NEVER = "Session._set_keyspace_for_all_pools:never-completes-when-a-pool-has-no-connection-or-is-shut-down"
S_LAST = "Session._set_keyspace_for_all_pools:reports-only-the-last-pool's-errors"
S_DIED = "Connection.set_keyspace_async:connection-death-during-USE-reported-as-success"
S_POOLKS = "HostConnection._set_keyspace_for_all_conns:keyspace-not-recorded-without-connection"
S_LATE = "HostConnection._replace:keyspace-switch-between-USE-and-publication-of-the-replacement-lost"
KNOWN = (S_NEVER, S_LAST, S_DIED, S_POOLKS, S_LATE)
RSTEPS = {"RCheck": ("queued", "open", "opening"), "ROpen": ("open", "use", "opened"), "RUse": ("use", "publish", "use:done"),
          "RPublish": ("publish", "done", None)}


class HarnessRefusal(Exception):
    pass


class NeverConvict(ConvictionPolicy):
    def add_failure(self, connection_exc):
        return False

    def reset(self):
        pass


class KsHarness:
    GROUP_A = ("completions", "result")
    GROUP_B = ("connks", "poolks", "borrowed", "newks")

    def __init__(self, pstate, outcome, rph=None):
        """pstate / outcome / rph: dicts pool number -> value (spec's Init).  rph: how far the _replace task of a
        pool without connection has got when the switch begins (queued, open, use, publish)."""
        self.n = len(pstate)
        self.pstate, self.outcome = dict(pstate), dict(outcome)
        self.rph = {p: ((rph or {}).get(p) or "queued") if pstate[p] == "noconn" else "none" for p in pstate}
        self.world = SimWorld()
        self.addr = {p: "10.0.0.%d" % p for p in range(1, self.n + 1)}
        self.nodes = {p: self.world.add_node(FakeNode(self.addr[p], tokens=["%02x" % (p * 16)])) for p in self.addr}
        profile = ExecutionProfile(load_balancing_policy=RoundRobinPolicy(), retry_policy=FallthroughRetryPolicy(),
                                   request_timeout=10.0)
        self.cluster = make_cluster(self.world, [self.addr[1]], execution_profiles={EXEC_PROFILE_DEFAULT: profile},
                                    conviction_policy_factory=NeverConvict)
        self.sched = DetSched()
        self.newconn = {}
        by_addr = {a: p for p, a in self.addr.items()}
        orig_factory = self.cluster.connection_factory

        def factory(endpoint, *a, **kw):
            mine = kw.get("on_orphaned_stream_released") is not None
            if mine:
                self.sched.yield_point("opening")
            conn = orig_factory(endpoint, *a, **kw)
            if mine:
                p = by_addr[endpoint.address]
                self.newconn[p] = conn
                # the simulated handshake is answered inside push(); the re-entered read loop recycles its stream id
                # twice - keep every free id once
                conn.request_ids = type(conn.request_ids)(dict.fromkeys(conn.request_ids))
                orig_skb = conn.set_keyspace_blocking

                def set_keyspace_blocking(keyspace, orig_skb=orig_skb, node=self.nodes[p]):
                    node.auto = True                 # the USE on the new connection is answered at once ...
                    try:
                        orig_skb(keyspace)
                    finally:
                        node.auto = False
                    self.sched.yield_point("use:done")   # ... but is a step of its own for the schedule
                conn.set_keyspace_blocking = set_keyspace_blocking
                self.sched.yield_point("opened")
            return conn
        self.cluster.connection_factory = factory
        self.session = self.cluster.connect()
        from harness.replay.pool import establish_keyspace
        establish_keyspace(self.session, list(self.nodes.values()), OLD)       # the session starts on keyspace "ks"
        self.cluster.executor.inline = False
        hosts = {h.endpoint.address: h for h in self.cluster.metadata.all_hosts()}
        self.host = {p: hosts[self.addr[p]] for p in self.addr}
        self.pool = {p: self.session._pools[self.host[p]] for p in self.addr}
        self.cbs = self.ebs = 0
        self.exc = None
        self.borrowed = {p: "-" for p in self.addr}
        self.fut = None
        for p in sorted(self.addr):
            if pstate[p] == "shutdown":
                self.pool[p].shutdown()
            elif pstate[p] == "noconn":
                conn = self.pool[p]._connection
                self.session.execute_async("SELECT 0", host=self.host[p])
                conn.socket_error()
                if self.pool[p]._connection is not None or not self._replace_task(p):
                    raise RuntimeError("could not bring pool %d into the state 'being replaced'" % p)
                want, self.rph[p] = self.rph[p], "queued"
                for step in ("RCheck", "ROpen", "RUse"):
                    if self.rph[p] != want:
                        self._rstep(step, p)
                if self.rph[p] != want:
                    raise RuntimeError("could not bring the _replace task of pool %d to phase %s" % (p, want))
        for p, pool in self.pool.items():
            if pstate[p] == "conn" and not (pool._keyspace == OLD and pool._connection.keyspace == OLD):
                raise RuntimeError("initial keyspace not established on pool %d" % p)
        self.coord = min(p for p in self.addr if pstate[p] == "conn")

    def _rstep(self, name, p):
        frm, to, label = RSTEPS[name]
        if self.rph.get(p) != frm:
            raise HarnessRefusal("the _replace task of pool %d is in phase %s, not %s" % (p, self.rph.get(p), frm))
        tname = "R%d" % p
        if frm == "queued":
            t = self._replace_task(p)
            if t is None:
                raise HarnessRefusal("pool %d has no _replace task queued" % p)
            self.sched.spawn(tname, self.cluster.executor.run, t)
        n = 0
        while True:
            lab = self.sched.step(tname)
            n += 1
            if lab == "end" or lab == label:
                break
            if n > 500:
                raise HarnessRefusal("the _replace task of pool %d does not reach %s" % (p, label))
        if lab == "end" and label is not None:
            raise HarnessRefusal("the _replace task of pool %d ended before %s" % (p, label))
        self.rph[p] = to

    def act_RCheck(self, p):
        self._rstep("RCheck", p)

    def act_ROpen(self, p):
        self._rstep("ROpen", p)

    def act_RUse(self, p):
        self._rstep("RUse", p)

    def act_RPublish(self, p):
        self._rstep("RPublish", p)

    def _replace_task(self, p):
        for t in self.cluster.executor.queue:
            if t.label == "_replace" and getattr(t.fn, "__self__", None) is self.pool[p]:
                return t
        return None

    def _use_pending(self, p):
        return [x for x in self.nodes[p].pending if x.req.get("op") == "QUERY" and x.req.get("query", "").upper().startswith("USE")]

    # ------------------------------------------------------------ actions
    def do(self, act):
        getattr(self, "act_" + act["name"])(act["p"])

    def act_Start(self, _):
        self.fut = self.session.execute_async("USE %s" % NEW, host=self.host[self.coord])
        self.fut.add_callbacks(self._cb, self._eb)
        pend = self._use_pending(self.coord)
        if len(pend) != 1:
            raise HarnessRefusal("the USE statement did not reach node %d" % self.coord)
        self.nodes[self.coord].respond(pend[0], wire.RESULT, wire.body_set_keyspace(NEW))

    def _cb(self, res):
        self.cbs += 1

    def _eb(self, exc):
        self.ebs += 1
        self.exc = exc

    def act_PoolFinish(self, p):
        pend = self._use_pending(p)
        if len(pend) != 1:
            raise HarnessRefusal("pool %d has %d USE queries outstanding" % (p, len(pend)))
        x, node, o = pend[0], self.nodes[p], self.outcome[p]
        if o == "ok":
            node.respond(x, wire.RESULT, wire.body_set_keyspace(NEW))
        elif o == "invalid":
            node.respond_error(x, wire.ERR_INVALID, "Keyspace '%s' does not exist" % NEW)
        elif o == "srverr":
            node.respond_error(x, wire.ERR_SERVER, "boom")
        elif o == "died":
            x.conn.socket_error()
        else:
            raise HarnessRefusal("unknown outcome %s" % o)

    def act_Reconnect(self, p):
        t = self._replace_task(p)
        if t is None:
            raise HarnessRefusal("pool %d has no _replace task queued" % p)
        node = self.nodes[p]
        node.auto = True
        try:
            self.cluster.executor.run(t)
        finally:
            node.auto = False

    def act_Borrow(self, p):
        pool = self.pool[p]
        try:
            conn, _ = pool.borrow_connection(timeout=0.1)
        except Exception:
            self.borrowed[p] = "none"
            return
        self.borrowed[p] = "new" if conn.keyspace == NEW else "old"
        pool.return_connection(conn)

    # ------------------------------------------------------------ projection
    def project(self):
        f = self.fut
        result = "none"
        if f is not None:
            if f._final_exception is not None:
                result = "error"
            elif f._final_result is not cassandra.cluster._NOT_SET:
                result = "ok"
        connks, poolks, newks = {}, {}, {}
        for p, pool in self.pool.items():
            c = pool._connection
            connks[p] = "none" if (c is None or c.is_closed or c.is_defunct) else ("new" if c.keyspace == NEW else "old")
            poolks[p] = "new" if pool._keyspace == NEW else "old"
            nc = self.newconn.get(p) if self.rph.get(p) in ("use", "publish") else None
            newks[p] = "-" if (nc is None or nc is c or nc.keyspace is None) else ("new" if nc.keyspace == NEW else "old")
        return {"completions": self.cbs + self.ebs, "result": result, "connks": connks, "poolks": poolks, "newks": newks,
                "borrowed": dict(self.borrowed), "outstanding": frozenset(p for p in self.addr if self._use_pending(p))}

    def teardown(self):
        try:
            self.cluster.executor.queue[:] = []
            self.cluster.shutdown()
        except Exception:
            pass


def _fn(v):
    if isinstance(v, tuple):
        return {i + 1: x for i, x in enumerate(v)}
    return dict(v)


def spec_view(s):
    pstate = _fn(s["pstate"])
    return {"completions": s["completions"], "result": s["result"], "connks": _fn(s["connks"]),
            "poolks": {p: (v if pstate[p] != "shutdown" else None) for p, v in _fn(s["poolks"]).items()},
            "borrowed": _fn(s["borrowed"]), "outstanding": frozenset(s["asked"]), "newks": _fn(s["newks"])}


def diff(spec, real, pstate):
    out = {}
    for k, v in spec.items():
        r = real[k]
        if k == "poolks":
            r = {p: (x if pstate[p] != "shutdown" else None) for p, x in r.items()}     # irrelevant for a shut-down pool
        if v != r:
            out[k] = {"spec": v, "code": r}
    return out


def classify(act, state, d, last_finished, prev=None):
    """Stable signature for the first divergence of a behaviour in a group of fields."""
    pstate, outcome = _fn(state["pstate"]), _fn(state["outcome"])
    if act["name"] == "RPublish" and "connks" in d and prev is not None:
        p = act["p"]
        if _fn(prev["newks"])[p] == "old" and _fn(prev["poolks"])[p] == "new" and d["connks"]["code"].get(p) == "old":
            return S_LATE              # the USE was issued before the switch was recorded, the publication came after it
    if "completions" in d or "result" in d:
        code_done = d.get("completions", {}).get("code", state["completions"])
        if state["completions"] == 1 and code_done == 0:
            if any(v != "conn" for v in pstate.values()):
                return S_NEVER
            return "replay:%s:never-completes" % act["name"]
        if code_done == 1 and state["completions"] == 1 and "result" in d and d["result"]["spec"] == "error" and d["result"]["code"] == "ok":
            failing = [p for p in pstate if pstate[p] == "conn" and outcome[p] != "ok"]
            if all(outcome[p] == "died" for p in failing):
                return S_DIED                  # every failure was a connection that died: each was passed on as "no error"
            if last_finished is not None and outcome[last_finished] in ("ok", "died"):
                return S_LAST                  # an error was collected, the last pool's (empty) list was reported
            return "replay:%s:error-not-reported" % act["name"]
        return "replay:%s:%s" % (act["name"], ",".join(sorted(k for k in d if k in KsHarness.GROUP_A)))
    if "poolks" in d and act["name"] == "Start":
        bad = [p for p in d["poolks"]["spec"] if d["poolks"]["spec"][p] != d["poolks"]["code"][p]]
        if bad and all(pstate[p] == "noconn" for p in bad):
            return S_POOLKS
    return "replay:%s:%s" % (act["name"], ",".join(sorted(d)))


def replay(states):
    """Replay one behaviour (list of spec states, first = Init).  The first divergence in each group of fields
    (completion / keyspaces) is reported, then that group is no longer compared for this behaviour.
    Returns the list of divergences."""
    s0 = states[0]
    pstate, outcome = _fn(s0["pstate"]), _fn(s0["outcome"])
    try:
        h = KsHarness(pstate, outcome, _fn(s0["rph"]))
    except Exception as ex:
        return [{"step": 0, "action": {"name": "Init", "p": 0}, "signature": "replay:Init:%s" % type(ex).__name__,
                 "diff": {"_setup": {"spec": "configuration", "code": "%s: %s" % (type(ex).__name__, ex)}}}]
    out = []
    muted = set()
    last_finished = None
    try:
        for i, s in enumerate(states):
            act = dict(s["act"])
            if i > 0:
                try:
                    h.do(act)
                except HarnessRefusal as ex:
                    if "outstanding" not in muted:
                        out.append({"step": i, "action": act, "signature": "replay:%s:refused" % act["name"],
                                    "diff": {"_refused": {"spec": "enabled", "code": str(ex)}}})
                    return out
                except Exception as ex:
                    out.append({"step": i, "action": act, "signature": "replay:%s:exception:%s" % (act["name"], type(ex).__name__),
                                "diff": {"_exception": {"spec": "no exception", "code": "%s: %s" % (type(ex).__name__, ex)}}})
                    return out
                if act["name"] == "PoolFinish":
                    last_finished = act["p"]
            d = diff(spec_view(s), h.project(), pstate)
            d = {k: v for k, v in d.items() if k not in muted}
            for group in (KsHarness.GROUP_A, KsHarness.GROUP_B, ("outstanding",)):
                dg = {k: v for k, v in d.items() if k in group}
                if dg:
                    out.append({"step": i, "action": act, "diff": dg,
                                "signature": classify(act, s, dg, last_finished, states[i - 1] if i else None)})
                    muted.update(group)
        return out
    finally:
        h.teardown()


# ---------------------------------------------------------------------- recording (code -> spec)
def record(n, rng):
    """A random configuration and order, driven on the real objects; returns the events (first: Config)."""
    while True:
        pstate = {p: rng.choice(["conn", "conn", "noconn", "shutdown"]) for p in range(1, n + 1)}
        if any(v == "conn" for v in pstate.values()):
            break
    outcome = {p: (rng.choice(["ok", "ok", "invalid", "srverr", "died"]) if pstate[p] == "conn" else "ok") for p in pstate}
    rph = {p: (rng.choice(["queued", "open", "use", "publish"]) if pstate[p] == "noconn" else "none") for p in pstate}
    h = KsHarness(pstate, outcome, rph)
    rngp = range(1, n + 1)
    nxt = {"queued": "RCheck", "open": "ROpen", "use": "RUse", "publish": "RPublish"}

    def post():
        p = h.project()
        return {"completions": p["completions"], "result": p["result"], "connks": [p["connks"][i] for i in rngp],
                "poolks": [p["poolks"][i] for i in rngp], "borrowed": [p["borrowed"][i] for i in rngp],
                "newks": [p["newks"][i] for i in rngp], "outstanding": sorted(p["outstanding"])}
    events = [{"e": "Config", "pstate": [pstate[i] for i in rngp], "outcome": [outcome[i] for i in rngp],
               "rph": [rph[i] for i in rngp], "post": post()}]
    try:
        h.do({"name": "Start", "p": 0})
        events.append({"e": "Start", "p": 0, "post": post()})
        while True:
            ops = [("PoolFinish", p) for p in sorted(h.project()["outstanding"])]
            ops += [(nxt[h.rph[p]], p) for p in rngp if h.rph[p] in nxt]
            if not any(o[0] == "PoolFinish" for o in ops):
                break
            name, p = rng.choice(ops)
            h.do({"name": name, "p": p})
            events.append({"e": name, "p": p, "post": post()})
        for p in rngp:
            while h.rph[p] in nxt:                      # the replacement of a pool without connection completes
                name = nxt[h.rph[p]]
                h.do({"name": name, "p": p})
                events.append({"e": name, "p": p, "post": post()})
            if pstate[p] == "conn" and h.project()["connks"][p] == "none":
                if h._replace_task(p) is None:
                    events.append({"e": "Anomaly", "p": p, "what": "no _replace task for a pool without connection"})
                    return events
                h.do({"name": "Reconnect", "p": p})
                events.append({"e": "Reconnect", "p": p, "post": post()})
            h.do({"name": "Borrow", "p": p})
            events.append({"e": "Borrow", "p": p, "post": post()})
        return events
    except Exception as ex:
        events.append({"e": "Anomaly", "p": 0, "what": "%s: %s" % (type(ex).__name__, ex)})
        return events
    finally:
        h.teardown()


def classify_event(trace, k):
    """Signature for event k (0-based) of a recorded trace that the specification rejects."""
    ev = trace[k]
    cfg = trace[0]
    pstate, outcome = cfg["pstate"], cfg["outcome"]
    if ev["e"] == "Anomaly":
        return "trace:Anomaly"
    post = ev.get("post", {})
    if ev["e"] == "RPublish" and k >= 1:
        before = trace[k - 1]["post"]
        i = ev["p"] - 1
        if before["newks"][i] == "old" and before["poolks"][i] == "new" and post["connks"][i] == "old":
            return S_LATE
    if ev["e"] == "Start" and any(pstate[i] == "noconn" and post["poolks"][i] != "new" for i in range(len(pstate))):
        return S_POOLKS
    if ev["e"] == "PoolFinish" and not post["outstanding"]:
        if post["completions"] == 0 and any(v != "conn" for v in pstate):
            return S_NEVER
        failing = [i for i in range(len(pstate)) if pstate[i] == "conn" and outcome[i] != "ok"]
        if post["completions"] == 1 and post["result"] == "ok" and failing:
            if all(outcome[i] == "died" for i in failing):
                return S_DIED
            if outcome[ev["p"] - 1] in ("ok", "died"):
                return S_LAST
    if ev["e"] in ("Reconnect", "Borrow") and post.get("completions") == 0 and any(v != "conn" for v in pstate):
        return S_NEVER
    return "trace:%s" % ev["e"]
