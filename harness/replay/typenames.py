"""Binding of spec/TypeNames.tla to cassandra.cqltypes (C28).

A state of TypeNames.tla carries the type tree `t` and the specification's token sequences `cass`
(marshal-class descriptor), `cql` (CQL name), `stripped` (CQL name without frozen) and `cassok`.
This module turns tokens into the strings Cassandra prints, evaluates the real functions on them and
compares:  class tree / codec (with one witness value serialized through it against an independent
encoder of the native-protocol value formats), printed CQL name, CQL string round trip, strip_frozen.
"""
import binascii
import re
import struct

from harness.pyenv import repo_import

PREFIX = "org.apache.cassandra.db.marshal."
_CLASS_TOKEN = re.compile(r'^[A-Za-z0-9]+Type$')

KIND_CLASS = {"int": "Int32Type", "text": "UTF8Type", "list": "ListType", "set": "SetType", "map": "MapType",
              "tuple": "TupleType", "udt": "UserType", "frozen": "FrozenType", "reversed": "ReversedType",
              "vector": "VectorType"}
UDT_FIELDS = {"u": ("f1",), "kj": ("f1", "F2"), "Kj": ("f1",), "Big Type": ("f1",), "other-udt": ("f1",), 'a"b': ("f1",), "it's": ("f1",),
              "shop": ("f1",), "shopitem": ("f1",), "ks": ("f1",), "Int32Type": ("f1",), "inbuilt": ("f1",)}
# names that need quoting in CQL -> quoted form (diagnostics only: attributes a name mismatch to the known printing defect)
QUOTED = {"Kj": '"Kj"', "Big Type": '"Big Type"', "other-udt": '"other-udt"', 'a"b': '"a""b"', "it's": '"it\'s"', "Int32Type": '"Int32Type"'}
SIG_APOSTROPHE = "cqltype_to_python:apostrophe-in-quoted-name:raises"

SIG_HEXINT = "parse_casstype_args:all-digit-hex-udt-name-read-as-int"
SIG_VECTOR = "VectorType.cql_parameterized_type:marshal-class-name-instead-of-vector"
SIG_UDTQUOTE = "UserType.cql_parameterized_type:udt-name-not-quoted"
SIG_SHADOW = "lookup_casstype:udt-class-registered-under-its-name-shadows-plain-name-token"
# keyspace of a user type (default ks) and the names used only in parse histories (TypeNames.tla: UdtKs, HTrees)
UDT_KS = {"shop": "shop", "shopitem": "shop", "inbuilt": "Int32Type"}
HIST_NAMES = frozenset(("shop", "shopitem", "ks", "Int32Type", "inbuilt"))


def cass_string(tokens, full=True):
    return "".join((PREFIX + tk) if (full and _CLASS_TOKEN.match(tk)) else tk for tk in tokens)


def cql_string(tokens):
    return "".join(tokens)


def nows(s):
    return re.sub(r'\s+', '', s)


def check_tables():
    """The hex table of the specification is the ASCII hex of the names (checked by the caller against states)."""
    return {n: binascii.hexlify(n.encode("ascii")).decode() for n in list(UDT_FIELDS) + ["f1", "F2"]}


def tree_kinds(t):
    yield t
    for a in t["a"]:
        yield from tree_kinds(a)


def has_all_digit_udt(t):
    return any(n["k"] == "udt" and binascii.hexlify(n["nm"].encode()).decode().isdigit() for n in tree_kinds(t))


# ------------------------------------------------------------------ codec implied by a tree

def codec_mismatch(cls, t, ct, path="type"):
    """None when the class tree `cls` is the codec the tree `t` implies, else a description."""
    k = t["k"]
    if k == "frozen" and t["a"][0]["k"] in ("tuple", "udt"):
        return codec_mismatch(cls, t["a"][0], ct, path)            # implicitly frozen: no FrozenType class
    if not isinstance(cls, type):
        return "%s: %r is not a type class" % (path, cls)
    if k == "int":
        return None if cls is ct.Int32Type else "%s: %s instead of Int32Type" % (path, cls.__name__)
    if k == "text":
        return None if cls is ct.UTF8Type else "%s: %s instead of UTF8Type" % (path, cls.__name__)
    base = getattr(ct, KIND_CLASS[k])
    if not issubclass(cls, base):
        return "%s: %s is not a %s" % (path, cls.__name__, KIND_CLASS[k])
    if k == "tuple" and issubclass(cls, ct.UserType):
        return "%s: UserType instead of TupleType" % path
    if k == "vector":
        if getattr(cls, "vector_size", None) != t["d"]:
            return "%s: vector dimension %r instead of %r" % (path, getattr(cls, "vector_size", None), t["d"])
        return codec_mismatch(cls.subtype, t["a"][0], ct, path + ".subtype")
    if k == "udt":
        ks = UDT_KS.get(t["nm"], "ks")
        if cls.typename != t["nm"] or tuple(cls.fieldnames) != UDT_FIELDS[t["nm"]] or getattr(cls, "keyspace", None) != ks:
            return "%s: UDT %r.%r fields %r instead of %s.%s %r" % (path, getattr(cls, "keyspace", None), cls.typename,
                                                                  tuple(cls.fieldnames), ks, t["nm"], UDT_FIELDS[t["nm"]])
    subs = tuple(cls.subtypes)
    if len(subs) != len(t["a"]):
        return "%s: %d subtypes instead of %d" % (path, len(subs), len(t["a"]))
    for i, (s, a) in enumerate(zip(subs, t["a"])):
        m = codec_mismatch(s, a, ct, "%s[%d]" % (path, i))
        if m:
            return m
    return None


class Pairs(list):
    """A map value for serialize(): len() and items()."""

    def items(self):
        return list(self)


def witness(t, ctr=None):
    """One value of the type (distinct leaves), as the driver takes it."""
    ctr = ctr if ctr is not None else [0]
    k = t["k"]
    if k == "int":
        ctr[0] += 1
        return -3 + 7 * ctr[0]
    if k == "text":
        ctr[0] += 1
        return "é'\U0001D11E%d" % ctr[0]
    if k in ("frozen", "reversed"):
        return witness(t["a"][0], ctr)
    if k in ("list", "set"):
        return [witness(t["a"][0], ctr)]
    if k == "map":
        return Pairs([(witness(t["a"][0], ctr), witness(t["a"][1], ctr))])
    if k in ("tuple", "udt"):
        return tuple(witness(a, ctr) for a in t["a"])
    if k == "vector":
        return [witness(t["a"][0], ctr) for _ in range(t["d"])]
    raise ValueError(k)


def _uvint(n):
    if n < 0x80:
        return bytes([n])
    raise ValueError("witness element too long for the reference vint encoder")


def fixed_size(t):
    """Serialized size of a fixed-length type, else None (Cassandra: valueLengthIfFixed)."""
    k = t["k"]
    if k == "int":
        return 4
    if k == "vector":
        s = fixed_size(t["a"][0])
        return None if s is None else s * t["d"]
    return None


def flat_collection(t):
    """list / set / map of leaves, possibly under frozen / reversed: the collections protocol v1 / v2 know."""
    while t["k"] in ("frozen", "reversed"):
        t = t["a"][0]
    return t["k"] in ("list", "set", "map") and all(a["k"] in ("int", "text") for a in t["a"])


def ref_bytes_v2(t, v):
    """Independent encoder of a flat collection for native protocol v1 / v2: [short n] ([short len] bytes)*."""
    while t["k"] in ("frozen", "reversed"):
        t = t["a"][0]

    def sp(b):
        return struct.pack(">H", len(b)) + b
    if t["k"] == "map":
        return struct.pack(">H", len(v)) + b"".join(sp(ref_bytes(t["a"][0], a)) + sp(ref_bytes(t["a"][1], b)) for a, b in v)
    return struct.pack(">H", len(v)) + b"".join(sp(ref_bytes(t["a"][0], x)) for x in v)


def ref_bytes(t, v):
    """Independent encoder of the native protocol (v3+) value formats."""
    k = t["k"]
    if k == "int":
        return struct.pack(">i", v)
    if k == "text":
        return v.encode("utf-8")
    if k in ("frozen", "reversed"):
        return ref_bytes(t["a"][0], v)

    def lp(b):
        return struct.pack(">i", len(b)) + b
    if k in ("list", "set"):
        return struct.pack(">i", len(v)) + b"".join(lp(ref_bytes(t["a"][0], x)) for x in v)
    if k == "map":
        return struct.pack(">i", len(v)) + b"".join(lp(ref_bytes(t["a"][0], a)) + lp(ref_bytes(t["a"][1], b)) for a, b in v)
    if k in ("tuple", "udt"):
        return b"".join(lp(ref_bytes(a, x)) for a, x in zip(t["a"], v))
    if k == "vector":
        if fixed_size(t["a"][0]) is not None:
            return b"".join(ref_bytes(t["a"][0], x) for x in v)
        out = b""
        for x in v:
            b = ref_bytes(t["a"][0], x)
            out += _uvint(len(b)) + b
        return out
    raise ValueError(k)


def normalize(v):
    """Decoded value -> nested lists (sets, ordered maps, named tuples flattened)."""
    if isinstance(v, (str, int)) or v is None:
        return v
    if hasattr(v, "items"):
        return [[normalize(a), normalize(b)] for a, b in v.items()]
    return [normalize(x) for x in v]


# ------------------------------------------------------------------ evaluation of one state

def eval_cass(t, cass_tokens, cql_tokens, full=True, plain_tokens=None):
    """Cassandra notation -> type class: returns a list of (signature, message); empty = conforms."""
    ct = repo_import("cassandra.cqltypes")
    md = repo_import("cassandra.metadata")
    s = cass_string(cass_tokens, full)
    want = cql_string(cql_tokens)
    try:
        cls = ct.lookup_casstype(s)
    except Exception as ex:
        sig = SIG_HEXINT if (isinstance(ex, AttributeError) and has_all_digit_udt(t)) else "lookup_casstype:raises"
        return [(sig, "lookup_casstype(%r) raised %s: %s" % (s, type(ex).__name__, ex))]
    out = []
    try:
        name_of = getattr(md, "_cql_from_cass_type", None)        # the driver's "CQL type of a column": unwraps ReversedType
        got = name_of(cls) if (name_of and t["k"] == "reversed") else cls.cql_parameterized_type()
    except Exception as ex:
        got = None
        out.append(("cql_parameterized_type:raises", "%s: cql_parameterized_type raised %s: %s" % (s, type(ex).__name__, ex)))
    if got is not None and nows(got) != nows(want):
        fixes = []
        g = nows(got)
        if (PREFIX + "VectorType<") in g:
            g2 = g.replace(PREFIX + "VectorType<", "vector<")
            if g2 != g:
                fixes.append(SIG_VECTOR)
                g = g2
        if nows(want) != g:
            g2 = g
            for raw, quoted in QUOTED.items():
                g2 = g2.replace("frozen<%s>" % nows(raw), "frozen<%s>" % nows(quoted))
            if g2 != g:
                g = g2
                fixes.append(SIG_UDTQUOTE)
        msg = "lookup_casstype(%r) prints CQL name %r, the type's CQL name is %r" % (s, got, want)
        if g == nows(want) and fixes:
            out += [(f, msg) for f in fixes]
        else:
            out.append(("lookup_casstype:cql-name-differs", msg))
    m = codec_mismatch(cls, t, ct)
    if m:
        out.append(("lookup_casstype:codec-differs", "lookup_casstype(%r): %s" % (s, m)))
        return out
    try:
        w = witness(t)
        want_b = ref_bytes(t, w)
        got_b = cls.serialize(w, 4)
        if got_b != want_b:
            out.append(("lookup_casstype:serialization-differs",
                        "lookup_casstype(%r).serialize(%r) = %s, protocol encoding is %s" % (s, w, got_b.hex(), want_b.hex())))
        else:
            back = normalize(cls.deserialize(got_b, 4))
            if back != normalize(w):
                out.append(("lookup_casstype:serialization-differs",
                            "lookup_casstype(%r): %r decodes back as %r" % (s, normalize(w), back)))
    except Exception as ex:
        out.append(("lookup_casstype:serialization-raises", "lookup_casstype(%r): serializing a value raised %s: %s"
                    % (s, type(ex).__name__, ex)))
    if plain_tokens is not None and not any(sig.startswith("lookup_casstype:") for sig, _ in out):
        out += eval_wire_versions(t, cls, s, cass_string(plain_tokens, full))
    return out


def eval_wire_versions(t, cls, s, plain):
    """On every protocol version the parsed type encodes / decodes like the type without its frozen / reversed
    wrappers (TypeNames.tla: ValueType, WireVersions); flat collections also against the v1 / v2 format itself."""
    ct = repo_import("cassandra.cqltypes")
    out = []
    try:
        base = cls if plain == s else ct.lookup_casstype(plain)
    except Exception as ex:
        return [("lookup_casstype:raises", "lookup_casstype(%r) raised %s: %s" % (plain, type(ex).__name__, ex))]
    w = witness(t)
    for pv in (1, 2, 3, 4):
        try:
            want_b = base.serialize(w, pv)
            if pv < 3 and flat_collection(t) and want_b != ref_bytes_v2(t, w):
                out.append(("lookup_casstype:serialization-differs", "lookup_casstype(%r).serialize(%r, protocol v%d) = %s, "
                            "protocol encoding is %s" % (plain, w, pv, want_b.hex(), ref_bytes_v2(t, w).hex())))
                break
            got_b = cls.serialize(w, pv)
            if got_b != want_b:
                out.append(("lookup_casstype:wrapper-changes-value-codec",
                            "protocol v%d: lookup_casstype(%r).serialize(%r) = %s but the type it wraps, %r, encodes %s"
                            % (pv, s, w, got_b.hex(), plain, want_b.hex())))
                break
            back = normalize(cls.deserialize(want_b, pv))
            if back != normalize(w):
                out.append(("lookup_casstype:wrapper-changes-value-codec",
                            "protocol v%d: lookup_casstype(%r) decodes %s (%r encoded by %r) as %r"
                            % (pv, s, want_b.hex(), normalize(w), plain, back)))
                break
        except Exception as ex:
            out.append(("lookup_casstype:wrapper-changes-value-codec", "protocol v%d: lookup_casstype(%r): encoding / decoding "
                        "%r raised %s: %s" % (pv, s, w, type(ex).__name__, ex)))
            break
    return out


def _lists(v):
    return [_lists(x) for x in v] if isinstance(v, (list, tuple)) else v


def eval_cql(cql_tokens, stripped_tokens, py_form=None):
    """CQL notation: structure of the parse, parse/print round trip and strip_frozen."""
    ct = repo_import("cassandra.cqltypes")
    s = cql_string(cql_tokens)
    out = []
    try:
        parsed = ct.cqltype_to_python(s)
        if py_form is not None and _lists(parsed) != _lists(py_form):
            out.append(("cqltype_to_python:structure-differs",
                        "cqltype_to_python(%r) = %r, the type's structure is %r" % (s, parsed, _lists(py_form))))
        rt = ct.python_to_cqltype(parsed)
        if nows(rt) != nows(s):
            out.append(("cqltype_round_trip:differs", "python_to_cqltype(cqltype_to_python(%r)) = %r" % (s, rt)))
    except Exception as ex:
        out.append((SIG_APOSTROPHE if "'" in s else "cqltype_round_trip:raises", "cqltype_to_python / python_to_cqltype on %r raised %s: %s" % (s, type(ex).__name__, ex)))
    try:
        sf = ct.strip_frozen(s)
        want = cql_string(stripped_tokens)
        if nows(sf) != nows(want):
            out.append(("strip_frozen:differs", "strip_frozen(%r) = %r, without its frozen wrappers the type is %r" % (s, sf, want)))
    except Exception as ex:
        out.append((SIG_APOSTROPHE if "'" in s else "strip_frozen:raises", "strip_frozen(%r) raised %s: %s" % (s, type(ex).__name__, ex)))
    return out


# ------------------------------------------------------------------ parse histories (the type registries are process-global)

def uses_history_names(t):
    return any(n["k"] == "udt" and n["nm"] in HIST_NAMES for n in tree_kinds(t))


def registry_snapshot():
    ct = repo_import("cassandra.cqltypes")
    return dict(ct._casstypes), dict(ct._cqltypes), dict(ct.UserType._cache)


def registry_restore(snap):
    ct = repo_import("cassandra.cqltypes")
    for live, saved in zip((ct._casstypes, ct._cqltypes, ct.UserType._cache), snap):
        live.clear()
        live.update(saved)


def shadowed_tokens(cass_tokens):
    """Plain-name tokens of a descriptor that the registry currently resolves to a class made for a user type."""
    ct = repo_import("cassandra.cqltypes")
    out = []
    for tk in cass_tokens:
        c = ct._casstypes.get(tk) if re.match(r'^\w+$', tk) else None
        if isinstance(c, type) and issubclass(c, ct.UserType) and c is not ct.UserType:
            out.append(tk)
    return sorted(set(out))


def eval_history(prev_descriptors, t, cass_tokens, cql_tokens, plain_tokens=None):
    """Parse the descriptors of `prev_descriptors` (token sequences), then evaluate t's descriptor as eval_cass does;
    the registries are those of a process that parsed nothing else, and are restored afterwards.
    A divergence in the presence of a shadowed plain-name token gets SIG_SHADOW."""
    ct = repo_import("cassandra.cqltypes")
    snap = registry_snapshot()
    try:
        for pd in prev_descriptors:
            try:
                ct.lookup_casstype(cass_string(pd))
            except Exception:
                pass                                   # its own evaluation (with an empty history) reports that
        before = shadowed_tokens(cass_tokens)
        fails = eval_cass(t, cass_tokens, cql_tokens, True, plain_tokens)
        shadow = sorted(set(before + shadowed_tokens(cass_tokens)))
    finally:
        registry_restore(snap)
    if not shadow:
        return fails
    hist = ("after parsing %s: " % ", ".join(cass_string(pd, False) for pd in prev_descriptors)) if prev_descriptors else ""
    return [(sig, msg) if sig in (SIG_UDTQUOTE, SIG_VECTOR) else
            (SIG_SHADOW, "%s%s  [token(s) %s resolve to the class of a user type of that name]" % (hist, msg, ", ".join(shadow)))
            for sig, msg in fails]
